// ================================================================================================
// prelude_htx.rs — the hash-bucket table file (.htx): header, bucket table, occupancy bitmap.
// SPEC / PROOF only. Layout source: htx.rs:251-293 (header), 424-445 (table, bitmap).
// ================================================================================================
verus! {

pub open spec fn htx_len(n: int) -> int { 128 + 8 * n + n / 8 }
pub open spec fn bucket_pos(i: int) -> int { 128 + 8 * i }
pub open spec fn bucket(b: Seq<u8>, i: int) -> nat { le64_at(b, bucket_pos(i)) }
pub open spec fn bm_start(n: int) -> int { 128 + 8 * n }
pub open spec fn bit_of(byte: u8, k: u64) -> bool { byte & (1u8 << k) != 0 }
pub open spec fn bit(b: Seq<u8>, n: int, i: int) -> bool { bit_of(b[bm_start(n) + i / 8], (i % 8) as u64) }
pub open spec fn htx_count(b: Seq<u8>) -> nat { le64_at(b, 24) }
pub open spec fn htx_stored_n(b: Seq<u8>) -> nat { le64_at(b, 16) }

/// shape of a table file for `n` buckets: exact length; every non-empty bucket is flagged in the bitmap
pub open spec fn htx_wf(b: Seq<u8>, n: int) -> bool {
    &&& 8 <= n <= 0x1000_0000_0000 && n % 8 == 0
    &&& b.len() == htx_len(n)
    &&& htx_stored_n(b) == n
    &&& forall|i: int| 0 <= i < n && #[trigger] bucket(b, i) != 0 ==> bit(b, n, i)
}
pub open spec fn all_empty(b: Seq<u8>, lo: int, hi: int) -> bool {
    forall|i: int| lo <= i < hi ==> #[trigger] bucket(b, i) == 0
}

pub proof fn lemma_bits(byte: u8, k: u64, j: u64)
    requires k < 8, j < 8
    ensures bit_of(byte | (1u8 << k), j) == (j == k || bit_of(byte, j)),
            bit_of(byte & !(1u8 << k), j) == (j != k && bit_of(byte, j)),
            byte == 0 ==> !bit_of(byte, j),
{
    assert(((byte | (1u8 << k)) & (1u8 << j) != 0) == (j == k || (byte & (1u8 << j) != 0))) by (bit_vector) requires k < 8, j < 8;
    assert(((byte & !(1u8 << k)) & (1u8 << j) != 0) == (j != k && (byte & (1u8 << j) != 0))) by (bit_vector) requires k < 8, j < 8;
    assert(byte == 0 ==> (byte & (1u8 << j)) == 0) by (bit_vector);
}

/// zero bitmap bytes mean empty buckets (contrapositive of the bitmap invariant)
pub proof fn lemma_zero_bytes_empty(b: Seq<u8>, n: int, idx: int, cnt: int)
    requires htx_wf(b, n), 0 <= idx, idx % 8 == 0, cnt >= 0, idx + 8 * cnt <= n,
        forall|k: int| bm_start(n) + idx / 8 <= k < bm_start(n) + idx / 8 + cnt ==> #[trigger] b[k] == 0u8,
    ensures all_empty(b, idx, idx + 8 * cnt)
{
    assert forall|i: int| idx <= i < idx + 8 * cnt implies #[trigger] bucket(b, i) == 0 by {
        let k = bm_start(n) + i / 8;
        assert(bm_start(n) + idx / 8 <= k < bm_start(n) + idx / 8 + cnt);
        assert(b[k] == 0u8);
        lemma_bits(b[k], 0, (i % 8) as u64);
    }
}

/// an 8-byte little-endian read that returns 0 saw eight zero bytes
pub proof fn lemma_le64_zero(b: Seq<u8>, p: int)
    requires 0 <= p, p + 8 <= b.len(), le64_at(b, p) == 0
    ensures forall|k: int| p <= k < p + 8 ==> #[trigger] b[k] == 0u8
{
    lemma_le_val_zero(rd(b, p, 8));
    assert forall|k: int| p <= k < p + 8 implies #[trigger] b[k] == 0u8 by {
        assert(rd(b, p, 8)[k - p] == b[k]);
    }
}

// ---- writes of one aligned field --------------------------------------------------------------------
pub proof fn lemma_write_at_basic(b: Seq<u8>, p: int, data: Seq<u8>)
    requires 0 <= p, p + data.len() <= b.len()
    ensures
        write_at(b, p as nat, data).len() == b.len(),
        rd(write_at(b, p as nat, data), p, data.len() as int) == data,
        forall|i: int| 0 <= i < b.len() && !(p <= i < p + data.len()) ==> #[trigger] write_at(b, p as nat, data)[i] == b[i],
{
    assert(rd(write_at(b, p as nat, data), p, data.len() as int) =~= data);
}

/// a window disjoint from the written range reads the same
pub proof fn lemma_write_at_rd(b: Seq<u8>, p: int, data: Seq<u8>, q: int, m: int)
    requires 0 <= p, p + data.len() <= b.len(), 0 <= q, 0 <= m, q + m <= b.len(), q + m <= p || p + data.len() <= q
    ensures rd(write_at(b, p as nat, data), q, m) == rd(b, q, m)
{
    assert(rd(write_at(b, p as nat, data), q, m) =~= rd(b, q, m));
}

pub proof fn lemma_write_le64(b: Seq<u8>, p: int, v: nat)
    requires 0 <= p, p + 8 <= b.len(), v <= u64::MAX
    ensures le64_at(write_at(b, p as nat, le_bytes(v, 8)), p) == v
{
    lemma_le_bytes_len(v, 8);
    lemma_write_at_basic(b, p, le_bytes(v, 8));
    assert(v < pow256(8)) by { reveal_with_fuel(pow256, 9); }
    lemma_le_val_bytes(v, 8);
}

} // verus!
