// prelude_card.rs — cardinality of the abstract map: SPEC / PROOF text only (no crate code)
verus! {

pub open spec fn flat(cs: Seq<Seq<nat>>) -> Seq<nat>
    decreases cs.len()
{
    if cs.len() == 0 { Seq::<nat>::empty() } else { flat(cs.drop_last()) + cs.last() }
}
pub proof fn lemma_flat_len(cs: Seq<Seq<nat>>)
    ensures flat(cs).len() == total(cs)
    decreases cs.len()
{
    if cs.len() > 0 { lemma_flat_len(cs.drop_last()); }
}
/// membership in the flattening
pub proof fn lemma_flat_contains(cs: Seq<Seq<nat>>, o: nat)
    ensures flat(cs).contains(o) <==> exists|b: int| 0 <= b < cs.len() && #[trigger] cs[b].contains(o)
    decreases cs.len()
{
    if cs.len() == 0 {
        assert(!flat(cs).contains(o));
    } else {
        let p = cs.drop_last();
        lemma_flat_contains(p, o);
        let f = flat(p); let l = cs.last();
        if flat(cs).contains(o) {
            let i = choose|i: int| 0 <= i < flat(cs).len() && flat(cs)[i] == o;
            if i < f.len() {
                assert(f[i] == o); assert(f.contains(o));
                let b = choose|b: int| 0 <= b < p.len() && #[trigger] p[b].contains(o);
                assert(cs[b] == p[b]);
                assert(cs[b].contains(o));
            } else {
                assert(l[i - f.len()] == o);
                assert(cs[cs.len() - 1].contains(o));
            }
        }
        if exists|b: int| 0 <= b < cs.len() && #[trigger] cs[b].contains(o) {
            let b = choose|b: int| 0 <= b < cs.len() && #[trigger] cs[b].contains(o);
            if b < p.len() {
                assert(p[b] == cs[b]); assert(p[b].contains(o));
                assert(f.contains(o));
                let i = choose|i: int| 0 <= i < f.len() && f[i] == o;
                assert(flat(cs)[i] == o);
            } else {
                let j = choose|j: int| 0 <= j < l.len() && l[j] == o;
                assert(flat(cs)[f.len() + j] == o);
            }
        }
    }
}
/// chains without repeats that are pairwise disjoint flatten to a sequence without repeats
pub proof fn lemma_flat_no_dup(cs: Seq<Seq<nat>>)
    requires
        forall|b: int| 0 <= b < cs.len() ==> (#[trigger] cs[b]).no_duplicates(),
        forall|b1: int, b2: int, o: nat| 0 <= b1 < b2 < cs.len() && #[trigger] cs[b1].contains(o) ==> !(#[trigger] cs[b2].contains(o)),
    ensures flat(cs).no_duplicates()
    decreases cs.len()
{
    if cs.len() > 0 {
        let p = cs.drop_last(); let f = flat(p); let l = cs.last();
        assert forall|b: int| 0 <= b < p.len() implies (#[trigger] p[b]).no_duplicates() by { assert(p[b] == cs[b]); }
        assert forall|b1: int, b2: int, o: nat| 0 <= b1 < b2 < p.len() && #[trigger] p[b1].contains(o) implies !(#[trigger] p[b2].contains(o)) by {
            assert(p[b1] == cs[b1] && p[b2] == cs[b2]);
        }
        lemma_flat_no_dup(p);
        assert(l == cs[cs.len() - 1]);
        assert forall|i: int, j: int| 0 <= i < j < flat(cs).len() implies flat(cs)[i] != flat(cs)[j] by {
            if j < f.len() { assert(f[i] != f[j]); }
            else if i >= f.len() { assert(l[i - f.len()] != l[j - f.len()]); }
            else {
                let o = f[i];
                if o == l[j - f.len()] {
                    assert(f.contains(o));
                    lemma_flat_contains(p, o);
                    let b = choose|b: int| 0 <= b < p.len() && #[trigger] p[b].contains(o);
                    assert(cs[b] == p[b]); assert(cs[b].contains(o));
                    assert(cs[cs.len() - 1].contains(o));
                    assert(false);
                }
            }
        }
    }
}

// ---- the live keys of a map, listed once each: len() is the number of distinct keys (C01, C04) ----------------------
/// the keys of the records on the chains, bucket by bucket
pub open spec fn key_list(w: MapW) -> Seq<Seq<u8>> {
    Seq::new(flat(w.cs).len(), |i: int| kkey(w.kw, flat(w.cs)[i]))
}
/// c is the number of distinct keys of the abstract map: they can be listed once each in a list of length c
pub open spec fn is_cardinality(w: MapW, c: nat) -> bool {
    &&& key_list(w).no_duplicates()
    &&& key_list(w).len() == c
    &&& forall|k: Seq<u8>| #[trigger] has_key(w, k) <==> key_list(w).contains(k)
}
/// under the representation invariant the key list has no repetition, lists exactly the keys of the abstract map, and its
/// length is the stored item count: `len()` (== total(w.cs) == htx_count) is the cardinality of the key set
pub proof fn lemma_len_is_cardinality(m: MapB, w: MapW)
    requires map_ok(m, w)
    ensures
        key_list(w).no_duplicates(),
        key_list(w).len() == total(w.cs),
        forall|k: Seq<u8>| #[trigger] has_key(w, k) <==> key_list(w).contains(k),
        key_list(w).to_set().finite() && key_list(w).to_set().len() == total(w.cs),
{
    let cs = w.cs; let kw = w.kw; let n = m.n; let f = flat(cs); let ks = key_list(w);
    lemma_flat_len(cs);
    // chains: no repeats, pairwise disjoint (a record on the chain of b hashes to b)
    assert forall|b: int| 0 <= b < cs.len() implies (#[trigger] cs[b]).no_duplicates() by {
        assert(chain_ok(kw, bucket(m.hb, b), cs[b], b, n));
        assert forall|i: int, j: int| 0 <= i < cs[b].len() && 0 <= j < cs[b].len() && i != j implies cs[b][i] != cs[b][j] by {
            lemma_chain_member(kw, bucket(m.hb, b), cs[b], b, n, i);
        }
    }
    assert forall|b1: int, b2: int, o: nat| 0 <= b1 < b2 < cs.len() && #[trigger] cs[b1].contains(o) implies !(#[trigger] cs[b2].contains(o)) by {
        if cs[b2].contains(o) {
            let i1 = choose|i: int| 0 <= i < cs[b1].len() && cs[b1][i] == o;
            let i2 = choose|i: int| 0 <= i < cs[b2].len() && cs[b2][i] == o;
            assert(chain_ok(kw, bucket(m.hb, b1), cs[b1], b1, n));
            assert(chain_ok(kw, bucket(m.hb, b2), cs[b2], b2, n));
            lemma_chain_member(kw, bucket(m.hb, b1), cs[b1], b1, n, i1);
            lemma_chain_member(kw, bucket(m.hb, b2), cs[b2], b2, n, i2);
        }
    }
    lemma_flat_no_dup(cs);
    // every listed offset is a key record
    assert forall|i: int| 0 <= i < f.len() implies is_key(kw, #[trigger] f[i]) by {
        let o = f[i];
        assert(f.contains(o));
        lemma_flat_contains(cs, o);
        let b = choose|b: int| 0 <= b < cs.len() && #[trigger] cs[b].contains(o);
        let j = choose|j: int| 0 <= j < cs[b].len() && cs[b][j] == o;
        assert(chain_ok(kw, bucket(m.hb, b), cs[b], b, n));
        lemma_chain_member(kw, bucket(m.hb, b), cs[b], b, n, j);
    }
    // distinct records hold distinct keys
    assert forall|i: int, j: int| 0 <= i < j < ks.len() implies ks[i] != ks[j] by {
        reveal(keys_distinct);
        assert(f[i] != f[j]);
        assert(is_key(kw, f[i]) && is_key(kw, f[j]));
    }
    assert forall|k: Seq<u8>| #[trigger] has_key(w, k) <==> ks.contains(k) by {
        if has_key(w, k) {
            let o = choose|o: nat| #[trigger] is_key(kw, o) && kkey(kw, o) == k;
            reveal(all_on_chains);
            let b = bucket_of(k, n);
            lemma_bucket_range(k, n);
            assert(cs[b].contains(o));
            lemma_flat_contains(cs, o);
            let i = choose|i: int| 0 <= i < f.len() && f[i] == o;
            assert(ks[i] == k);
        }
        if ks.contains(k) {
            let i = choose|i: int| 0 <= i < ks.len() && ks[i] == k;
            assert(is_key(kw, f[i]) && kkey(kw, f[i]) == k);
        }
    }
    ks.unique_seq_to_set();

}
} // verus!
