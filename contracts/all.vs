@include prelude_base.rs
@include u1_semtype.vs
@include u2_vfile.vs
@include prelude_rec.rs
@include u3_piece.vs
@include u4_val.vs
@include u5_key.vs
@include u6_htx.vs
