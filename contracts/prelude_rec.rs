// ================================================================================================
// prelude_rec.rs — record images (writer side), decode functions (reader side) and the lemmas that
// link them. SPEC / PROOF only. Layout sources: key.rs:661-688, val.rs:520-545, vfile.rs:744-812.
// ================================================================================================
verus! {

pub open spec fn pad(head: Seq<u8>, size: nat) -> Seq<u8> { head + zeros((size - head.len()) as nat) }

// ---- value record -------------------------------------------------------------------------------
pub open spec fn val_head(size: nat, value: Seq<u8>) -> Seq<u8> {
    vu64_enc(size / 8) + vu64_enc(value.len()) + value
}
pub open spec fn val_image(size: nat, value: Seq<u8>) -> Seq<u8> { pad(val_head(size, value), size) }
/// a used value record of slot size `size` holding `value` sits at `o`
pub open spec fn val_used_at(b: Seq<u8>, o: int, size: nat, value: Seq<u8>) -> bool {
    &&& 0 <= o && o + size <= b.len()
    &&& size % 8 == 0 && 0 < size <= u32::MAX
    &&& value.len() <= u32::MAX
    &&& val_head(size, value).len() <= size
    &&& rd(b, o, size as int) == val_image(size, value)
}

// ---- key record ---------------------------------------------------------------------------------
pub open spec fn key_head(size: nat, key: Seq<u8>, voff: nat, next: nat) -> Seq<u8> {
    vu64_enc(size / 8) + vu64_enc(key.len()) + key + vu64_enc(voff / 8) + vu64_enc(next / 8)
}
pub open spec fn key_image(size: nat, key: Seq<u8>, voff: nat, next: nat) -> Seq<u8> { pad(key_head(size, key, voff, next), size) }
pub open spec fn key_used_at(b: Seq<u8>, o: int, size: nat, key: Seq<u8>, voff: nat, next: nat) -> bool {
    &&& 0 <= o && o + size <= b.len()
    &&& size % 8 == 0 && 0 < size <= u32::MAX
    &&& key.len() <= u32::MAX
    &&& voff % 8 == 0 && next % 8 == 0 && voff <= u64::MAX && next <= u64::MAX
    &&& key_head(size, key, voff, next).len() <= size
    &&& rd(b, o, size as int) == key_image(size, key, voff, next)
}

// ---- free record (both files): size, zero length marker, next-free as 8 LE bytes, zeros ----------
pub open spec fn free_head(size: nat, next: nat) -> Seq<u8> {
    vu64_enc(size / 8) + vu64_enc(0) + le_bytes(next, 8)
}
pub open spec fn free_image(size: nat, next: nat) -> Seq<u8> { pad(free_head(size, next), size) }
pub open spec fn free_at(b: Seq<u8>, o: int, size: nat, next: nat) -> bool {
    &&& 0 <= o && o + size <= b.len()
    &&& size % 8 == 0 && 0 < size <= u32::MAX && next <= u64::MAX
    &&& free_head(size, next).len() <= size
    &&& rd(b, o, size as int) == free_image(size, next)
}
/// a popped ("cleared") slot: size field then zeros
pub open spec fn cleared_image(size: nat) -> Seq<u8> { pad(vu64_enc(size / 8), size) }
pub open spec fn cleared_at(b: Seq<u8>, o: int, size: nat) -> bool {
    &&& 0 <= o && o + size <= b.len()
    &&& size % 8 == 0 && 0 < size <= u32::MAX
    &&& rd(b, o, size as int) == cleared_image(size)
}

// ---- reader side: what the crate's field readers decode at an offset -----------------------------
/// slot size announced at `o`
pub open spec fn rec_size(b: Seq<u8>, o: int) -> nat { vu64_val(b, o) * 8 }
/// offset of the length field
pub open spec fn rec_len_pos(b: Seq<u8>, o: int) -> int { o + vu64_w(b, o) }
/// key / value length announced at `o`
pub open spec fn rec_len(b: Seq<u8>, o: int) -> nat { vu64_val(b, rec_len_pos(b, o)) }
/// offset of the payload
pub open spec fn rec_data_pos(b: Seq<u8>, o: int) -> int { rec_len_pos(b, o) + vu64_w(b, rec_len_pos(b, o)) }
pub open spec fn rec_data(b: Seq<u8>, o: int) -> Seq<u8> { rd(b, rec_data_pos(b, o), rec_len(b, o) as int) }
/// key records: offset of the value-offset field, of the next field
pub open spec fn key_voff_pos(b: Seq<u8>, o: int) -> int { rec_data_pos(b, o) + rec_len(b, o) }
pub open spec fn key_voff(b: Seq<u8>, o: int) -> nat { vu64_val(b, key_voff_pos(b, o)) * 8 }
pub open spec fn key_next_pos(b: Seq<u8>, o: int) -> int { key_voff_pos(b, o) + vu64_w(b, key_voff_pos(b, o)) }
pub open spec fn key_next(b: Seq<u8>, o: int) -> nat { vu64_val(b, key_next_pos(b, o)) * 8 }
pub open spec fn key_end_pos(b: Seq<u8>, o: int) -> int { key_next_pos(b, o) + vu64_w(b, key_next_pos(b, o)) }
/// free records: the next-free field follows the (one byte) zero length
pub open spec fn free_next(b: Seq<u8>, o: int) -> nat { le64_at(b, rec_data_pos(b, o)) }

/// the size field at `o` can be read
pub open spec fn rec_size_ok(b: Seq<u8>, o: int) -> bool {
    vu64_ok(b, o) && vu64_val(b, o) * 8 <= u32::MAX
}
/// size and length fields can be read
pub open spec fn rec_len_ok(b: Seq<u8>, o: int) -> bool {
    &&& rec_size_ok(b, o)
    &&& vu64_ok(b, rec_len_pos(b, o)) && rec_len(b, o) <= u32::MAX
}
/// a value record can be read completely at `o`
pub open spec fn val_rec_ok(b: Seq<u8>, o: int) -> bool {
    &&& rec_len_ok(b, o)
    &&& rec_data_pos(b, o) + rec_len(b, o) <= b.len()
}
/// a key record can be read completely at `o`
pub open spec fn key_rec_ok(b: Seq<u8>, o: int) -> bool {
    &&& val_rec_ok(b, o)
    &&& vu64_ok(b, key_voff_pos(b, o)) && vu64_val(b, key_voff_pos(b, o)) * 8 <= u64::MAX
    &&& vu64_ok(b, key_next_pos(b, o)) && vu64_val(b, key_next_pos(b, o)) * 8 <= u64::MAX
}
/// a free record can be read at `o`
pub open spec fn free_rec_ok(b: Seq<u8>, o: int) -> bool {
    &&& rec_len_ok(b, o)
    &&& rec_data_pos(b, o) + 8 <= b.len()
}

// ---- sequence plumbing ----------------------------------------------------------------------------
pub proof fn lemma_rd_rd(b: Seq<u8>, o: int, n: int, i: int, m: int)
    requires 0 <= o, 0 <= i, 0 <= m, i + m <= n, o + n <= b.len()
    ensures rd(rd(b, o, n), i, m) == rd(b, o + i, m)
{
    assert(rd(rd(b, o, n), i, m) =~= rd(b, o + i, m));
}

pub proof fn lemma_vu64_at_prefix(img: Seq<u8>, b: Seq<u8>, o: int, n: int, i: int, v: nat)
    requires 0 <= o, 0 <= n, o + n <= b.len(), rd(b, o, n) == img, vu64_at(img, i, v)
    ensures vu64_at(b, o + i, v)
{
    assert(rd(b, o, n).len() == n);
    lemma_rd_rd(b, o, n, i, enc_len(v) as int);
}

/// reader inverse of writer for value records (C09 round trip)
pub proof fn lemma_val_used_decodes(b: Seq<u8>, o: int, size: nat, value: Seq<u8>)
    requires val_used_at(b, o, size, value)
    ensures val_rec_ok(b, o), rec_size(b, o) == size, rec_len(b, o) == value.len(), rec_data(b, o) == value,
        vu64_w(b, o) == enc_len(size / 8), vu64_w(b, rec_len_pos(b, o)) == enc_len(value.len()),
{
    let img = val_image(size, value);
    let e1 = vu64_enc(size / 8); let e2 = vu64_enc(value.len());
    axiom_vu64(size / 8); axiom_vu64(value.len());
    let n1 = enc_len(size / 8) as int; let n2 = enc_len(value.len()) as int;
    assert(img.len() == size);
    assert(rd(img, 0, n1) =~= e1);
    assert(vu64_at(img, 0, size / 8));
    lemma_vu64_at_prefix(img, b, o, size as int, 0, size / 8);
    lemma_vu64_at(b, o, size / 8);
    assert(rd(img, n1, n2) =~= e2);
    assert(vu64_at(img, n1, value.len()));
    lemma_vu64_at_prefix(img, b, o, size as int, n1, value.len());
    lemma_vu64_at(b, o + n1, value.len());
    assert(rd(img, n1 + n2, value.len() as int) =~= value);
    lemma_rd_rd(b, o, size as int, n1 + n2, value.len() as int);
}

/// reader inverse of writer for key records
pub proof fn lemma_key_used_decodes(b: Seq<u8>, o: int, size: nat, key: Seq<u8>, voff: nat, next: nat)
    requires key_used_at(b, o, size, key, voff, next)
    ensures key_rec_ok(b, o), rec_size(b, o) == size, rec_len(b, o) == key.len(), rec_data(b, o) == key,
        key_voff(b, o) == voff, key_next(b, o) == next,
        key_end_pos(b, o) == o + key_head(size, key, voff, next).len(),
{
    let img = key_image(size, key, voff, next);
    axiom_vu64(size / 8); axiom_vu64(key.len()); axiom_vu64(voff / 8); axiom_vu64(next / 8);
    let n1 = enc_len(size / 8) as int; let n2 = enc_len(key.len()) as int; let n3 = key.len() as int;
    let n4 = enc_len(voff / 8) as int; let n5 = enc_len(next / 8) as int;
    assert(img.len() == size);
    assert(rd(img, 0, n1) =~= vu64_enc(size / 8));
    assert(vu64_at(img, 0, size / 8));
    lemma_vu64_at_prefix(img, b, o, size as int, 0, size / 8);
    lemma_vu64_at(b, o, size / 8);
    assert(rd(img, n1, n2) =~= vu64_enc(key.len()));
    assert(vu64_at(img, n1, key.len()));
    lemma_vu64_at_prefix(img, b, o, size as int, n1, key.len());
    lemma_vu64_at(b, o + n1, key.len());
    assert(rd(img, n1 + n2, n3) =~= key);
    lemma_rd_rd(b, o, size as int, n1 + n2, n3);
    assert(rd(img, n1 + n2 + n3, n4) =~= vu64_enc(voff / 8));
    assert(vu64_at(img, n1 + n2 + n3, voff / 8));
    lemma_vu64_at_prefix(img, b, o, size as int, n1 + n2 + n3, voff / 8);
    lemma_vu64_at(b, o + n1 + n2 + n3, voff / 8);
    assert(rd(img, n1 + n2 + n3 + n4, n5) =~= vu64_enc(next / 8));
    assert(vu64_at(img, n1 + n2 + n3 + n4, next / 8));
    lemma_vu64_at_prefix(img, b, o, size as int, n1 + n2 + n3 + n4, next / 8);
    lemma_vu64_at(b, o + n1 + n2 + n3 + n4, next / 8);
}

/// vu64_enc(0) is the single byte 0
pub proof fn lemma_enc0()
    ensures vu64_enc(0) == seq![0u8]
{
    axiom_vu64(0);
    assert(vu64_enc(0) =~= seq![0u8]);
}

/// reader inverse of writer for free records
pub proof fn lemma_free_decodes(b: Seq<u8>, o: int, size: nat, next: nat)
    requires free_at(b, o, size, next)
    ensures free_rec_ok(b, o), rec_size(b, o) == size, rec_len(b, o) == 0, free_next(b, o) == next,
        rec_data_pos(b, o) == o + enc_len(size / 8) + 1, rec_len_pos(b, o) == o + enc_len(size / 8),
{
    let img = free_image(size, next);
    axiom_vu64(size / 8); axiom_vu64(0); lemma_enc0();
    lemma_le_bytes_len(next, 8);
    let n1 = enc_len(size / 8) as int;
    assert(img.len() == size);
    assert(rd(img, 0, n1) =~= vu64_enc(size / 8));
    assert(vu64_at(img, 0, size / 8));
    lemma_vu64_at_prefix(img, b, o, size as int, 0, size / 8);
    lemma_vu64_at(b, o, size / 8);
    assert(rd(img, n1, 1) =~= vu64_enc(0));
    assert(vu64_at(img, n1, 0));
    lemma_vu64_at_prefix(img, b, o, size as int, n1, 0);
    lemma_vu64_at(b, o + n1, 0);
    assert(rd(img, n1 + 1, 8) =~= le_bytes(next, 8));
    lemma_rd_rd(b, o, size as int, n1 + 1, 8);
    assert(next < pow256(8)) by { reveal_with_fuel(pow256, 9); }
    lemma_le_val_bytes(next, 8);
}

/// a cleared slot still announces its size
pub proof fn lemma_cleared_decodes(b: Seq<u8>, o: int, size: nat)
    requires cleared_at(b, o, size)
    ensures rec_size_ok(b, o), rec_size(b, o) == size
{
    let img = cleared_image(size);
    axiom_vu64(size / 8);
    let n1 = enc_len(size / 8) as int;
    assert(n1 <= 5);
    assert(img.len() == size);
    assert(rd(img, 0, n1) =~= vu64_enc(size / 8));
    assert(vu64_at(img, 0, size / 8));
    lemma_vu64_at_prefix(img, b, o, size as int, 0, size / 8);
    lemma_vu64_at(b, o, size / 8);
}

// ---- frames ---------------------------------------------------------------------------------------
/// nothing outside [o, o+n) changed and the file did not shrink
pub open spec fn frame_outside(old_b: Seq<u8>, new_b: Seq<u8>, o: int, n: int) -> bool {
    &&& new_b.len() == (if old_b.len() >= o + n { old_b.len() as int } else { o + n })
    &&& forall|i: int| 0 <= i < old_b.len() && !(o <= i < o + n) ==> #[trigger] new_b[i] == old_b[i]
}
/// a byte range disjoint from the written window reads the same
pub proof fn lemma_frame_rd(old_b: Seq<u8>, new_b: Seq<u8>, o: int, n: int, p: int, m: int)
    requires frame_outside(old_b, new_b, o, n), 0 <= p, 0 <= m, p + m <= old_b.len(), p + m <= o || o + n <= p, 0 <= n
    ensures rd(new_b, p, m) == rd(old_b, p, m)
{
    assert(rd(new_b, p, m) =~= rd(old_b, p, m));
}

/// one field appended to a record under construction at `o`: `acc` is what has been written so far
pub proof fn lemma_rec_write(b0: Seq<u8>, b: Seq<u8>, o: int, acc: Seq<u8>, data: Seq<u8>)
    requires 0 <= o <= b0.len(), o + acc.len() <= b.len(), rd(b, o, acc.len() as int) == acc,
        frame_outside(b0, b, o, acc.len() as int)
    ensures
        rd(write_at(b, (o + acc.len()) as nat, data), o, (acc.len() + data.len()) as int) == acc + data,
        frame_outside(b0, write_at(b, (o + acc.len()) as nat, data), o, (acc.len() + data.len()) as int),
{
    let b2 = write_at(b, (o + acc.len()) as nat, data);
    assert(rd(b2, o, (acc.len() + data.len()) as int) =~= acc + data) by {
        assert forall|i: int| 0 <= i < acc.len() + data.len() implies rd(b2, o, (acc.len() + data.len()) as int)[i] == (acc + data)[i] by {
            if i < acc.len() { assert(b2[o + i] == b[o + i]); assert(rd(b, o, acc.len() as int)[i] == b[o + i]); }
        }
    }
}

// ---- C09: the slot arithmetic ---------------------------------------------------------------------
/// the 16 size classes of key.rs / val.rs (REC_SIZE_ARY)
pub open spec fn is_class(s: nat) -> bool {
    s == 16 || s == 24 || s == 32 || s == 48 || s == 64 || s == 80 || s == 96 || s == 112
    || s == 128 || s == 256 || s == 384 || s == 512 || s == 640 || s == 768 || s == 896 || s == 1024
}
/// a legal slot size: a class, or a multiple of 128 above the last class
pub open spec fn is_slot_size(s: nat) -> bool {
    is_class(s) || (s > 1024 && s % 128 == 0)
}
/// what `PieceMgr::roundup` returns for the real size table (proved on the real function by Kani, unit U3)
pub open spec fn roundup_spec(x: nat) -> nat {
    if x <= 16 { 16 } else if x <= 24 { 24 } else if x <= 32 { 32 } else if x <= 48 { 48 } else if x <= 64 { 64 }
    else if x <= 80 { 80 } else if x <= 96 { 96 } else if x <= 112 { 112 } else if x <= 128 { 128 } else if x <= 256 { 256 }
    else if x <= 384 { 384 } else if x <= 512 { 512 } else if x <= 640 { 640 } else if x <= 768 { 768 } else if x <= 896 { 896 }
    else { ((x + 128) / 128) * 128 }
}

/// C09 core: a record whose estimate is `e + p` fits every slot at least as large as roundup(e + p)
pub proof fn lemma_fits(p: nat, size: nat)
    requires
        p + 7 <= u32::MAX,
        size % 8 == 0,
        size >= roundup_spec(enc_len((p + 7) / 8) + p),
        size <= u32::MAX,
    ensures enc_len(size / 8) + p <= size
{
    let e = enc_len((p + 7) / 8);
    let r = roundup_spec(e + p);
    if size == r {
        if e + p <= 896 { lemma_fits_small(p); } else { lemma_fits_large(p); }
    } else {
        lemma_roundup_basic(e + p);
        assert(size >= r + 8);
        assert(size / 8 <= 0x1fff_ffff);
        assert(enc_len(size / 8) <= 5);
    }
}
pub proof fn lemma_roundup_basic(x: nat)
    requires 1 <= x <= 0xffff_ffff
    ensures roundup_spec(x) >= x, roundup_spec(x) % 8 == 0, x > 896 ==> x < roundup_spec(x) <= x + 128
{}
proof fn lemma_fits_small(p: nat)
    requires enc_len((p + 7) / 8) + p <= 896
    ensures enc_len(roundup_spec(enc_len((p + 7) / 8) + p) / 8) + p <= roundup_spec(enc_len((p + 7) / 8) + p)
{
    let e = enc_len((p + 7) / 8);
    let r = roundup_spec(e + p);
    assert((p + 7) / 8 <= 0x7F);
    assert(e == 1);
    assert(r <= 896 && r >= e + p);
    assert(r / 8 <= 112);
    assert(enc_len(r / 8) == 1);
}
proof fn lemma_fits_large(p: nat)
    requires enc_len((p + 7) / 8) + p > 896, p + 7 <= u32::MAX
    ensures enc_len(roundup_spec(enc_len((p + 7) / 8) + p) / 8) + p <= roundup_spec(enc_len((p + 7) / 8) + p)
{
    let e = enc_len((p + 7) / 8);
    let x = e + p;
    let r = roundup_spec(x);
    assert(r == ((x + 128) / 128) * 128);
    assert(x < r && r <= x + 128);
    // r/8 is at most (p+7)/8 + 17: its encoding is at most one byte longer
    let a = (p + 7) / 8;
    assert(r / 8 <= a + 17);
    lemma_enc_len_step(a, r / 8);
    assert(enc_len(r / 8) <= e + 1);
}
/// the width thresholds are 128 apart by factors of 128: adding 17 crosses at most one of them
proof fn lemma_enc_len_step(a: nat, c: nat)
    requires c <= a + 17, a <= 0x2000_0000
    ensures enc_len(c) <= enc_len(a) + 1
{}

} // verus!
