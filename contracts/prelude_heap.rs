// ================================================================================================
// prelude_heap.rs — slot heap of a key / value file: ghost witness, well-formedness, and the lemmas
// that lift the byte-level facts proved inside the real functions to heap-level facts.
// SPEC / PROOF only. Sources: piece.rs (free lists), key.rs / val.rs (records, headers).
// Every component predicate is opaque and has its own small lemmas: the queries stay small and stable.
// ================================================================================================
verus! {

pub enum SlotC {
    Val(Seq<u8>),
    Key(Seq<u8>, nat, nat),
    Free(nat),
    /// popped from a free list and not yet rewritten (transient inside write_piece)
    Cleared,
}
pub struct SlotW { pub size: nat, pub c: SlotC }
/// ghost witness of a heap: slot table keyed by offset, and the 16 free lists (offsets, head first)
pub struct HeapW { pub slots: Map<nat, SlotW>, pub lists: Seq<Seq<nat>> }

#[verifier::opaque]
pub open spec fn slot_ok(b: Seq<u8>, o: nat, s: SlotW) -> bool {
    &&& is_slot_size(s.size) && s.size <= u32::MAX
    &&& o >= 192 && o + s.size <= b.len()
    &&& match s.c {
        SlotC::Val(v) => val_used_at(b, o as int, s.size, v),
        SlotC::Key(k, vo, nx) => key_used_at(b, o as int, s.size, k, vo, nx),
        SlotC::Free(nx) => free_at(b, o as int, s.size, nx),
        SlotC::Cleared => cleared_at(b, o as int, s.size),
    }
}
pub open spec fn slots_ok(b: Seq<u8>, m: Map<nat, SlotW>) -> bool {
    forall|o: nat| #[trigger] m.dom().contains(o) ==> slot_ok(b, o, m[o])
}
/// slots tile [192, len) without gaps or overlaps
#[verifier::opaque]
pub open spec fn tiling(len: nat, m: Map<nat, SlotW>) -> bool {
    &&& len >= 192
    &&& (len > 192 ==> m.dom().contains(192))
    &&& forall|o: nat| #[trigger] m.dom().contains(o) ==> o >= 192 && m[o].size > 0 && o + m[o].size <= len && (o + m[o].size == len || m.dom().contains(o + m[o].size))
    &&& forall|o1: nat, o2: nat| #[trigger] m.dom().contains(o1) && #[trigger] m.dom().contains(o2) && o1 < o2 ==> o1 + m[o1].size <= o2
}
/// `l` without its k-th element
pub open spec fn rm(l: Seq<nat>, k: int) -> Seq<nat> { Seq::new((l.len() - 1) as nat, |i: int| if i < k { l[i] } else { l[i + 1] }) }
pub open spec fn nxt(l: Seq<nat>, i: int) -> nat { if i + 1 < l.len() { l[i + 1] } else { 0 } }
pub open spec fn first(l: Seq<nat>) -> nat { if l.len() > 0 { l[0] } else { 0 } }
#[verifier::opaque]
pub open spec fn list_ok(slots: Map<nat, SlotW>, l: Seq<nat>, c: int) -> bool {
    &&& forall|i: int| 0 <= i < l.len() ==> {
            &&& #[trigger] slots.dom().contains(l[i])
            &&& l[i] != 0
            &&& class_idx(slots[l[i]].size) == c
            &&& slots[l[i]].c == SlotC::Free(nxt(l, i))
        }
    &&& forall|i: int, j: int| 0 <= i < j < l.len() ==> l[i] != l[j]
}
pub open spec fn head_at(pm: PieceMgr, b: Seq<u8>, c: int) -> nat { le64_at(b, pm.free_list_offset@[0] as int + 8 * c) }
pub open spec fn lists_ok(b: Seq<u8>, pm: PieceMgr, w: HeapW) -> bool {
    &&& w.lists.len() == 16
    &&& forall|c: int| 0 <= c < 16 ==> #[trigger] list_ok(w.slots, w.lists[c], c) && head_at(pm, b, c) == first(w.lists[c])
}
/// every free slot is a member of the list of its class
#[verifier::opaque]
pub open spec fn free_members(w: HeapW) -> bool {
    forall|o: nat| #[trigger] w.slots.dom().contains(o) && w.slots[o].c is Free ==> w.lists[class_idx(w.slots[o].size)].contains(o)
}

pub open spec fn heap_ok(b: Seq<u8>, pm: PieceMgr, w: HeapW) -> bool {
    &&& mgr_ok(pm)
    &&& b.len() <= 0x3fff_ffff_ffff_ffff
    &&& tiling(b.len(), w.slots)
    &&& slots_ok(b, w.slots)
    &&& lists_ok(b, pm, w)
    &&& free_members(w)
}
/// no slot is in the transient state (holds between public operations)
pub open spec fn heap_settled(w: HeapW) -> bool {
    forall|o: nat| #[trigger] w.slots.dom().contains(o) ==> !(w.slots[o].c is Cleared)
}

/// byte-level effect of an operation that rewrites one slot and at most one header field
pub open spec fn frame2(b0: Seq<u8>, b1: Seq<u8>, o: int, n: int, h: int) -> bool {
    &&& b1.len() == b0.len()
    &&& forall|i: int| 0 <= i < b0.len() && !(o <= i < o + n) && !(h <= i < h + 8) ==> #[trigger] b1[i] == b0[i]
}

pub proof fn lemma_rd_same(b0: Seq<u8>, b1: Seq<u8>, p: int, m: int)
    requires 0 <= p, 0 <= m, p + m <= b0.len(), p + m <= b1.len(), forall|i: int| p <= i < p + m ==> #[trigger] b1[i] == b0[i]
    ensures rd(b1, p, m) == rd(b0, p, m)
{
    assert(rd(b1, p, m) =~= rd(b0, p, m));
}

// ---- slot_ok intro / elim / frame ---------------------------------------------------------------------
pub proof fn lemma_slot_frame(b0: Seq<u8>, b1: Seq<u8>, o: nat, s: SlotW)
    requires slot_ok(b0, o, s), o + s.size <= b1.len(), rd(b1, o as int, s.size as int) == rd(b0, o as int, s.size as int)
    ensures slot_ok(b1, o, s)
{
    reveal(slot_ok);
}
pub proof fn lemma_slot_bounds(b: Seq<u8>, o: nat, s: SlotW)
    requires slot_ok(b, o, s)
    ensures is_slot_size(s.size), s.size <= u32::MAX, s.size >= 16, s.size % 8 == 0, o >= 192, o + s.size <= b.len(), 0 <= class_idx(s.size) < 16
{
    reveal(slot_ok);
}
pub proof fn lemma_slot_intro(b: Seq<u8>, o: nat, s: SlotW)
    requires is_slot_size(s.size), s.size <= u32::MAX, o >= 192, o + s.size <= b.len(),
        match s.c {
            SlotC::Val(v) => val_used_at(b, o as int, s.size, v),
            SlotC::Key(k, vo, nx) => key_used_at(b, o as int, s.size, k, vo, nx),
            SlotC::Free(nx) => free_at(b, o as int, s.size, nx),
            SlotC::Cleared => cleared_at(b, o as int, s.size),
        }
    ensures slot_ok(b, o, s)
{
    reveal(slot_ok);
}
pub proof fn lemma_slot_elim(b: Seq<u8>, o: nat, s: SlotW)
    requires slot_ok(b, o, s)
    ensures
        match s.c {
            SlotC::Val(v) => val_used_at(b, o as int, s.size, v),
            SlotC::Key(k, vo, nx) => key_used_at(b, o as int, s.size, k, vo, nx),
            SlotC::Free(nx) => free_at(b, o as int, s.size, nx),
            SlotC::Cleared => cleared_at(b, o as int, s.size),
        }
{
    reveal(slot_ok);
}

// ---- tiling -----------------------------------------------------------------------------------------------
pub proof fn lemma_tiling_disjoint(len: nat, m: Map<nat, SlotW>, o1: nat, o2: nat)
    requires tiling(len, m), m.dom().contains(o1), m.dom().contains(o2), o1 != o2
    ensures o1 + m[o1].size <= o2 || o2 + m[o2].size <= o1, o1 >= 192, o2 >= 192
{
    reveal(tiling);
}
/// changing the content (not the size) of slots keeps the tiling
pub proof fn lemma_tiling_same_sizes(len: nat, m: Map<nat, SlotW>, m1: Map<nat, SlotW>)
    requires tiling(len, m), m1.dom() == m.dom(), forall|o: nat| m.dom().contains(o) ==> #[trigger] m1[o].size == m[o].size
    ensures tiling(len, m1)
{
    reveal(tiling);
}
/// a new slot appended at the end of the file extends the tiling
pub proof fn lemma_tiling_append(len: nat, m: Map<nat, SlotW>, s: SlotW)
    requires tiling(len, m), s.size > 0
    ensures tiling(len + s.size, m.insert(len, s)), !m.dom().contains(len)
{
    reveal(tiling);
    let m1 = m.insert(len, s);
    if m.dom().contains(len) { assert(len + m[len].size <= len); }
    assert forall|o: nat| #[trigger] m1.dom().contains(o) implies o >= 192 && m1[o].size > 0 && o + m1[o].size <= len + s.size && (o + m1[o].size == len + s.size || m1.dom().contains(o + m1[o].size)) by {
        if o != len { assert(m.dom().contains(o)); }
    }
    assert forall|o1: nat, o2: nat| #[trigger] m1.dom().contains(o1) && #[trigger] m1.dom().contains(o2) && o1 < o2 implies o1 + m1[o1].size <= o2 by {
        if o1 != len && o2 != len { assert(m.dom().contains(o1) && m.dom().contains(o2)); }
        else if o2 == len { assert(m.dom().contains(o1)); }
        else { assert(m.dom().contains(o2)); }
    }
}

// ---- lists ---------------------------------------------------------------------------------------------------
pub proof fn lemma_list_member(slots: Map<nat, SlotW>, l: Seq<nat>, c: int, i: int)
    requires list_ok(slots, l, c), 0 <= i < l.len()
    ensures l[i] != 0, slots.dom().contains(l[i]), class_idx(slots[l[i]].size) == c, slots[l[i]].c == SlotC::Free(nxt(l, i)),
        forall|j: int| 0 <= j < l.len() && j != i ==> l[j] != l[i]
{
    reveal(list_ok);
    assert(slots.dom().contains(l[i]));
    assert forall|j: int| 0 <= j < l.len() && j != i implies l[j] != l[i] by {
        if j < i { assert(l[j] != l[i]); } else { assert(l[i] != l[j]); }
    }
}
/// the list invariant survives a change of slots that are not members of the list
pub proof fn lemma_list_untouched(slots: Map<nat, SlotW>, slots1: Map<nat, SlotW>, l: Seq<nat>, c: int)
    requires list_ok(slots, l, c),
        forall|i: int| 0 <= i < l.len() ==> #[trigger] slots1.dom().contains(l[i]) && slots1[l[i]] == slots[l[i]],
    ensures list_ok(slots1, l, c)
{
    reveal(list_ok);
    assert forall|i: int| 0 <= i < l.len() implies {
        &&& #[trigger] slots1.dom().contains(l[i])
        &&& l[i] != 0
        &&& class_idx(slots1[l[i]].size) == c
        &&& slots1[l[i]].c == SlotC::Free(nxt(l, i))
    } by {
        assert(slots.dom().contains(l[i]));
    }
}
/// members of a free list are Free slots of that class; any other slot is on no such list
pub proof fn lemma_not_member(slots: Map<nat, SlotW>, l: Seq<nat>, c: int, o: nat)
    requires list_ok(slots, l, c), slots.dom().contains(o), !(slots[o].c is Free) || class_idx(slots[o].size) != c
    ensures !l.contains(o)
{
    reveal(list_ok);
    if l.contains(o) {
        let i = choose|i: int| 0 <= i < l.len() && l[i] == o;
        assert(slots.dom().contains(l[i]));
    }
}
pub proof fn lemma_list_push(slots: Map<nat, SlotW>, l: Seq<nat>, c: int, o: nat)
    requires list_ok(slots, l, c), slots.dom().contains(o), !(slots[o].c is Free), class_idx(slots[o].size) == c, o != 0
    ensures list_ok(slots.insert(o, SlotW { size: slots[o].size, c: SlotC::Free(first(l)) }), seq![o] + l, c)
{
    reveal(list_ok);
    let slots1 = slots.insert(o, SlotW { size: slots[o].size, c: SlotC::Free(first(l)) });
    let l2 = seq![o] + l;
    assert forall|i: int| 0 <= i < l2.len() implies {
        &&& #[trigger] slots1.dom().contains(l2[i])
        &&& l2[i] != 0
        &&& class_idx(slots1[l2[i]].size) == c
        &&& slots1[l2[i]].c == SlotC::Free(nxt(l2, i))
    } by {
        if i > 0 {
            assert(l2[i] == l[i - 1]);
            assert(slots.dom().contains(l[i - 1]));
            assert(l[i - 1] != o);
            assert(nxt(l2, i) == nxt(l, i - 1));
        } else {
            assert(nxt(l2, 0) == first(l));
        }
    }
    assert forall|i: int, j: int| 0 <= i < j < l2.len() implies l2[i] != l2[j] by {
        assert(l2[j] == l[j - 1]);
        assert(slots.dom().contains(l[j - 1]));
        if i > 0 { assert(l2[i] == l[i - 1]); }
    }
}
/// unlink member k: predecessor (if any) points past it, the member itself leaves the list
pub proof fn lemma_list_unlink(slots: Map<nat, SlotW>, l: Seq<nat>, c: int, k: int, newc: SlotC)
    requires list_ok(slots, l, c), 0 <= k < l.len(), !(newc is Free)
    ensures ({
        let o = l[k];
        let slots1 = slots.insert(o, SlotW { size: slots[o].size, c: newc });
        let slots2 = if k > 0 { slots1.insert(l[k - 1], SlotW { size: slots[l[k - 1]].size, c: SlotC::Free(nxt(l, k)) }) } else { slots1 };
        list_ok(slots2, rm(l, k), c) && first(rm(l, k)) == (if k == 0 { nxt(l, 0) } else { l[0] })
    })
{
    reveal(list_ok);
    let o = l[k];
    let slots1 = slots.insert(o, SlotW { size: slots[o].size, c: newc });
    let slots2 = if k > 0 { slots1.insert(l[k - 1], SlotW { size: slots[l[k - 1]].size, c: SlotC::Free(nxt(l, k)) }) } else { slots1 };
    let l2 = rm(l, k);
    assert forall|i: int| 0 <= i < l2.len() implies {
        &&& #[trigger] slots2.dom().contains(l2[i])
        &&& l2[i] != 0
        &&& class_idx(slots2[l2[i]].size) == c
        &&& slots2[l2[i]].c == SlotC::Free(nxt(l2, i))
    } by {
        let i0 = if i < k { i } else { i + 1 };
        assert(l2[i] == l[i0]);
        if i + 1 < l2.len() { assert(l2[i + 1] == l[(if i + 1 < k { i + 1 } else { i + 2 })]); }
        assert(slots.dom().contains(l[i0]));
        assert(l[i0] != o);
        if k > 0 { assert(slots.dom().contains(l[k - 1])); }
        if i0 == k - 1 {
            assert(nxt(l2, i) == nxt(l, k));
        } else {
            if k > 0 { assert(l[i0] != l[k - 1]); }
            assert(nxt(l2, i) == nxt(l, i0));
        }
    }
    assert forall|i: int, j: int| 0 <= i < j < l2.len() implies l2[i] != l2[j] by {
        let i0 = if i < k { i } else { i + 1 };
        let j0 = if j < k { j } else { j + 1 };
        assert(l2[i] == l[i0] && l2[j] == l[j0]);
    }
    assert(l2.len() == l.len() - 1);
    if k == 0 { if l2.len() > 0 { assert(l2[0] == l[1]); } } else { assert(l2[0] == l[0]); }
    assert(list_ok(slots2, l2, c));
}

// ---- free_members -------------------------------------------------------------------------------------------
pub proof fn lemma_free_member_get(w: HeapW, o: nat)
    requires free_members(w), w.slots.dom().contains(o), w.slots[o].c is Free
    ensures w.lists[class_idx(w.slots[o].size)].contains(o)
{
    reveal(free_members);
}

// ---- witness updates -------------------------------------------------------------------------------------------
pub open spec fn w_set(w: HeapW, o: nat, s: SlotW) -> HeapW { HeapW { slots: w.slots.insert(o, s), lists: w.lists } }
pub open spec fn w_push(w: HeapW, o: nat) -> HeapW {
    let c = class_idx(w.slots[o].size);
    HeapW {
        slots: w.slots.insert(o, SlotW { size: w.slots[o].size, c: SlotC::Free(first(w.lists[c])) }),
        lists: w.lists.update(c, seq![o] + w.lists[c]),
    }
}
/// remove member k of list c; the slot becomes Cleared; its predecessor (if any) now points past it
pub open spec fn w_unlink(w: HeapW, c: int, k: int) -> HeapW {
    let l = w.lists[c];
    let o = l[k];
    let slots1 = w.slots.insert(o, SlotW { size: w.slots[o].size, c: SlotC::Cleared });
    let slots2 = if k > 0 { slots1.insert(l[k - 1], SlotW { size: w.slots[l[k - 1]].size, c: SlotC::Free(nxt(l, k)) }) } else { slots1 };
    HeapW { slots: slots2, lists: w.lists.update(c, rm(l, k)) }
}

} // verus!
