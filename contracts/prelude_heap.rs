// ================================================================================================
// prelude_heap.rs — slot heap of a key / value file: ghost witness, well-formedness, and the lemmas
// that lift the byte-level facts proved inside the real functions to heap-level facts.
// SPEC / PROOF only. Sources: piece.rs (free lists), key.rs / val.rs (records, headers).
// Every component predicate is opaque and has its own small lemmas: the queries stay small and stable.
// ================================================================================================
verus! {

pub enum SlotC {
    Val(Seq<u8>),
    Key(Seq<u8>, nat, nat),
    Free(nat),
    /// popped from a free list and not yet rewritten (transient inside write_piece)
    Cleared,
}
pub struct SlotW { pub size: nat, pub c: SlotC }
/// ghost witness of a heap: slot table keyed by offset, and the 16 free lists (offsets, head first)
pub struct HeapW { pub slots: Map<nat, SlotW>, pub lists: Seq<Seq<nat>> }

#[verifier::opaque]
pub open spec fn slot_ok(b: Seq<u8>, o: nat, s: SlotW) -> bool {
    &&& is_slot_size(s.size) && s.size <= u32::MAX
    &&& o >= 192 && o + s.size <= b.len() && o % 8 == 0
    &&& match s.c {
        SlotC::Val(v) => val_used_at(b, o as int, s.size, v),
        SlotC::Key(k, vo, nx) => key_used_at(b, o as int, s.size, k, vo, nx),
        SlotC::Free(nx) => free_at(b, o as int, s.size, nx),
        SlotC::Cleared => cleared_at(b, o as int, s.size),
    }
}
pub open spec fn slots_ok(b: Seq<u8>, m: Map<nat, SlotW>) -> bool {
    forall|o: nat| #[trigger] m.dom().contains(o) ==> slot_ok(b, o, m[o])
}
/// slots tile [192, len) without gaps or overlaps
#[verifier::opaque]
pub open spec fn tiling(len: nat, m: Map<nat, SlotW>) -> bool {
    &&& len >= 192
    &&& (len > 192 ==> m.dom().contains(192))
    &&& forall|o: nat| #[trigger] m.dom().contains(o) ==> o >= 192 && m[o].size > 0 && o + m[o].size <= len && (o + m[o].size == len || m.dom().contains(o + m[o].size))
    &&& forall|o1: nat, o2: nat| #[trigger] m.dom().contains(o1) && #[trigger] m.dom().contains(o2) && o1 < o2 ==> o1 + m[o1].size <= o2
}
/// `l` without its k-th element
pub open spec fn rm(l: Seq<nat>, k: int) -> Seq<nat> { Seq::new((l.len() - 1) as nat, |i: int| if i < k { l[i] } else { l[i + 1] }) }
pub open spec fn nxt(l: Seq<nat>, i: int) -> nat { if i + 1 < l.len() { l[i + 1] } else { 0 } }
pub open spec fn first(l: Seq<nat>) -> nat { if l.len() > 0 { l[0] } else { 0 } }
/// (each quantifier lives in its own named predicate: folding an opaque predicate whose body nests several quantifiers was
/// unstable — all sub-assertions proved, the whole did not; see DESIGN 11.6)
pub open spec fn list_member_ok(slots: Map<nat, SlotW>, l: Seq<nat>, c: int, i: int) -> bool {
    &&& slots.dom().contains(l[i])
    &&& l[i] != 0
    &&& class_idx(slots[l[i]].size) == c
    &&& slots[l[i]].c == SlotC::Free(nxt(l, i))
}
/// the trigger is the whole per-member predicate: a goal of this shape is matched at once by a fact of this shape
pub open spec fn list_members_ok(slots: Map<nat, SlotW>, l: Seq<nat>, c: int) -> bool {
    forall|i: int| 0 <= i < l.len() ==> #[trigger] list_member_ok(slots, l, c, i)
}
pub open spec fn list_distinct(l: Seq<nat>) -> bool {
    forall|i: int, j: int| 0 <= i < j < l.len() ==> l[i] != l[j]
}
#[verifier::opaque]
pub open spec fn list_ok(slots: Map<nat, SlotW>, l: Seq<nat>, c: int) -> bool {
    &&& list_members_ok(slots, l, c)
    &&& list_distinct(l)
}
pub open spec fn head_at(pm: PieceMgr, b: Seq<u8>, c: int) -> nat { le64_at(b, pm.free_list_offset@[0] as int + 8 * c) }
pub open spec fn lists_ok(b: Seq<u8>, pm: PieceMgr, w: HeapW) -> bool {
    &&& w.lists.len() == 16
    &&& forall|c: int| 0 <= c < 16 ==> #[trigger] list_ok(w.slots, w.lists[c], c)
    &&& forall|c: int| 0 <= c < 16 ==> #[trigger] head_at(pm, b, c) == first(w.lists[c])
}
/// every free slot is a member of the list of its class
#[verifier::opaque]
pub open spec fn free_members(w: HeapW) -> bool {
    forall|o: nat| #[trigger] w.slots.dom().contains(o) && w.slots[o].c is Free ==> w.lists[class_idx(w.slots[o].size)].contains(o)
}

pub open spec fn heap_ok(b: Seq<u8>, pm: PieceMgr, w: HeapW) -> bool {
    &&& mgr_ok(pm)
    &&& b.len() <= 0x3fff_ffff_ffff_ffff && b.len() % 8 == 0
    &&& tiling(b.len(), w.slots)
    &&& slots_ok(b, w.slots)
    &&& lists_ok(b, pm, w)
    &&& free_members(w)
}
/// no slot is in the transient state (holds between public operations)
pub open spec fn heap_settled(w: HeapW) -> bool {
    forall|o: nat| #[trigger] w.slots.dom().contains(o) ==> !(w.slots[o].c is Cleared)
}

/// byte-level effect of an operation that rewrites one slot and at most one header field
pub open spec fn frame2(b0: Seq<u8>, b1: Seq<u8>, o: int, n: int, h: int) -> bool {
    &&& b1.len() == b0.len()
    &&& forall|i: int| 0 <= i < b0.len() && !(o <= i < o + n) && !(h <= i < h + 8) ==> #[trigger] b1[i] == b0[i]
}

pub proof fn lemma_rd_same(b0: Seq<u8>, b1: Seq<u8>, p: int, m: int)
    requires 0 <= p, 0 <= m, p + m <= b0.len(), p + m <= b1.len(), forall|i: int| p <= i < p + m ==> #[trigger] b1[i] == b0[i]
    ensures rd(b1, p, m) == rd(b0, p, m)
{
    assert(rd(b1, p, m) =~= rd(b0, p, m));
}

// ---- slot_ok intro / elim / frame ---------------------------------------------------------------------
pub proof fn lemma_slot_frame(b0: Seq<u8>, b1: Seq<u8>, o: nat, s: SlotW)
    requires slot_ok(b0, o, s), o + s.size <= b1.len(), rd(b1, o as int, s.size as int) == rd(b0, o as int, s.size as int)
    ensures slot_ok(b1, o, s)
{
    reveal(slot_ok);
}
pub proof fn lemma_slot_bounds(b: Seq<u8>, o: nat, s: SlotW)
    requires slot_ok(b, o, s)
    ensures is_slot_size(s.size), s.size <= u32::MAX, s.size >= 16, s.size % 8 == 0, o >= 192, o + s.size <= b.len(), 0 <= class_idx(s.size) < 16, o % 8 == 0
{
    reveal(slot_ok);
}
pub proof fn lemma_slot_intro(b: Seq<u8>, o: nat, s: SlotW)
    requires is_slot_size(s.size), s.size <= u32::MAX, o >= 192, o + s.size <= b.len(), o % 8 == 0,
        match s.c {
            SlotC::Val(v) => val_used_at(b, o as int, s.size, v),
            SlotC::Key(k, vo, nx) => key_used_at(b, o as int, s.size, k, vo, nx),
            SlotC::Free(nx) => free_at(b, o as int, s.size, nx),
            SlotC::Cleared => cleared_at(b, o as int, s.size),
        }
    ensures slot_ok(b, o, s)
{
    reveal(slot_ok);
}
pub proof fn lemma_slot_elim(b: Seq<u8>, o: nat, s: SlotW)
    requires slot_ok(b, o, s)
    ensures
        match s.c {
            SlotC::Val(v) => val_used_at(b, o as int, s.size, v),
            SlotC::Key(k, vo, nx) => key_used_at(b, o as int, s.size, k, vo, nx),
            SlotC::Free(nx) => free_at(b, o as int, s.size, nx),
            SlotC::Cleared => cleared_at(b, o as int, s.size),
        }
{
    reveal(slot_ok);
}

// ---- tiling -----------------------------------------------------------------------------------------------
pub proof fn lemma_tiling_disjoint(len: nat, m: Map<nat, SlotW>, o1: nat, o2: nat)
    requires tiling(len, m), m.dom().contains(o1), m.dom().contains(o2), o1 != o2
    ensures o1 + m[o1].size <= o2 || o2 + m[o2].size <= o1, o1 >= 192, o2 >= 192
{
    reveal(tiling);
}
pub proof fn lemma_tiling_len(len: nat, m: Map<nat, SlotW>)
    requires tiling(len, m)
    ensures len >= 192
{
    reveal(tiling);
}
/// changing the content (not the size) of slots keeps the tiling
pub proof fn lemma_tiling_same_sizes(len: nat, m: Map<nat, SlotW>, m1: Map<nat, SlotW>)
    requires tiling(len, m), m1.dom() == m.dom(), forall|o: nat| m.dom().contains(o) ==> #[trigger] m1[o].size == m[o].size
    ensures tiling(len, m1)
{
    reveal(tiling);
}
/// a new slot appended at the end of the file extends the tiling
pub proof fn lemma_tiling_append(len: nat, m: Map<nat, SlotW>, s: SlotW)
    requires tiling(len, m), s.size > 0
    ensures tiling(len + s.size, m.insert(len, s)), !m.dom().contains(len)
{
    reveal(tiling);
    let m1 = m.insert(len, s);
    if m.dom().contains(len) { assert(len + m[len].size <= len); }
    assert forall|o: nat| #[trigger] m1.dom().contains(o) implies o >= 192 && m1[o].size > 0 && o + m1[o].size <= len + s.size && (o + m1[o].size == len + s.size || m1.dom().contains(o + m1[o].size)) by {
        if o != len { assert(m.dom().contains(o)); }
    }
    assert forall|o1: nat, o2: nat| #[trigger] m1.dom().contains(o1) && #[trigger] m1.dom().contains(o2) && o1 < o2 implies o1 + m1[o1].size <= o2 by {
        if o1 != len && o2 != len { assert(m.dom().contains(o1) && m.dom().contains(o2)); }
        else if o2 == len { assert(m.dom().contains(o1)); }
        else { assert(m.dom().contains(o2)); }
    }
}

// ---- lists ---------------------------------------------------------------------------------------------------
pub proof fn lemma_list_member(slots: Map<nat, SlotW>, l: Seq<nat>, c: int, i: int)
    requires list_ok(slots, l, c), 0 <= i < l.len()
    ensures l[i] != 0, slots.dom().contains(l[i]), class_idx(slots[l[i]].size) == c, slots[l[i]].c == SlotC::Free(nxt(l, i)),
        forall|j: int| 0 <= j < l.len() && j != i ==> l[j] != l[i]
{
    reveal(list_ok);
    assert(list_member_ok(slots, l, c, i));
    assert forall|j: int| 0 <= j < l.len() && j != i implies l[j] != l[i] by {
        if j < i { assert(l[j] != l[i]); } else { assert(l[i] != l[j]); }
    }
}
/// the list invariant survives a change of slots that are not members of the list
pub proof fn lemma_list_untouched(slots: Map<nat, SlotW>, slots1: Map<nat, SlotW>, l: Seq<nat>, c: int)
    requires list_ok(slots, l, c),
        forall|i: int| #![trigger slots1.dom().contains(l[i])] 0 <= i < l.len() ==> slots1.dom().contains(l[i]) && slots1[l[i]] == slots[l[i]],
    ensures list_ok(slots1, l, c)
{
    // pattern used for every "re-establish an opaque predicate" lemma: facts come from the member lemma (no global reveal), the
    // conjuncts are proved one by one, the predicate is folded at the end. (Re-folding under a global reveal was flaky across z3 seeds.)
    assert forall|i: int| 0 <= i < l.len() implies #[trigger] list_member_ok(slots1, l, c, i) by {
        lemma_list_member(slots, l, c, i);
        assert(slots1.dom().contains(l[i]));
        assert(slots1[l[i]] == slots[l[i]]);
    }
    assert forall|i: int, j: int| 0 <= i < j < l.len() implies l[i] != l[j] by {
        lemma_list_member(slots, l, c, i);
    }
    assert(list_members_ok(slots1, l, c));
    assert(list_distinct(l));
    assert(list_ok(slots1, l, c)) by { reveal(list_ok); }
}
/// members of a free list are Free slots of that class; any other slot is on no such list
pub proof fn lemma_not_member(slots: Map<nat, SlotW>, l: Seq<nat>, c: int, o: nat)
    requires list_ok(slots, l, c), slots.dom().contains(o), !(slots[o].c is Free) || class_idx(slots[o].size) != c
    ensures !l.contains(o)
{
    if l.contains(o) {
        let i = choose|i: int| 0 <= i < l.len() && l[i] == o;
        lemma_list_member(slots, l, c, i);
    }
}
pub proof fn lemma_list_push(slots: Map<nat, SlotW>, l: Seq<nat>, c: int, o: nat)
    requires list_ok(slots, l, c), slots.dom().contains(o), !(slots[o].c is Free), class_idx(slots[o].size) == c, o != 0
    ensures list_ok(slots.insert(o, SlotW { size: slots[o].size, c: SlotC::Free(first(l)) }), seq![o] + l, c)
{
    let slots1 = slots.insert(o, SlotW { size: slots[o].size, c: SlotC::Free(first(l)) });
    let l2 = seq![o] + l;
    assert forall|i: int| 0 <= i < l2.len() implies #[trigger] list_member_ok(slots1, l2, c, i) by {
        if i > 0 {
            assert(l2[i] == l[i - 1]);
            lemma_list_member(slots, l, c, i - 1);
            assert(l[i - 1] != o);
            assert(nxt(l2, i) == nxt(l, i - 1));
        } else {
            assert(nxt(l2, 0) == first(l));
        }
    }
    assert forall|i: int, j: int| 0 <= i < j < l2.len() implies l2[i] != l2[j] by {
        assert(l2[j] == l[j - 1]);
        lemma_list_member(slots, l, c, j - 1);
        if i > 0 { assert(l2[i] == l[i - 1]); }
    }
    assert(list_members_ok(slots1, l2, c));
    assert(list_distinct(l2));
    assert(list_ok(slots1, l2, c)) by { reveal(list_ok); }
}
/// unlink member k: predecessor (if any) points past it, the member itself leaves the list
pub proof fn lemma_list_unlink(slots: Map<nat, SlotW>, l: Seq<nat>, c: int, k: int, newc: SlotC)
    requires list_ok(slots, l, c), 0 <= k < l.len(), !(newc is Free)
    ensures ({
        let o = l[k];
        let slots1 = slots.insert(o, SlotW { size: slots[o].size, c: newc });
        let slots2 = if k > 0 { slots1.insert(l[k - 1], SlotW { size: slots[l[k - 1]].size, c: SlotC::Free(nxt(l, k)) }) } else { slots1 };
        list_ok(slots2, rm(l, k), c) && first(rm(l, k)) == (if k == 0 { nxt(l, 0) } else { l[0] })
    })
{
    let o = l[k];
    let slots1 = slots.insert(o, SlotW { size: slots[o].size, c: newc });
    let slots2 = if k > 0 { slots1.insert(l[k - 1], SlotW { size: slots[l[k - 1]].size, c: SlotC::Free(nxt(l, k)) }) } else { slots1 };
    let l2 = rm(l, k);
    lemma_list_member(slots, l, c, k);
    if k > 0 { lemma_list_member(slots, l, c, k - 1); }
    assert forall|i: int| 0 <= i < l2.len() implies #[trigger] list_member_ok(slots2, l2, c, i) by {
        let i0 = if i < k { i } else { i + 1 };
        assert(l2[i] == l[i0]);
        if i + 1 < l2.len() { assert(l2[i + 1] == l[(if i + 1 < k { i + 1 } else { i + 2 })]); }
        lemma_list_member(slots, l, c, i0);
        assert(l[i0] != o);
        if i0 == k - 1 {
            assert(nxt(l2, i) == nxt(l, k));
        } else {
            if k > 0 { assert(l[i0] != l[k - 1]); }
            assert(nxt(l2, i) == nxt(l, i0));
        }
    }
    assert forall|i: int, j: int| 0 <= i < j < l2.len() implies l2[i] != l2[j] by {
        let i0 = if i < k { i } else { i + 1 };
        let j0 = if j < k { j } else { j + 1 };
        assert(l2[i] == l[i0] && l2[j] == l[j0]);
        lemma_list_member(slots, l, c, i0);
    }
    assert(l2.len() == l.len() - 1);
    if k == 0 { if l2.len() > 0 { assert(l2[0] == l[1]); } } else { assert(l2[0] == l[0]); }
    assert(list_members_ok(slots2, l2, c));
    assert(list_distinct(l2));
    assert(list_ok(slots2, l2, c)) by { reveal(list_ok); }
}

// ---- free_members -------------------------------------------------------------------------------------------
pub proof fn lemma_free_member_get(w: HeapW, o: nat)
    requires free_members(w), w.slots.dom().contains(o), w.slots[o].c is Free
    ensures w.lists[class_idx(w.slots[o].size)].contains(o)
{
    reveal(free_members);
}

// ---- witness updates -------------------------------------------------------------------------------------------
pub open spec fn w_set(w: HeapW, o: nat, s: SlotW) -> HeapW { HeapW { slots: w.slots.insert(o, s), lists: w.lists } }
pub open spec fn w_push(w: HeapW, o: nat) -> HeapW {
    let c = class_idx(w.slots[o].size);
    HeapW {
        slots: w.slots.insert(o, SlotW { size: w.slots[o].size, c: SlotC::Free(first(w.lists[c])) }),
        lists: w.lists.update(c, seq![o] + w.lists[c]),
    }
}
/// remove member k of list c; the slot becomes Cleared; its predecessor (if any) now points past it
pub open spec fn w_unlink(w: HeapW, c: int, k: int) -> HeapW {
    let l = w.lists[c];
    let o = l[k];
    let slots1 = w.slots.insert(o, SlotW { size: w.slots[o].size, c: SlotC::Cleared });
    let slots2 = if k > 0 { slots1.insert(l[k - 1], SlotW { size: w.slots[l[k - 1]].size, c: SlotC::Free(nxt(l, k)) }) } else { slots1 };
    HeapW { slots: slots2, lists: w.lists.update(c, rm(l, k)) }
}

} // verus!

verus! {
// ================================================================================================
// lifting: byte-level facts about one operation  ==>  heap_ok of the updated witness
// ================================================================================================

/// bytes unchanged outside two slot windows and one 8-byte header field (use o2 == o1 for a single slot, h == -8 for "no header field")
pub open spec fn frame3(b0: Seq<u8>, b1: Seq<u8>, o1: int, n1: int, o2: int, n2: int, h: int) -> bool {
    &&& b1.len() == b0.len()
    &&& forall|i: int| 0 <= i < b0.len() && !(o1 <= i < o1 + n1) && !(o2 <= i < o2 + n2) && !(h <= i < h + 8) ==> #[trigger] b1[i] == b0[i]
}

/// all slots other than o1, o2 keep their state; all heads other than the one at h keep their value
pub proof fn lemma_frame3_others(b0: Seq<u8>, b1: Seq<u8>, pm: PieceMgr, w: HeapW, o1: nat, o2: nat, h: int, hc: int)
    requires heap_ok(b0, pm, w), w.slots.dom().contains(o1), w.slots.dom().contains(o2),
        frame3(b0, b1, o1 as int, w.slots[o1].size as int, o2 as int, w.slots[o2].size as int, h),
        h <= -8 || (0 <= hc < 16 && h == pm.free_list_offset@[0] as int + 8 * hc),
    ensures
        forall|o: nat| #[trigger] w.slots.dom().contains(o) && o != o1 && o != o2 ==> slot_ok(b1, o, w.slots[o]),
        forall|c: int| 0 <= c < 16 && pm.free_list_offset@[0] as int + 8 * c != h ==> #[trigger] head_at(pm, b1, c) == head_at(pm, b0, c),
        rd(b1, 0, 32) == rd(b0, 0, 32),
{
    assert(slot_ok(b0, o1, w.slots[o1]));
    assert(slot_ok(b0, o2, w.slots[o2]));
    lemma_slot_bounds(b0, o1, w.slots[o1]);
    lemma_slot_bounds(b0, o2, w.slots[o2]);
    assert forall|o: nat| #[trigger] w.slots.dom().contains(o) && o != o1 && o != o2 implies slot_ok(b1, o, w.slots[o]) by {
        let s = w.slots[o];
        assert(slot_ok(b0, o, s));
        lemma_slot_bounds(b0, o, s);
        lemma_tiling_disjoint(b0.len(), w.slots, o, o1);
        lemma_tiling_disjoint(b0.len(), w.slots, o, o2);
        lemma_rd_same(b0, b1, o as int, s.size as int);
        lemma_slot_frame(b0, b1, o, s);
    }
    assert forall|c: int| 0 <= c < 16 && pm.free_list_offset@[0] as int + 8 * c != h implies #[trigger] head_at(pm, b1, c) == head_at(pm, b0, c) by {
        lemma_rd_same(b0, b1, pm.free_list_offset@[0] as int + 8 * c, 8);
    }
    lemma_tiling_len(b0.len(), w.slots);
    lemma_rd_same(b0, b1, 0, 32);
}

pub proof fn lemma_push(b0: Seq<u8>, b1: Seq<u8>, pm: PieceMgr, w: HeapW, o: nat)
    requires
        heap_ok(b0, pm, w), w.slots.dom().contains(o), !(w.slots[o].c is Free),
        frame3(b0, b1, o as int, w.slots[o].size as int, o as int, w.slots[o].size as int, head_pos(pm, w.slots[o].size)),
        free_at(b1, o as int, w.slots[o].size, head_of(pm, b0, w.slots[o].size)),
        head_of(pm, b1, w.slots[o].size) == o,
    ensures heap_ok(b1, pm, w_push(w, o))
{
    let size = w.slots[o].size;
    let c = class_idx(size);
    let h = head_pos(pm, size);
    let w1 = w_push(w, o);
    let l = w.lists[c];
    assert(slot_ok(b0, o, w.slots[o]));
    lemma_slot_bounds(b0, o, w.slots[o]);
    assert(h == pm.free_list_offset@[0] as int + 8 * c);
    lemma_frame3_others(b0, b1, pm, w, o, o, h, c);
    assert(list_ok(w.slots, w.lists[c], c));
    assert(head_at(pm, b0, c) == first(l));
    // tiling
    assert(w1.slots.dom() =~= w.slots.dom());
    lemma_tiling_same_sizes(b0.len(), w.slots, w1.slots);
    // slots
    lemma_slot_intro(b1, o, w1.slots[o]);
    assert forall|o2: nat| #[trigger] w1.slots.dom().contains(o2) implies slot_ok(b1, o2, w1.slots[o2]) by {
        if o2 != o { assert(w.slots.dom().contains(o2)); }
    }
    // lists
    lemma_list_push(w.slots, l, c, o);
    assert forall|c2: int| 0 <= c2 < 16 implies #[trigger] head_at(pm, b1, c2) == first(w1.lists[c2]) by {
        assert(head_at(pm, b0, c2) == first(w.lists[c2]));
        if c2 == c { assert(w1.lists[c] == seq![o] + l); }
    }
    assert forall|c2: int| 0 <= c2 < 16 implies #[trigger] list_ok(w1.slots, w1.lists[c2], c2) by {
        assert(list_ok(w.slots, w.lists[c2], c2));
        if c2 != c {
            lemma_not_member(w.slots, w.lists[c2], c2, o);
            let l2 = w.lists[c2];
            assert forall|i: int| 0 <= i < l2.len() implies #[trigger] w1.slots.dom().contains(l2[i]) && w1.slots[l2[i]] == w.slots[l2[i]] by {
                lemma_list_member(w.slots, l2, c2, i);
                assert(l2.contains(l2[i]));
            }
            lemma_list_untouched(w.slots, w1.slots, l2, c2);
        } else {
            assert(w1.lists[c] == seq![o] + l);
            assert(first(w1.lists[c]) == o);
        }
    }
    // membership
    assert(free_members(w1)) by {
        reveal(free_members);
        assert forall|o2: nat| #[trigger] w1.slots.dom().contains(o2) && w1.slots[o2].c is Free implies w1.lists[class_idx(w1.slots[o2].size)].contains(o2) by {
            if o2 == o {
                assert(w1.lists[c][0] == o);
            } else {
                let c2 = class_idx(w.slots[o2].size);
                assert(w.slots.dom().contains(o2));
                assert(w.lists[c2].contains(o2));
                let i = choose|i: int| 0 <= i < w.lists[c2].len() && w.lists[c2][i] == o2;
                assert(slot_ok(b0, o2, w.slots[o2]));
                lemma_slot_bounds(b0, o2, w.slots[o2]);
                if c2 == c { assert(w1.lists[c2][i + 1] == o2); } else { assert(w1.lists[c2][i] == o2); }
            }
        }
    }
}

} // verus!

verus! {
// ---- what the bytes say about a free-list member (reader side) ----------------------------------------------
pub proof fn lemma_member_decodes(b: Seq<u8>, pm: PieceMgr, w: HeapW, c: int, i: int)
    requires heap_ok(b, pm, w), 0 <= c < 16, 0 <= i < w.lists[c].len()
    ensures ({
        let o = w.lists[c][i];
        &&& o != 0 && w.slots.dom().contains(o)
        &&& free_rec_ok(b, o as int) && rec_len(b, o as int) == 0
        &&& rec_size(b, o as int) == w.slots[o].size
        &&& free_next(b, o as int) == nxt(w.lists[c], i)
        &&& class_idx(w.slots[o].size) == c
        &&& o >= 192 && o + w.slots[o].size <= b.len() && w.slots[o].size >= 16 && w.slots[o].size % 8 == 0 && w.slots[o].size <= u32::MAX && o % 8 == 0
        &&& is_slot_size(w.slots[o].size)
        &&& free_at(b, o as int, w.slots[o].size, nxt(w.lists[c], i))
    })
{
    let l = w.lists[c];
    let o = l[i];
    assert(list_ok(w.slots, l, c));
    lemma_list_member(w.slots, l, c, i);
    assert(slot_ok(b, o, w.slots[o]));
    lemma_slot_bounds(b, o, w.slots[o]);
    lemma_slot_elim(b, o, w.slots[o]);
    lemma_free_decodes(b, o as int, w.slots[o].size, nxt(l, i));
}

/// free lists (members and member sizes) are determined by the bytes: two witnesses agree on them
pub proof fn lemma_list_unique_w(b: Seq<u8>, pm: PieceMgr, w1: HeapW, w2: HeapW, c: int)
    requires heap_ok(b, pm, w1), heap_ok(b, pm, w2), 0 <= c < 16
    ensures w1.lists[c] == w2.lists[c],
        forall|i: int| 0 <= i < w1.lists[c].len() ==> w1.slots[#[trigger] w1.lists[c][i]].size == w2.slots[w1.lists[c][i]].size
{
    let l1 = w1.lists[c]; let l2 = w2.lists[c];
    assert(head_at(pm, b, c) == first(l1));
    assert(head_at(pm, b, c) == first(l2));
    lemma_list_prefix_eq(b, pm, w1, w2, c, l1.len() as int);
    // lengths: whichever list is longer would have a non-zero next where the other ends
    if l1.len() < l2.len() {
        lemma_list_prefix_eq(b, pm, w1, w2, c, l1.len() as int);
        if l1.len() > 0 {
            lemma_member_decodes(b, pm, w1, c, l1.len() - 1);
            lemma_member_decodes(b, pm, w2, c, l1.len() - 1);
            lemma_member_decodes(b, pm, w2, c, l1.len() as int);
        } else {
            lemma_member_decodes(b, pm, w2, c, 0);
        }
    } else if l2.len() < l1.len() {
        lemma_list_prefix_eq(b, pm, w1, w2, c, l2.len() as int);
        if l2.len() > 0 {
            lemma_member_decodes(b, pm, w1, c, l2.len() - 1);
            lemma_member_decodes(b, pm, w2, c, l2.len() - 1);
            lemma_member_decodes(b, pm, w1, c, l2.len() as int);
        } else {
            lemma_member_decodes(b, pm, w1, c, 0);
        }
    }
    assert(l1.len() == l2.len());
    assert(l1 =~= l2);
    assert forall|i: int| 0 <= i < l1.len() implies w1.slots[#[trigger] l1[i]].size == w2.slots[l1[i]].size by {
        lemma_member_decodes(b, pm, w1, c, i);
        lemma_member_decodes(b, pm, w2, c, i);
    }
}
/// the first n members agree (n up to the shorter length)
pub proof fn lemma_list_prefix_eq(b: Seq<u8>, pm: PieceMgr, w1: HeapW, w2: HeapW, c: int, n: int)
    requires heap_ok(b, pm, w1), heap_ok(b, pm, w2), 0 <= c < 16, 0 <= n
    ensures forall|i: int| 0 <= i < n && i < w1.lists[c].len() && i < w2.lists[c].len() ==> w1.lists[c][i] == w2.lists[c][i]
    decreases n
{
    let l1 = w1.lists[c]; let l2 = w2.lists[c];
    if n > 0 {
        lemma_list_prefix_eq(b, pm, w1, w2, c, n - 1);
        let i = n - 1;
        if i < l1.len() && i < l2.len() {
            if i == 0 {
                assert(head_at(pm, b, c) == first(l1));
                assert(head_at(pm, b, c) == first(l2));
            } else {
                lemma_member_decodes(b, pm, w1, c, i - 1);
                lemma_member_decodes(b, pm, w2, c, i - 1);
            }
        }
    }
}

/// rewriting the next field of a free record
pub proof fn lemma_free_set_next(b0: Seq<u8>, b1: Seq<u8>, o: int, size: nat, nx0: nat, nx1: nat)
    requires free_at(b0, o, size, nx0), nx1 <= u64::MAX,
        b1 == write_at(b0, rec_data_pos(b0, o) as nat, le_bytes(nx1, 8)),
    ensures free_at(b1, o, size, nx1), b1.len() == b0.len(),
        forall|i: int| 0 <= i < b0.len() && !(rec_data_pos(b0, o) <= i < rec_data_pos(b0, o) + 8) ==> #[trigger] b1[i] == b0[i],
        o <= rec_data_pos(b0, o), rec_data_pos(b0, o) + 8 <= o + size,
{
    lemma_free_decodes(b0, o, size, nx0);
    axiom_vu64(size / 8); axiom_vu64(0); lemma_enc0();
    lemma_le_bytes_len(nx0, 8); lemma_le_bytes_len(nx1, 8);
    let n1 = enc_len(size / 8) as int;
    let p = rec_data_pos(b0, o);
    assert(p == o + n1 + 1);
    lemma_write_at_basic(b0, p, le_bytes(nx1, 8));
    assert(rd(b1, o, size as int) =~= free_image(size, nx1)) by {
        let img0 = free_image(size, nx0); let img1 = free_image(size, nx1);
        assert(img0.len() == size && img1.len() == size);
        assert forall|i: int| 0 <= i < size implies rd(b1, o, size as int)[i] == img1[i] by {
            if n1 + 1 <= i < n1 + 9 {
                assert(rd(b1, p, 8)[i - n1 - 1] == b1[o + i]);
            } else {
                assert(b1[o + i] == b0[o + i]);
                assert(rd(b0, o, size as int)[i] == b0[o + i]);
                assert(img0[i] == img1[i]);
            }
        }
    }
}

/// unlinking member k of list c (see w_unlink) — byte-level facts in, heap_ok out
pub proof fn lemma_unlink(b0: Seq<u8>, b1: Seq<u8>, pm: PieceMgr, w: HeapW, c: int, k: int)
    requires heap_ok(b0, pm, w), 0 <= c < 16, 0 <= k < w.lists[c].len(),
        cleared_at(b1, w.lists[c][k] as int, w.slots[w.lists[c][k]].size),
        k > 0 ==> free_at(b1, w.lists[c][k - 1] as int, w.slots[w.lists[c][k - 1]].size, nxt(w.lists[c], k))
            && frame3(b0, b1, w.lists[c][k] as int, w.slots[w.lists[c][k]].size as int, w.lists[c][k - 1] as int, w.slots[w.lists[c][k - 1]].size as int, -8),
        k == 0 ==> head_at(pm, b1, c) == nxt(w.lists[c], 0)
            && frame3(b0, b1, w.lists[c][k] as int, w.slots[w.lists[c][k]].size as int, w.lists[c][k] as int, w.slots[w.lists[c][k]].size as int, pm.free_list_offset@[0] as int + 8 * c),
    ensures heap_ok(b1, pm, w_unlink(w, c, k))
{
    let l = w.lists[c];
    let o = l[k];
    let w1 = w_unlink(w, c, k);
    lemma_member_decodes(b0, pm, w, c, k);
    if k > 0 { lemma_member_decodes(b0, pm, w, c, k - 1); }
    let p = if k > 0 { l[k - 1] } else { o };
    let h = if k > 0 { -8 } else { pm.free_list_offset@[0] as int + 8 * c };
    lemma_frame3_others(b0, b1, pm, w, o, p, h, c);
    assert(list_ok(w.slots, l, c));
    // tiling
    assert(w1.slots.dom() =~= w.slots.dom());
    lemma_tiling_same_sizes(b0.len(), w.slots, w1.slots);
    // slots
    lemma_slot_intro(b1, o, w1.slots[o]);
    if k > 0 { lemma_list_member(w.slots, l, c, k); lemma_slot_intro(b1, p, w1.slots[p]); }
    assert forall|o2: nat| #[trigger] w1.slots.dom().contains(o2) implies slot_ok(b1, o2, w1.slots[o2]) by {
        if o2 != o && o2 != p { assert(w.slots.dom().contains(o2)); }
    }
    // lists
    lemma_list_unlink(w.slots, l, c, k, SlotC::Cleared);
    assert forall|c2: int| 0 <= c2 < 16 implies #[trigger] head_at(pm, b1, c2) == first(w1.lists[c2]) by {
        assert(head_at(pm, b0, c2) == first(w.lists[c2]));
        if c2 == c && k > 0 { assert(head_at(pm, b1, c) == head_at(pm, b0, c)); }
    }
    assert forall|c2: int| 0 <= c2 < 16 implies #[trigger] list_ok(w1.slots, w1.lists[c2], c2) by {
        assert(list_ok(w.slots, w.lists[c2], c2));
        if c2 != c {
            let l2 = w.lists[c2];
            assert forall|i: int| 0 <= i < l2.len() implies #[trigger] w1.slots.dom().contains(l2[i]) && w1.slots[l2[i]] == w.slots[l2[i]] by {
                lemma_list_member(w.slots, l2, c2, i);
                lemma_list_member(w.slots, l, c, k);
                if k > 0 { lemma_list_member(w.slots, l, c, k - 1); }
            }
            lemma_list_untouched(w.slots, w1.slots, l2, c2);
        }
    }
    // membership
    assert(free_members(w1)) by {
        reveal(free_members);
        assert forall|o2: nat| #[trigger] w1.slots.dom().contains(o2) && w1.slots[o2].c is Free implies w1.lists[class_idx(w1.slots[o2].size)].contains(o2) by {
            assert(w.slots.dom().contains(o2));
            assert(o2 != o);
            let c2 = class_idx(w.slots[o2].size);
            if o2 == p { lemma_list_member(w.slots, l, c, k - 1); }
            assert(w.slots[o2].c is Free);
            assert(w.lists[c2].contains(o2));
            let i = choose|i: int| 0 <= i < w.lists[c2].len() && w.lists[c2][i] == o2;
            assert(slot_ok(b0, o2, w.slots[o2]));
            lemma_slot_bounds(b0, o2, w.slots[o2]);
            if c2 == c {
                let i1 = if i < k { i } else { i - 1 };
                assert(i != k);
                assert(rm(l, k)[i1] == o2);
            } else { assert(w1.lists[c2][i] == o2); }
        }
    }
}

} // verus!

verus! {
// ---- reading the size field of any slot -------------------------------------------------------------------------
pub proof fn lemma_slot_size_decodes(b: Seq<u8>, o: nat, s: SlotW)
    requires slot_ok(b, o, s)
    ensures rec_size_ok(b, o as int), rec_size(b, o as int) == s.size, vu64_w(b, o as int) == enc_len(s.size / 8)
{
    lemma_slot_elim(b, o, s);
    lemma_slot_bounds(b, o, s);
    match s.c {
        SlotC::Val(v) => { lemma_val_used_decodes(b, o as int, s.size, v); }
        SlotC::Key(k, vo, nx) => { lemma_key_used_decodes(b, o as int, s.size, k, vo, nx); lemma_key_w(b, o as int, s.size, k, vo, nx); }
        SlotC::Free(nx) => { lemma_free_decodes(b, o as int, s.size, nx); }
        SlotC::Cleared => { lemma_cleared_decodes(b, o as int, s.size); lemma_cleared_w(b, o as int, s.size); }
    }
}
pub proof fn lemma_key_w(b: Seq<u8>, o: int, size: nat, key: Seq<u8>, voff: nat, next: nat)
    requires key_used_at(b, o, size, key, voff, next)
    ensures vu64_w(b, o) == enc_len(size / 8)
{
    let img = key_image(size, key, voff, next);
    axiom_vu64(size / 8);
    let n1 = enc_len(size / 8) as int;
    assert(img.len() == size);
    assert(rd(img, 0, n1) =~= vu64_enc(size / 8));
    assert(vu64_at(img, 0, size / 8));
    lemma_vu64_at_prefix(img, b, o, size as int, 0, size / 8);
    lemma_vu64_at(b, o, size / 8);
}
pub proof fn lemma_cleared_w(b: Seq<u8>, o: int, size: nat)
    requires cleared_at(b, o, size)
    ensures vu64_w(b, o) == enc_len(size / 8)
{
    let img = cleared_image(size);
    axiom_vu64(size / 8);
    let n1 = enc_len(size / 8) as int;
    assert(n1 <= 5);
    assert(img.len() == size);
    assert(rd(img, 0, n1) =~= vu64_enc(size / 8));
    assert(vu64_at(img, 0, size / 8));
    lemma_vu64_at_prefix(img, b, o, size as int, 0, size / 8);
    lemma_vu64_at(b, o, size / 8);
}

/// rewriting one slot in place (same size, new non-free content)
pub proof fn lemma_set(b0: Seq<u8>, b1: Seq<u8>, pm: PieceMgr, w: HeapW, o: nat, c: SlotC)
    requires heap_ok(b0, pm, w), w.slots.dom().contains(o), !(w.slots[o].c is Free), !(c is Free),
        frame3(b0, b1, o as int, w.slots[o].size as int, o as int, w.slots[o].size as int, -8),
        slot_ok(b1, o, SlotW { size: w.slots[o].size, c: c }),
    ensures heap_ok(b1, pm, w_set(w, o, SlotW { size: w.slots[o].size, c: c }))
{
    let w1 = w_set(w, o, SlotW { size: w.slots[o].size, c: c });
    lemma_frame3_others(b0, b1, pm, w, o, o, -8, 0);
    assert(w1.slots.dom() =~= w.slots.dom());
    lemma_tiling_same_sizes(b0.len(), w.slots, w1.slots);
    assert forall|o2: nat| #[trigger] w1.slots.dom().contains(o2) implies slot_ok(b1, o2, w1.slots[o2]) by {
        if o2 != o { assert(w.slots.dom().contains(o2)); }
    }
    assert forall|c2: int| 0 <= c2 < 16 implies #[trigger] head_at(pm, b1, c2) == first(w1.lists[c2]) by {
        assert(head_at(pm, b0, c2) == first(w.lists[c2]));
    }
    assert forall|c2: int| 0 <= c2 < 16 implies #[trigger] list_ok(w1.slots, w1.lists[c2], c2) by {
        assert(list_ok(w.slots, w.lists[c2], c2));
        lemma_not_member(w.slots, w.lists[c2], c2, o);
        let l2 = w.lists[c2];
        assert forall|i: int| 0 <= i < l2.len() implies #[trigger] w1.slots.dom().contains(l2[i]) && w1.slots[l2[i]] == w.slots[l2[i]] by {
            lemma_list_member(w.slots, l2, c2, i);
            assert(l2.contains(l2[i]));
        }
        lemma_list_untouched(w.slots, w1.slots, l2, c2);
    }
    assert(free_members(w1)) by {
        reveal(free_members);
        assert forall|o2: nat| #[trigger] w1.slots.dom().contains(o2) && w1.slots[o2].c is Free implies w1.lists[class_idx(w1.slots[o2].size)].contains(o2) by {
            assert(w.slots.dom().contains(o2));
        }
    }
}

/// appending a new slot at the end of the file
pub proof fn lemma_append(b0: Seq<u8>, b1: Seq<u8>, pm: PieceMgr, w: HeapW, s: SlotW)
    requires heap_ok(b0, pm, w), !(s.c is Free), b1.len() == b0.len() + s.size, b1.len() <= 0x3fff_ffff_ffff_ffff,
        forall|i: int| 0 <= i < b0.len() ==> #[trigger] b1[i] == b0[i],
        slot_ok(b1, b0.len(), s),
    ensures heap_ok(b1, pm, w_set(w, b0.len(), s)), !w.slots.dom().contains(b0.len())
{
    let o = b0.len();
    let w1 = w_set(w, o, s);
    lemma_slot_bounds(b1, o, s);
    lemma_tiling_append(b0.len(), w.slots, s);
    lemma_tiling_len(b0.len(), w.slots);
    assert forall|o2: nat| #[trigger] w1.slots.dom().contains(o2) implies slot_ok(b1, o2, w1.slots[o2]) by {
        if o2 != o {
            assert(w.slots.dom().contains(o2));
            assert(slot_ok(b0, o2, w.slots[o2]));
            lemma_slot_bounds(b0, o2, w.slots[o2]);
            lemma_rd_same(b0, b1, o2 as int, w.slots[o2].size as int);
            lemma_slot_frame(b0, b1, o2, w.slots[o2]);
        }
    }
    assert forall|c2: int| 0 <= c2 < 16 implies #[trigger] head_at(pm, b1, c2) == first(w1.lists[c2]) by {
        assert(head_at(pm, b0, c2) == first(w.lists[c2]));
        lemma_rd_same(b0, b1, pm.free_list_offset@[0] as int + 8 * c2, 8);
    }
    assert forall|c2: int| 0 <= c2 < 16 implies #[trigger] list_ok(w1.slots, w1.lists[c2], c2) by {
        assert(list_ok(w.slots, w.lists[c2], c2));
        let l2 = w.lists[c2];
        assert forall|i: int| 0 <= i < l2.len() implies #[trigger] w1.slots.dom().contains(l2[i]) && w1.slots[l2[i]] == w.slots[l2[i]] by {
            lemma_list_member(w.slots, l2, c2, i);
        }
        lemma_list_untouched(w.slots, w1.slots, l2, c2);
    }
    assert(free_members(w1)) by {
        reveal(free_members);
        assert forall|o2: nat| #[trigger] w1.slots.dom().contains(o2) && w1.slots[o2].c is Free implies w1.lists[class_idx(w1.slots[o2].size)].contains(o2) by {
            assert(w.slots.dom().contains(o2));
        }
    }
}

} // verus!
