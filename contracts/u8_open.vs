# open_with_params of the three files and of the map (C02, C07, C12, C13, and the base case of the C01/C05 induction)
@include prelude_open.rs
@type src/filedb/mod.rs | FileBufSizeParam
@type src/filedb/mod.rs | HashBucketsParam
@type src/filedb/mod.rs | FileDbParams

@raw
verus! {
/// what an open of one data file establishes, given the content `d` found on disk
pub open spec fn opened_data(bytes: Seq<u8>, unflushed: bool, d: Seq<u8>, sig1: Seq<u8>, sig2: Seq<u8>, fresh: Seq<u8>) -> bool {
    &&& d.len() == 0 ==> bytes == fresh
    &&& d.len() != 0 ==> bytes == d && !unflushed && d.len() >= 24 && rd(d, 0, 8) == sig1 && rd(d, 8, 8) == sig2
}
} // verus!
@end

@mod val
# base case of the representation invariant (mgr_ok: the size-class and free-list-head tables every update and every statistic
# relies on), so it is part of the unit of every property stated over well-formed files
@fn src/filedb/inner/val.rs | impl ValueFile | open_with_params
@serves C01 C02 C05 C06 C07 C08 C09 C12 C13 C17
@requires
params.val_buf_size matches FileBufSizeParam::Size(v) ==> v <= 0x7fff_ffff
@ensures
r is Ok ==> exists|d: Seq<u8>| #[trigger] opened_data(r->Ok_0.0.0@.bytes, r->Ok_0.0.0@.unflushed, d, sig_v(), sig2@, hdr_val(sig2@)),
r is Ok ==> mgr_ok(r->Ok_0.0.0.piece_mgr) && r->Ok_0.0.0.piece_mgr.free_list_offset@[0] == 32
@entry
let ghost mut gd: Seq<u8> = Seq::empty();
proof { lemma_pow2_128k(); assert(CHUNK_SIZE == 131072); }
@after-call open 1
proof { gd = pb.disk(); }
@exit
proof {
    if r__ is Ok {
        assert(opened_data(r__->Ok_0.0.0@.bytes, r__->Ok_0.0.0@.unflushed, gd, sig_v(), sig2@, hdr_val(sig2@)));
    }
}
@end
@endmod

@mod key
# base case of the representation invariant (mgr_ok: the size-class and free-list-head tables every update and every statistic
# relies on), so it is part of the unit of every property stated over well-formed files
@fn src/filedb/inner/key.rs | impl<KT: DbMapKeyType> KeyFile<KT> | open_with_params
@serves C01 C02 C05 C06 C07 C08 C09 C12 C13 C17
@requires
params.key_buf_size matches FileBufSizeParam::Size(v) ==> v <= 0x7fff_ffff
@ensures
r is Ok ==> exists|d: Seq<u8>| #[trigger] opened_data(r->Ok_0.0.0@.bytes, r->Ok_0.0.0@.unflushed, d, sig_k(), sig2@, hdr_key(sig2@)),
r is Ok ==> mgr_ok(r->Ok_0.0.0.piece_mgr) && r->Ok_0.0.0.piece_mgr.free_list_offset@[0] == 48
@entry
let ghost mut gd: Seq<u8> = Seq::empty();
proof { lemma_pow2_128k(); assert(CHUNK_SIZE == 131072); }
@after-call open 1
proof { gd = pb.disk(); }
@exit
proof {
    if r__ is Ok {
        assert(opened_data(r__->Ok_0.0.0@.bytes, r__->Ok_0.0.0@.unflushed, gd, sig_k(), sig2@, hdr_key(sig2@)));
    }
}
@end
@endmod

@mod htx
@raw root
verus! {
pub open spec fn sig_h() -> Seq<u8> { seq![97u8, 98, 121, 115, 100, 98, 72, 0] }
/// documented table-file header (htx.rs:251-273): signature1, type signature, bucket count (LE), 104 zero bytes (count + reserve)
pub open spec fn hdr_htx(sig2: Seq<u8>, n: nat) -> Seq<u8> { sig_h() + sig2 + le_bytes(n, 8) + zeros(104) }
/// a freshly created table: header, n empty buckets, empty bitmap
pub open spec fn fresh_htx(sig2: Seq<u8>, n: nat) -> Seq<u8> { hdr_htx(sig2, n) + zeros(8 * n + n / 8) }
pub proof fn lemma_pow2_ge8(n: nat)
    requires is_pow2(n), n >= 8
    ensures n % 8 == 0
{
    reveal_with_fuel(is_pow2, 4);
}
pub proof fn lemma_fresh_htx(sig2: Seq<u8>, n: nat)
    requires sig2.len() == 8, 8 <= n <= 0x1000_0000_0000, n % 8 == 0
    ensures htx_wf(fresh_htx(sig2, n), n as int), htx_count(fresh_htx(sig2, n)) == 0,
        forall|i: int| 0 <= i < n ==> #[trigger] bucket(fresh_htx(sig2, n), i) == 0
{
    let b = fresh_htx(sig2, n);
    lemma_le_bytes_len(n, 8);
    assert(b.len() == 128 + 8 * n + n / 8);
    assert(rd(b, 16, 8) =~= le_bytes(n, 8));
    assert(n < pow256(8)) by { reveal_with_fuel(pow256, 9); }
    lemma_le_val_bytes(n, 8);
    assert(rd(b, 24, 8) =~= zeros(8));
    lemma_le_val_zero(zeros(8));
    assert forall|i: int| 0 <= i < n implies #[trigger] bucket(b, i) == 0 by {
        assert(rd(b, bucket_pos(i), 8) =~= zeros(8));
    }
}
} // verus!
@end

@fn src/filedb/inner/htx.rs | - | write_htxf_init_header
@serves C12 C18
@requires
old(file)@.bytes.len() == 0
@ensures
okh(old(file)@, final(file)@, r), final(file).piece_mgr == old(file).piece_mgr,
r is Ok ==> final(file)@.bytes == hdr_htx(signature2@, buckets_size as nat),
r is Ok ==> final(file)@.unflushed && final(file)@.unsynced
@exit
proof {
    if r__ is Ok {
        assert(HTX_HEADER_SIGNATURE@ =~= sig_h());
        assert(final(file)@.bytes =~= hdr_htx(signature2@, buckets_size as nat));
    }
}
@end

@fn src/filedb/inner/htx.rs | - | check_htxf_header
@opts refusal
@refusal-implies !(rd(old(file)@.bytes, 0, 8) == sig_h() && rd(old(file)@.bytes, 8, 8) == signature2@ && htx_stored_n(old(file)@.bytes) != 0)
@serves C13 C02
@requires
old(file)@.bytes.len() >= 24
@ensures
okh(old(file)@, final(file)@, r), same_but_pos(old(file)@, final(file)@), final(file).piece_mgr == old(file).piece_mgr,
r is Ok ==> rd(old(file)@.bytes, 0, 8) == sig_h() && rd(old(file)@.bytes, 8, 8) == signature2@ && htx_stored_n(old(file)@.bytes) != 0
@end

# uses u64::next_power_of_two and an intended refusal (panic) for 0; proved on the real function by Kani (kani_htx.rs)
@fn src/filedb/inner/htx.rs | - | capacity_to_buckets_size
@opts assumed refusal proved_by=kani:u6_capacity_to_buckets_size
@requires
cap <= 0x100_0000_0000
@ensures
is_pow2(r as nat), r >= 8, r >= cap, r <= 0x400_0000_0000
@end

# C15: the frame proofs of the read-only operations index the table with the cached bucket count; they rest on
# "cached count == stored count" which this function establishes for an existing file
@fn src/filedb/inner/htx.rs | impl HtxFile | open_with_params
@opts rlimit=100
@serves C01 C02 C07 C08 C12 C13 C15
@requires
params.htx_buf_size matches FileBufSizeParam::Size(v) ==> v <= 0x7fff_ffff,
params.buckets_size matches HashBucketsParam::BucketsSize(x) ==> x <= 0x100_0000_0000,
params.buckets_size matches HashBucketsParam::Capacity(x) ==> x <= 0x100_0000_0000
@ensures
r is Ok ==> exists|d: Seq<u8>| #[trigger] opened_data(r->Ok_0.0.file@.bytes, r->Ok_0.0.file@.unflushed, d, sig_h(), sig2@, fresh_htx(sig2@, r->Ok_0.0.buckets_size as nat))
    && (d.len() != 0 ==> r->Ok_0.0.buckets_size as nat == htx_stored_n(d))
    && (d.len() == 0 ==> htx_wf(r->Ok_0.0.file@.bytes, r->Ok_0.0.buckets_size as int))
@entry
let ghost mut gd: Seq<u8> = Seq::empty();
proof { lemma_pow2_128k(); assert(CHUNK_SIZE == 131072); assert(DEFAULT_HT_SIZE == 16777216); reveal_with_fuel(is_pow2, 26); assert(is_pow2(16777216)); }
@after-call open 1
proof { gd = pb.disk(); }
@exit
proof {
    if r__ is Ok {
        let n = r__->Ok_0.0.buckets_size as nat;
        if gd.len() == 0 {
            lemma_pow2_ge8(n);
            lemma_fresh_htx(sig2@, n);
            reveal_with_fuel(le_bytes, 9);
            assert(le_bytes(0, 8) =~= zeros(8));
            lemma_le_bytes_len(n, 8);
            assert(hdr_htx(sig2@, n).len() == 128);
            assert(r__->Ok_0.0.file@.bytes =~= fresh_htx(sig2@, n));
        }
        assert(opened_data(r__->Ok_0.0.file@.bytes, r__->Ok_0.0.file@.unflushed, gd, sig_h(), sig2@, fresh_htx(sig2@, n)));
    }
}
@end
@endmod

@raw
verus! {
pub open spec fn empty_heap() -> HeapW { HeapW { slots: Map::empty(), lists: Seq::new(16, |i: int| Seq::<nat>::empty()) } }
pub open spec fn empty_w(n: int) -> MapW {
    MapW { kw: empty_heap(), vw: empty_heap(), cs: Seq::new(n as nat, |b: int| Seq::<nat>::empty()), vown: Map::empty() }
}
pub proof fn lemma_total_empty(n: nat)
    ensures total(Seq::new(n, |b: int| Seq::<nat>::empty())) == 0
    decreases n
{
    let cs = Seq::new(n, |b: int| Seq::<nat>::empty());
    if n > 0 {
        assert(cs.drop_last() =~= Seq::new((n - 1) as nat, |b: int| Seq::<nat>::empty()));
        lemma_total_empty((n - 1) as nat);
    }
}
/// a header-only data file is a well-formed heap with no slots
pub proof fn lemma_empty_heap(b: Seq<u8>, pm: PieceMgr, sig1: Seq<u8>, sig2: Seq<u8>)
    requires mgr_ok(pm), sig1.len() == 8, sig2.len() == 8, b == sig1 + sig2 + zeros(176)
    ensures heap_ok(b, pm, empty_heap())
{
    let w = empty_heap();
    assert(b.len() == 192);
    assert(tiling(192, w.slots)) by { reveal(tiling); }
    assert forall|c: int| 0 <= c < 16 implies #[trigger] list_ok(w.slots, w.lists[c], c) by { reveal(list_ok); }
    assert forall|c: int| 0 <= c < 16 implies #[trigger] head_at(pm, b, c) == first(w.lists[c]) by {
        let p = pm.free_list_offset@[0] as int + 8 * c;
        assert(rd(b, p, 8) =~= zeros(8));
        lemma_le_val_zero(zeros(8));
    }
    assert(free_members(w)) by { reveal(free_members); }
}
/// three freshly created files are a valid empty map (base case of the C01/C05 induction; C03 "only created" case)
pub proof fn lemma_empty_map(m: MapB, sig2: Seq<u8>)
    requires mgr_ok(m.kpm), m.kpm.free_list_offset@[0] == 48, mgr_ok(m.vpm), m.vpm.free_list_offset@[0] == 32, sig2.len() == 8,
        m.kb == hdr_key(sig2), m.vb == hdr_val(sig2), m.hb == fresh_htx(sig2, m.n as nat), 8 <= m.n <= 0x1000_0000_0000, m.n % 8 == 0,
    ensures map_ok(m, empty_w(m.n)), forall|k: Seq<u8>| !has_key(empty_w(m.n), k)
{
    let w = empty_w(m.n);
    lemma_fresh_htx(sig2, m.n as nat);
    lemma_empty_heap(m.kb, m.kpm, sig_k(), sig2);
    lemma_empty_heap(m.vb, m.vpm, sig_v(), sig2);
    assert(kinds_ok(w.kw, w.vw)) by { reveal(kinds_ok); }
    assert forall|b: int| 0 <= b < m.n implies #[trigger] chain_ok(w.kw, bucket(m.hb, b), w.cs[b], b, m.n) by { reveal(chain_ok); }
    assert(all_on_chains(w.kw, m.n, w.cs)) by { reveal(all_on_chains); }
    assert(keys_distinct(w.kw)) by { reveal(keys_distinct); }
    assert(vals_linked(w.kw, w.vw, w.vown)) by { reveal(vals_linked); }
    lemma_total_empty(m.n as nat);
}
} // verus!
@end

@mod dbxxx
@fn src/filedb/inner/dbxxx.rs | impl<KT: DbMapKeyType> FileDbXxxInner<KT> | open_with_params
@serves C02 C03 C07 C13
@requires
params.key_buf_size matches FileBufSizeParam::Size(v) ==> v <= 0x7fff_ffff,
params.val_buf_size matches FileBufSizeParam::Size(v) ==> v <= 0x7fff_ffff,
params.htx_buf_size matches FileBufSizeParam::Size(v) ==> v <= 0x7fff_ffff,
params.buckets_size matches HashBucketsParam::BucketsSize(x) ==> x <= 0x100_0000_0000,
params.buckets_size matches HashBucketsParam::Capacity(x) ==> x <= 0x100_0000_0000
@ensures
r is Ok ==> r->Ok_0.dirty_ok(),
r is Ok ==> exists|dk: Seq<u8>, dv: Seq<u8>, dh: Seq<u8>|
    #[trigger] opened_data(r->Ok_0.kf().bytes, r->Ok_0.kf().unflushed, dk, sig_k(), KT::sig_spec(), hdr_key(KT::sig_spec()))
    && #[trigger] opened_data(r->Ok_0.vf().bytes, r->Ok_0.vf().unflushed, dv, sig_v(), KT::sig_spec(), hdr_val(KT::sig_spec()))
    && #[trigger] opened_data(r->Ok_0.hf().bytes, r->Ok_0.hf().unflushed, dh, sig_h(), KT::sig_spec(), fresh_htx(KT::sig_spec(), r->Ok_0.mb().n as nat))
    && (dh.len() != 0 ==> r->Ok_0.mb().n == htx_stored_n(dh))
    && (dk.len() == 0 && dv.len() == 0 && dh.len() == 0 ==> map_ok(r->Ok_0.mb(), empty_w(r->Ok_0.mb().n)))
@exit
proof {
    if r__ is Ok {
        let s = r__->Ok_0; let sig = KT::sig_spec();
        let dk = choose|d: Seq<u8>| #[trigger] opened_data(s.kf().bytes, s.kf().unflushed, d, sig_k(), sig, hdr_key(sig));
        let dv = choose|d: Seq<u8>| #[trigger] opened_data(s.vf().bytes, s.vf().unflushed, d, sig_v(), sig, hdr_val(sig));
        let dh = choose|d: Seq<u8>| #[trigger] opened_data(s.hf().bytes, s.hf().unflushed, d, sig_h(), sig, fresh_htx(sig, s.mb().n as nat))
            && (d.len() != 0 ==> s.mb().n as nat == htx_stored_n(d)) && (d.len() == 0 ==> htx_wf(s.hf().bytes, s.mb().n));
        if dk.len() == 0 && dv.len() == 0 && dh.len() == 0 { lemma_empty_map(s.mb(), sig); }
    }
}
@end
@endmod
