// ================================================================================================
// prelude_map2.rs — L4 lemmas: how the heap operations change slot contents, chains, and the map.
// SPEC / PROOF only.
// ================================================================================================
verus! {

/// two heaps agree on every non-free slot except possibly `x` (free slots may change their links)
pub open spec fn same_used_except(w: HeapW, w2: HeapW, x: nat) -> bool {
    forall|o: nat| #![trigger w2.slots.dom().contains(o)] #![trigger w.slots.dom().contains(o)] o != x ==> {
        &&& (w2.slots.dom().contains(o) && !(w2.slots[o].c is Free)) == (w.slots.dom().contains(o) && !(w.slots[o].c is Free))
        &&& (w.slots.dom().contains(o) && !(w.slots[o].c is Free) ==> w2.slots[o] == w.slots[o])
    }
}

pub proof fn lemma_unlink_effect(b: Seq<u8>, pm: PieceMgr, w: HeapW, c: int, k: int)
    requires heap_ok(b, pm, w), 0 <= c < 16, 0 <= k < w.lists[c].len()
    ensures ({
        let w2 = w_unlink(w, c, k);
        let o = w.lists[c][k];
        &&& same_used_except(w, w2, o)
        &&& w.slots.dom().contains(o) && w.slots[o].c is Free && o != 0 && o % 8 == 0 && o >= 192
        &&& w2.slots.dom().contains(o) && w2.slots[o].c is Cleared && w2.slots[o].size == w.slots[o].size
    })
{
    let l = w.lists[c];
    lemma_member_decodes(b, pm, w, c, k);
    assert(list_ok(w.slots, l, c));
    lemma_list_member(w.slots, l, c, k);
    if k > 0 { lemma_member_decodes(b, pm, w, c, k - 1); lemma_list_member(w.slots, l, c, k - 1); }
}

pub proof fn lemma_alloc_effect(b: Seq<u8>, pm: PieceMgr, w: HeapW, need: nat, c: SlotC)
    requires heap_ok(b, pm, w), is_slot_size(need), !(c is Free), !(c is Cleared)
    ensures ({
        let t = w_alloc(w, b.len(), need, c);
        &&& t.0.slots.dom().contains(t.1) && t.0.slots[t.1] == SlotW { size: t.2, c: c }
        &&& (!w.slots.dom().contains(t.1) || w.slots[t.1].c is Free)
        &&& same_used_except(w, t.0, t.1)
        &&& t.1 != 0 && t.1 % 8 == 0 && t.1 >= 192
    })
{
    let cl = class_idx(need);
    let l = w.lists[cl];
    let k = pop_idx(w, need);
    if need >= 1024 { lemma_ff_range(w.slots, w.lists[15], need, 0); }
    if k < l.len() {
        lemma_unlink_effect(b, pm, w, cl, k);
    } else {
        lemma_tiling_len(b.len(), w.slots);
        lemma_tiling_append(b.len(), w.slots, SlotW { size: need, c: c });
    }
}

pub proof fn lemma_push_effect(b: Seq<u8>, pm: PieceMgr, w: HeapW, o: nat)
    requires heap_ok(b, pm, w), w.slots.dom().contains(o), !(w.slots[o].c is Free)
    ensures ({
        let w2 = w_push(w, o);
        &&& same_used_except(w, w2, o)
        &&& w2.slots.dom().contains(o) && w2.slots[o].c is Free
    })
{
    assert(slot_ok(b, o, w.slots[o]));
    lemma_slot_bounds(b, o, w.slots[o]);
}

pub proof fn lemma_set_effect(w: HeapW, o: nat, s: SlotW)
    ensures same_used_except(w, w_set(w, o, s), o), w_set(w, o, s).slots.dom().contains(o), w_set(w, o, s).slots[o] == s
{}

pub proof fn lemma_same_used_trans(w1: HeapW, w2: HeapW, w3: HeapW, x: nat, y: nat)
    requires same_used_except(w1, w2, x), same_used_except(w2, w3, y),
        // x is settled in w3 the same way as in w1 or is the second exception
        x == y || ((w3.slots.dom().contains(x) && !(w3.slots[x].c is Free)) == (w1.slots.dom().contains(x) && !(w1.slots[x].c is Free))
                   && (w1.slots.dom().contains(x) && !(w1.slots[x].c is Free) ==> w3.slots[x] == w1.slots[x]))
    ensures same_used_except(w1, w3, y)
{
    assert forall|o: nat| #![trigger w3.slots.dom().contains(o)] #![trigger w1.slots.dom().contains(o)] o != y implies {
        &&& (w3.slots.dom().contains(o) && !(w3.slots[o].c is Free)) == (w1.slots.dom().contains(o) && !(w1.slots[o].c is Free))
        &&& (w1.slots.dom().contains(o) && !(w1.slots[o].c is Free) ==> w3.slots[o] == w1.slots[o])
    } by {
        if o != x { assert(w2.slots.dom().contains(o) || !w2.slots.dom().contains(o)); }
    }
}

// ---- chains ----------------------------------------------------------------------------------------------------------
pub proof fn lemma_chain_frame(kw: HeapW, kw2: HeapW, head: nat, s: Seq<nat>, b: int, n: int)
    requires chain_ok(kw, head, s, b, n),
        forall|i: int| 0 <= i < s.len() ==> #[trigger] is_key(kw2, s[i]),
        forall|i: int| 0 <= i < s.len() ==> kw2.slots[#[trigger] s[i]] == kw.slots[s[i]],
    ensures chain_ok(kw2, head, s, b, n)
{
    lemma_chain_head(kw, head, s, b, n);
    assert forall|i: int| 0 <= i < s.len() implies #[trigger] chain_member_ok(kw2, s, b, n, i) by {
        lemma_chain_member(kw, head, s, b, n, i);
        assert(is_key(kw2, s[i]));
        assert(kw2.slots[s[i]] == kw.slots[s[i]]);
    }
    assert forall|i: int, j: int| 0 <= i < j < s.len() implies s[i] != s[j] by {
        lemma_chain_member(kw, head, s, b, n, i);
    }
    assert(chain_members_ok(kw2, s, b, n));
    assert(chain_distinct(s));
    assert(chain_ok(kw2, head, s, b, n)) by { reveal(chain_ok); }
}
pub proof fn lemma_chain_push(kw: HeapW, head: nat, s: Seq<nat>, b: int, n: int, ko: nat)
    requires chain_ok(kw, head, s, b, n), is_key(kw, ko), ko != 0, knext(kw, ko) == head, bucket_of(kkey(kw, ko), n) == b, !s.contains(ko)
    ensures chain_ok(kw, ko, seq![ko] + s, b, n)
{
    let s2 = seq![ko] + s;
    lemma_chain_head(kw, head, s, b, n);
    assert forall|i: int| 0 <= i < s2.len() implies #[trigger] chain_member_ok(kw, s2, b, n, i) by {
        if i > 0 {
            assert(s2[i] == s[i - 1]);
            lemma_chain_member(kw, head, s, b, n, i - 1);
            assert(nxt(s2, i) == nxt(s, i - 1));
        } else {
            assert(nxt(s2, 0) == first(s));
        }
    }
    assert forall|i: int, j: int| 0 <= i < j < s2.len() implies s2[i] != s2[j] by {
        assert(s2[j] == s[j - 1]);
        lemma_chain_member(kw, head, s, b, n, j - 1);
        if i > 0 { assert(s2[i] == s[i - 1]); } else { assert(s.contains(s[j - 1])); }
    }
    assert(first(s2) == ko);
    assert(chain_members_ok(kw, s2, b, n));
    assert(chain_distinct(s2));
    assert(chain_ok(kw, ko, s2, b, n)) by { reveal(chain_ok); }
}
/// member i leaves the chain: its predecessor (if any) was relinked past it, all other members are unchanged
pub proof fn lemma_chain_remove(kw: HeapW, kw2: HeapW, head: nat, s: Seq<nat>, b: int, n: int, i: int)
    requires chain_ok(kw, head, s, b, n), 0 <= i < s.len(),
        forall|j: int| 0 <= j < s.len() && j != i && j != i - 1 ==> #[trigger] is_key(kw2, s[j]),
        forall|j: int| 0 <= j < s.len() && j != i && j != i - 1 ==> kw2.slots[#[trigger] s[j]] == kw.slots[s[j]],
        i > 0 ==> is_key(kw2, s[i - 1]) && kkey(kw2, s[i - 1]) == kkey(kw, s[i - 1]) && knext(kw2, s[i - 1]) == nxt(s, i),
    ensures chain_ok(kw2, if i == 0 { nxt(s, 0) } else { head }, rm(s, i), b, n)
{
    let s2 = rm(s, i);
    let head2 = if i == 0 { nxt(s, 0) } else { head };
    lemma_chain_head(kw, head, s, b, n);
    assert forall|j: int| 0 <= j < s2.len() implies #[trigger] chain_member_ok(kw2, s2, b, n, j) by {
        let j0 = if j < i { j } else { j + 1 };
        assert(s2[j] == s[j0]);
        if j + 1 < s2.len() { assert(s2[j + 1] == s[(if j + 1 < i { j + 1 } else { j + 2 })]); }
        lemma_chain_member(kw, head, s, b, n, j0);
        if j0 == i - 1 {
            assert(nxt(s2, j) == nxt(s, i));
        } else {
            assert(is_key(kw2, s[j0]));
            assert(kw2.slots[s[j0]] == kw.slots[s[j0]]);
            assert(nxt(s2, j) == nxt(s, j0));
        }
    }
    assert forall|j1: int, j2: int| 0 <= j1 < j2 < s2.len() implies s2[j1] != s2[j2] by {
        let a = if j1 < i { j1 } else { j1 + 1 };
        let c = if j2 < i { j2 } else { j2 + 1 };
        assert(s2[j1] == s[a] && s2[j2] == s[c]);
        lemma_chain_member(kw, head, s, b, n, a);
    }
    if s2.len() > 0 { if i == 0 { assert(s2[0] == s[1]); } else { assert(s2[0] == s[0]); } }
    assert(first(s2) == head2);
    assert(chain_members_ok(kw2, s2, b, n));
    assert(chain_distinct(s2));
    assert(chain_ok(kw2, head2, s2, b, n)) by { reveal(chain_ok); }
}

pub proof fn lemma_total_update(cs: Seq<Seq<nat>>, b: int, s2: Seq<nat>)
    requires 0 <= b < cs.len()
    ensures total(cs.update(b, s2)) == total(cs) - cs[b].len() + s2.len()
    decreases cs.len()
{
    let cs2 = cs.update(b, s2);
    if b == cs.len() - 1 {
        assert(cs2.drop_last() =~= cs.drop_last());
        assert(cs2.last() == s2);
    } else {
        lemma_total_update(cs.drop_last(), b, s2);
        assert(cs2.drop_last() =~= cs.drop_last().update(b, s2));
        assert(cs2.last() == cs.last());
    }
}

} // verus!

verus! {
// ---- getters for the opaque map clauses -----------------------------------------------------------------------------
pub proof fn lemma_kinds(kw: HeapW, vw: HeapW, o: nat)
    requires kinds_ok(kw, vw)
    ensures kw.slots.dom().contains(o) ==> kw.slots[o].c is Key || kw.slots[o].c is Free,
            vw.slots.dom().contains(o) ==> vw.slots[o].c is Val || vw.slots[o].c is Free
{
    reveal(kinds_ok);
}
pub proof fn lemma_val_owner(kw: HeapW, vw: HeapW, vown: Map<nat, nat>, v: nat)
    requires vals_linked(kw, vw, vown), is_val(vw, v)
    ensures is_key(kw, vown[v]), kvoff(kw, vown[v]) == v
{
    reveal(vals_linked);
}

/// header bytes 24..32 (item count) rewritten: table shape, buckets and bits are unchanged
pub proof fn lemma_count_write(hb: Seq<u8>, n: int, v: nat)
    requires htx_wf(hb, n), v <= u64::MAX
    ensures ({
        let hb2 = write_at(hb, 24, le_bytes(v, 8));
        &&& htx_wf(hb2, n) && htx_count(hb2) == v
        &&& forall|i: int| 0 <= i < n ==> #[trigger] bucket(hb2, i) == bucket(hb, i)
    })
{
    let hb2 = write_at(hb, 24, le_bytes(v, 8));
    lemma_le_bytes_len(v, 8);
    lemma_write_at_basic(hb, 24, le_bytes(v, 8));
    lemma_write_le64(hb, 24, v);
    lemma_write_at_rd(hb, 24, le_bytes(v, 8), 16, 8);
    assert forall|i: int| 0 <= i < n implies #[trigger] bucket(hb2, i) == bucket(hb, i) by {
        lemma_write_at_rd(hb, 24, le_bytes(v, 8), bucket_pos(i), 8);
    }
    assert forall|i: int| 0 <= i < n && #[trigger] bucket(hb2, i) != 0 implies bit(hb2, n, i) by {
        assert(bucket(hb, i) != 0);
        assert(hb2[bm_start(n) + i / 8] == hb[bm_start(n) + i / 8]);
    }
}

/// a new entry (key, value) at the head of bucket b
pub proof fn lemma_map_add(m: MapB, m2: MapB, w: MapW, kw2: HeapW, vw2: HeapW, key: Seq<u8>, value: Seq<u8>, ko: nat, voff: nat)
    requires
        map_ok(m, w), m2.n == m.n, m2.kpm == m.kpm, m2.vpm == m.vpm,
        !has_key(w, key),
        // value heap: voff is a fresh value record, every other used slot is unchanged
        heap_ok(m2.vb, m2.vpm, vw2), same_used_except(w.vw, vw2, voff), is_val(vw2, voff), vval(vw2, voff) == value,
        !w.vw.slots.dom().contains(voff) || w.vw.slots[voff].c is Free,
        // key heap: ko is a fresh key record (key, voff, old head), every other used slot is unchanged
        heap_ok(m2.kb, m2.kpm, kw2), same_used_except(w.kw, kw2, ko), is_key(kw2, ko), ko != 0,
        kkey(kw2, ko) == key, kvoff(kw2, ko) == voff, knext(kw2, ko) == bucket(m.hb, bucket_of(key, m.n)),
        !w.kw.slots.dom().contains(ko) || w.kw.slots[ko].c is Free,
        // table: bucket b now heads at ko, the count went up by one, nothing else changed
        htx_wf(m2.hb, m2.n), bucket(m2.hb, bucket_of(key, m.n)) == ko,
        forall|j: int| 0 <= j < m.n && j != bucket_of(key, m.n) ==> #[trigger] bucket(m2.hb, j) == bucket(m.hb, j),
        htx_count(m2.hb) == htx_count(m.hb) + 1, htx_count(m2.hb) < 0xffff_ffff_ffff_ffff,
    ensures ({
        let b = bucket_of(key, m.n);
        let w2 = MapW { kw: kw2, vw: vw2, cs: w.cs.update(b, seq![ko] + w.cs[b]), vown: w.vown.insert(voff, ko) };
        map_ok(m2, w2) && is_insert(w, w2, key, value)
    })
{
    let b = bucket_of(key, m.n);
    let w2 = MapW { kw: kw2, vw: vw2, cs: w.cs.update(b, seq![ko] + w.cs[b]), vown: w.vown.insert(voff, ko) };
    lemma_bucket_range(key, m.n);
    // every old key / value record is unchanged in the new heaps
    assert forall|o: nat| #![trigger is_key(w.kw, o)] is_key(w.kw, o) implies is_key(kw2, o) && kw2.slots[o] == w.kw.slots[o] && o != ko by {
        assert(w.kw.slots.dom().contains(o) && !(w.kw.slots[o].c is Free));
        if o != ko { assert(kw2.slots.dom().contains(o)); }
    }
    assert forall|v: nat| #![trigger is_val(w.vw, v)] is_val(w.vw, v) implies is_val(vw2, v) && vw2.slots[v] == w.vw.slots[v] && v != voff by {
        assert(w.vw.slots.dom().contains(v) && !(w.vw.slots[v].c is Free));
        if v != voff { assert(vw2.slots.dom().contains(v)); }
    }
    assert forall|o: nat| #![trigger is_key(kw2, o)] is_key(kw2, o) && o != ko implies is_key(w.kw, o) && kw2.slots[o] == w.kw.slots[o] by {
        assert(kw2.slots.dom().contains(o) && !(kw2.slots[o].c is Free));
    }
    assert forall|v: nat| #![trigger is_val(vw2, v)] is_val(vw2, v) && v != voff implies is_val(w.vw, v) && vw2.slots[v] == w.vw.slots[v] by {
        assert(vw2.slots.dom().contains(v) && !(vw2.slots[v].c is Free));
    }
    // kinds
    assert(kinds_ok(kw2, vw2)) by {
        reveal(kinds_ok);
        assert forall|o: nat| #[trigger] kw2.slots.dom().contains(o) implies kw2.slots[o].c is Key || kw2.slots[o].c is Free by {
            if o != ko && !(kw2.slots[o].c is Free) { assert(w.kw.slots.dom().contains(o)); }
        }
        assert forall|o: nat| #[trigger] vw2.slots.dom().contains(o) implies vw2.slots[o].c is Val || vw2.slots[o].c is Free by {
            if o != voff && !(vw2.slots[o].c is Free) { assert(w.vw.slots.dom().contains(o)); }
        }
    }
    // chains
    assert(chain_ok(w.kw, bucket(m.hb, b), w.cs[b], b, m.n));
    assert forall|j: int| 0 <= j < m.n implies #[trigger] chain_ok(kw2, bucket(m2.hb, j), w2.cs[j], j, m.n) by {
        assert(chain_ok(w.kw, bucket(m.hb, j), w.cs[j], j, m.n));
        let s = w.cs[j];
        assert forall|i: int| 0 <= i < s.len() implies #[trigger] is_key(kw2, s[i]) by { lemma_chain_member(w.kw, bucket(m.hb, j), s, j, m.n, i); }
        assert forall|i: int| 0 <= i < s.len() implies kw2.slots[#[trigger] s[i]] == w.kw.slots[s[i]] by { lemma_chain_member(w.kw, bucket(m.hb, j), s, j, m.n, i); }
        lemma_chain_frame(w.kw, kw2, bucket(m.hb, j), s, j, m.n);
        if j == b {
            if s.contains(ko) {
                let i = choose|i: int| 0 <= i < s.len() && s[i] == ko;
                lemma_chain_member(w.kw, bucket(m.hb, j), s, j, m.n, i);
            }
            lemma_chain_push(kw2, bucket(m.hb, b), s, b, m.n, ko);
        }
    }
    // every key record is on its chain
    assert(all_on_chains(kw2, m.n, w2.cs)) by {
        reveal(all_on_chains);
        assert forall|o: nat| #[trigger] is_key(kw2, o) implies w2.cs[bucket_of(kkey(kw2, o), m.n)].contains(o) by {
            if o == ko {
                assert(w2.cs[b][0] == ko);
            } else {
                assert(is_key(w.kw, o));
                let j = bucket_of(kkey(w.kw, o), m.n);
                lemma_bucket_range(kkey(w.kw, o), m.n);
                assert(w.cs[j].contains(o));
                let i = choose|i: int| 0 <= i < w.cs[j].len() && w.cs[j][i] == o;
                if j == b { assert(w2.cs[j][i + 1] == o); } else { assert(w2.cs[j][i] == o); }
            }
        }
    }
    // no key twice
    assert(keys_distinct(kw2)) by {
        reveal(keys_distinct);
        assert forall|o1: nat, o2: nat| #[trigger] is_key(kw2, o1) && #[trigger] is_key(kw2, o2) && o1 != o2 implies kkey(kw2, o1) != kkey(kw2, o2) by {
            if o1 != ko && o2 != ko { assert(is_key(w.kw, o1) && is_key(w.kw, o2)); }
            else if o1 == ko { assert(is_key(w.kw, o2)); }
            else { assert(is_key(w.kw, o1)); }
        }
    }
    // value links
    assert(vals_linked(kw2, vw2, w2.vown)) by {
        reveal(vals_linked);
        assert forall|o: nat| #![trigger is_key(kw2, o)] is_key(kw2, o) implies is_val(vw2, kvoff(kw2, o)) && w2.vown[kvoff(kw2, o)] == o by {
            if o != ko { assert(is_key(w.kw, o)); lemma_val_link(w.kw, w.vw, w.vown, o); assert(is_val(w.vw, kvoff(w.kw, o))); }
        }
        assert forall|v: nat| #![trigger is_val(vw2, v)] is_val(vw2, v) implies is_key(kw2, w2.vown[v]) && kvoff(kw2, w2.vown[v]) == v by {
            if v != voff { assert(is_val(w.vw, v)); lemma_val_owner(w.kw, w.vw, w.vown, v); assert(is_key(w.kw, w.vown[v])); }
        }
    }
    lemma_total_update(w.cs, b, seq![ko] + w.cs[b]);
    assert(map_ok(m2, w2));
    // abstract effect
    assert forall|k2: Seq<u8>| #[trigger] lookup(w2, k2) == (if k2 == key { Some(value) } else { lookup(w, k2) }) by {
        if k2 == key {
            lemma_lookup_found(m2, w2, key, ko);
        } else if has_key(w, k2) {
            let o = rec_of(w, k2);
            assert(is_key(w.kw, o) && kkey(w.kw, o) == k2);
            assert(is_key(kw2, o));
            lemma_lookup_found(m2, w2, k2, o);
            reveal(vals_linked);
            assert(is_val(w.vw, kvoff(w.kw, o)));
        } else {
            if has_key(w2, k2) {
                let o = rec_of(w2, k2);
                assert(is_key(kw2, o) && kkey(kw2, o) == k2);
                assert(o != ko);
                assert(is_key(w.kw, o));
            }
        }
    }
}

} // verus!

verus! {
/// two heaps agree on every non-free slot except possibly `x` and `y`
pub open spec fn same_used_except2(w: HeapW, w2: HeapW, x: nat, y: nat) -> bool {
    forall|o: nat| #![trigger w2.slots.dom().contains(o)] #![trigger w.slots.dom().contains(o)] o != x && o != y ==> {
        &&& (w2.slots.dom().contains(o) && !(w2.slots[o].c is Free)) == (w.slots.dom().contains(o) && !(w.slots[o].c is Free))
        &&& (w.slots.dom().contains(o) && !(w.slots[o].c is Free) ==> w2.slots[o] == w.slots[o])
    }
}
pub proof fn lemma_sue_compose(w1: HeapW, w2: HeapW, w3: HeapW, x: nat, y: nat)
    requires same_used_except(w1, w2, x), same_used_except(w2, w3, y)
    ensures same_used_except2(w1, w3, x, y)
{
    assert forall|o: nat| #![trigger w3.slots.dom().contains(o)] #![trigger w1.slots.dom().contains(o)] o != x && o != y implies {
        &&& (w3.slots.dom().contains(o) && !(w3.slots[o].c is Free)) == (w1.slots.dom().contains(o) && !(w1.slots[o].c is Free))
        &&& (w1.slots.dom().contains(o) && !(w1.slots[o].c is Free) ==> w3.slots[o] == w1.slots[o])
    } by {
        assert(w2.slots.dom().contains(o) || !w2.slots.dom().contains(o));
    }
}

/// the value of the entry whose key record is `ko` is replaced (possibly in another value slot); the key record keeps its place
pub proof fn lemma_map_update(m: MapB, m2: MapB, w: MapW, kw2: HeapW, vw2: HeapW, ko: nat, voff2: nat, value: Seq<u8>)
    requires
        map_ok(m, w), is_key(w.kw, ko), m2.n == m.n, m2.kpm == m.kpm, m2.vpm == m.vpm, m2.hb == m.hb,
        heap_ok(m2.kb, m2.kpm, kw2), heap_ok(m2.vb, m2.vpm, vw2),
        same_used_except(w.kw, kw2, ko), is_key(kw2, ko),
        kkey(kw2, ko) == kkey(w.kw, ko), knext(kw2, ko) == knext(w.kw, ko), kvoff(kw2, ko) == voff2,
        same_used_except2(w.vw, vw2, kvoff(w.kw, ko), voff2), is_val(vw2, voff2), vval(vw2, voff2) == value,
        voff2 != kvoff(w.kw, ko) ==> !(vw2.slots.dom().contains(kvoff(w.kw, ko)) && !(vw2.slots[kvoff(w.kw, ko)].c is Free)) && !is_val(w.vw, voff2),
    ensures ({
        let w2 = MapW { kw: kw2, vw: vw2, cs: w.cs, vown: w.vown.remove(kvoff(w.kw, ko)).insert(voff2, ko) };
        map_ok(m2, w2) && is_insert(w, w2, kkey(w.kw, ko), value)
    })
{
    let voff = kvoff(w.kw, ko);
    let key = kkey(w.kw, ko);
    let w2 = MapW { kw: kw2, vw: vw2, cs: w.cs, vown: w.vown.remove(voff).insert(voff2, ko) };
    lemma_val_link(w.kw, w.vw, w.vown, ko);
    assert forall|o: nat| #![trigger is_key(w.kw, o)] is_key(w.kw, o) && o != ko implies is_key(kw2, o) && kw2.slots[o] == w.kw.slots[o] by {
        assert(w.kw.slots.dom().contains(o) && !(w.kw.slots[o].c is Free));
        assert(kw2.slots.dom().contains(o));
    }
    assert forall|o: nat| #![trigger is_key(kw2, o)] is_key(kw2, o) && o != ko implies is_key(w.kw, o) && kw2.slots[o] == w.kw.slots[o] by {
        assert(kw2.slots.dom().contains(o) && !(kw2.slots[o].c is Free));
    }
    assert forall|v: nat| #![trigger is_val(w.vw, v)] is_val(w.vw, v) && v != voff && v != voff2 implies is_val(vw2, v) && vw2.slots[v] == w.vw.slots[v] by {
        assert(w.vw.slots.dom().contains(v) && !(w.vw.slots[v].c is Free));
        assert(vw2.slots.dom().contains(v));
    }
    assert forall|v: nat| #![trigger is_val(vw2, v)] is_val(vw2, v) && v != voff && v != voff2 implies is_val(w.vw, v) && vw2.slots[v] == w.vw.slots[v] by {
        assert(vw2.slots.dom().contains(v) && !(vw2.slots[v].c is Free));
    }
    assert(kinds_ok(kw2, vw2)) by {
        reveal(kinds_ok);
        assert forall|o: nat| #[trigger] kw2.slots.dom().contains(o) implies kw2.slots[o].c is Key || kw2.slots[o].c is Free by {
            if o != ko && !(kw2.slots[o].c is Free) { assert(w.kw.slots.dom().contains(o)); }
        }
        assert forall|o: nat| #[trigger] vw2.slots.dom().contains(o) implies vw2.slots[o].c is Val || vw2.slots[o].c is Free by {
            if o != voff && o != voff2 && !(vw2.slots[o].c is Free) { assert(w.vw.slots.dom().contains(o)); }

        }
    }
    assert forall|j: int| 0 <= j < m.n implies #[trigger] chain_ok(kw2, bucket(m2.hb, j), w2.cs[j], j, m.n) by {
        assert(chain_ok(w.kw, bucket(m.hb, j), w.cs[j], j, m.n));
        lemma_chain_same_links(w.kw, kw2, bucket(m.hb, j), w.cs[j], j, m.n, ko);
    }
    assert(all_on_chains(kw2, m.n, w2.cs)) by {
        reveal(all_on_chains);
        assert forall|o: nat| #[trigger] is_key(kw2, o) implies w2.cs[bucket_of(kkey(kw2, o), m.n)].contains(o) by {
            assert(is_key(w.kw, o));
        }
    }
    assert(keys_distinct(kw2)) by {
        reveal(keys_distinct);
        assert forall|o1: nat, o2: nat| #[trigger] is_key(kw2, o1) && #[trigger] is_key(kw2, o2) && o1 != o2 implies kkey(kw2, o1) != kkey(kw2, o2) by {
            assert(is_key(w.kw, o1) && is_key(w.kw, o2));
        }
    }
    assert(vals_linked(kw2, vw2, w2.vown)) by {
        reveal(vals_linked);
        assert forall|o: nat| #![trigger is_key(kw2, o)] is_key(kw2, o) implies is_val(vw2, kvoff(kw2, o)) && w2.vown[kvoff(kw2, o)] == o by {
            if o != ko {
                assert(is_key(w.kw, o));
                assert(is_val(w.vw, kvoff(w.kw, o)) && w.vown[kvoff(w.kw, o)] == o);
                assert(kvoff(w.kw, o) != voff);
            }
        }
        assert forall|v: nat| #![trigger is_val(vw2, v)] is_val(vw2, v) implies is_key(kw2, w2.vown[v]) && kvoff(kw2, w2.vown[v]) == v by {
            if v != voff2 {
                assert(v != voff);
                assert(is_val(w.vw, v));
                assert(is_key(w.kw, w.vown[v]) && kvoff(w.kw, w.vown[v]) == v);
                assert(w.vown[v] != ko);
            }
        }
    }
    assert(map_ok(m2, w2));
    assert forall|k2: Seq<u8>| #[trigger] lookup(w2, k2) == (if k2 == key { Some(value) } else { lookup(w, k2) }) by {
        if k2 == key {
            lemma_lookup_found(m2, w2, key, ko);
        } else if has_key(w, k2) {
            let o = rec_of(w, k2);
            assert(is_key(w.kw, o) && kkey(w.kw, o) == k2);
            assert(o != ko);
            assert(is_key(kw2, o));
            lemma_lookup_found(m2, w2, k2, o);
            lemma_val_link(w.kw, w.vw, w.vown, o);
            assert(kvoff(w.kw, o) != voff);
            if kvoff(w.kw, o) == voff2 { assert(voff2 != voff); }
        } else {
            if has_key(w2, k2) {
                let o = rec_of(w2, k2);
                assert(is_key(kw2, o) && kkey(kw2, o) == k2);
                assert(is_key(w.kw, o));
            }
        }
    }
}

/// a chain survives when one member keeps its key and link (its value offset may change) and all other members are untouched
pub proof fn lemma_chain_same_links(kw: HeapW, kw2: HeapW, head: nat, s: Seq<nat>, b: int, n: int, ko: nat)
    requires chain_ok(kw, head, s, b, n), same_used_except(kw, kw2, ko),
        is_key(kw, ko) ==> is_key(kw2, ko) && kkey(kw2, ko) == kkey(kw, ko) && knext(kw2, ko) == knext(kw, ko),
    ensures chain_ok(kw2, head, s, b, n)
{
    lemma_chain_head(kw, head, s, b, n);
    assert forall|i: int| 0 <= i < s.len() implies #[trigger] chain_member_ok(kw2, s, b, n, i) by {
        lemma_chain_member(kw, head, s, b, n, i);
        if s[i] != ko {
            assert(kw.slots.dom().contains(s[i]) && !(kw.slots[s[i]].c is Free));
            assert(kw2.slots.dom().contains(s[i]));
        }
    }
    assert forall|i: int, j: int| 0 <= i < j < s.len() implies s[i] != s[j] by {
        lemma_chain_member(kw, head, s, b, n, i);
    }
    assert(chain_members_ok(kw2, s, b, n));
    assert(chain_distinct(s));
    assert(chain_ok(kw2, head, s, b, n)) by { reveal(chain_ok); }
}
} // verus!

verus! {
pub proof fn lemma_total_ge(cs: Seq<Seq<nat>>, b: int)
    requires 0 <= b < cs.len()
    ensures total(cs) >= cs[b].len()
    decreases cs.len()
{
    if b < cs.len() - 1 { lemma_total_ge(cs.drop_last(), b); }
}

/// the entry whose key record is chain member i of its bucket is removed; both records are freed
pub proof fn lemma_map_del(m: MapB, m2: MapB, w: MapW, kw2: HeapW, vw2: HeapW, ko: nat, i: int)
    requires
        map_ok(m, w), is_key(w.kw, ko), m2.n == m.n, m2.kpm == m.kpm, m2.vpm == m.vpm,
        0 <= i < w.cs[bucket_of(kkey(w.kw, ko), m.n)].len(), w.cs[bucket_of(kkey(w.kw, ko), m.n)][i] == ko,
        heap_ok(m2.kb, m2.kpm, kw2), heap_ok(m2.vb, m2.vpm, vw2),
        same_used_except2(w.kw, kw2, ko, prev_of(w.cs[bucket_of(kkey(w.kw, ko), m.n)], i)),
        kw2.slots.dom().contains(ko) && kw2.slots[ko].c is Free,
        i > 0 ==> ({
            let p = prev_of(w.cs[bucket_of(kkey(w.kw, ko), m.n)], i);
            is_key(kw2, p) && kkey(kw2, p) == kkey(w.kw, p) && kvoff(kw2, p) == kvoff(w.kw, p) && knext(kw2, p) == knext(w.kw, ko)
        }),
        same_used_except(w.vw, vw2, kvoff(w.kw, ko)), vw2.slots.dom().contains(kvoff(w.kw, ko)) && vw2.slots[kvoff(w.kw, ko)].c is Free,
        htx_wf(m2.hb, m2.n),
        bucket(m2.hb, bucket_of(kkey(w.kw, ko), m.n)) == (if i == 0 { knext(w.kw, ko) } else { bucket(m.hb, bucket_of(kkey(w.kw, ko), m.n)) }),
        forall|j: int| 0 <= j < m.n && j != bucket_of(kkey(w.kw, ko), m.n) ==> #[trigger] bucket(m2.hb, j) == bucket(m.hb, j),
        htx_count(m.hb) > 0 ==> htx_count(m2.hb) == htx_count(m.hb) - 1,
        htx_count(m.hb) == 0 ==> htx_count(m2.hb) == 0,
    ensures ({
        let b = bucket_of(kkey(w.kw, ko), m.n);
        let w2 = MapW { kw: kw2, vw: vw2, cs: w.cs.update(b, rm(w.cs[b], i)), vown: w.vown.remove(kvoff(w.kw, ko)) };
        map_ok(m2, w2) && is_remove(w, w2, kkey(w.kw, ko))
    })
{
    let key = kkey(w.kw, ko);
    let b = bucket_of(key, m.n);
    let s = w.cs[b];
    let voff = kvoff(w.kw, ko);
    let p = prev_of(s, i);
    let w2 = MapW { kw: kw2, vw: vw2, cs: w.cs.update(b, rm(s, i)), vown: w.vown.remove(voff) };
    lemma_bucket_range(key, m.n);
    lemma_val_link(w.kw, w.vw, w.vown, ko);
    assert(chain_ok(w.kw, bucket(m.hb, b), s, b, m.n));
    lemma_chain_member(w.kw, bucket(m.hb, b), s, b, m.n, i);
    if i > 0 { lemma_chain_member(w.kw, bucket(m.hb, b), s, b, m.n, i - 1); }
    // slot 0 is never a slot
    if w.kw.slots.dom().contains(0) { assert(slot_ok(m.kb, 0, w.kw.slots[0])); lemma_slot_bounds(m.kb, 0, w.kw.slots[0]); }
    if kw2.slots.dom().contains(0) { assert(slot_ok(m2.kb, 0, kw2.slots[0])); lemma_slot_bounds(m2.kb, 0, kw2.slots[0]); }
    assert forall|o: nat| #![trigger is_key(w.kw, o)] is_key(w.kw, o) && o != ko implies is_key(kw2, o) && kkey(kw2, o) == kkey(w.kw, o) && kvoff(kw2, o) == kvoff(w.kw, o) by {
        if o != p {
            assert(w.kw.slots.dom().contains(o) && !(w.kw.slots[o].c is Free));
            assert(kw2.slots.dom().contains(o));
        }
    }
    assert forall|o: nat| #![trigger is_key(kw2, o)] is_key(kw2, o) implies is_key(w.kw, o) && o != ko && kkey(kw2, o) == kkey(w.kw, o) && kvoff(kw2, o) == kvoff(w.kw, o) by {
        if o != p {
            assert(kw2.slots.dom().contains(o) && !(kw2.slots[o].c is Free));
        }
    }
    assert forall|o: nat| #![trigger kw2.slots[o]] is_key(w.kw, o) && o != ko && o != p implies kw2.slots[o] == w.kw.slots[o] by {
        assert(w.kw.slots.dom().contains(o) && !(w.kw.slots[o].c is Free));
        assert(kw2.slots.dom().contains(o));
    }
    assert forall|v: nat| #![trigger is_val(w.vw, v)] is_val(w.vw, v) && v != voff implies is_val(vw2, v) && vw2.slots[v] == w.vw.slots[v] by {
        assert(w.vw.slots.dom().contains(v) && !(w.vw.slots[v].c is Free));
        assert(vw2.slots.dom().contains(v));
    }
    assert forall|v: nat| #![trigger is_val(vw2, v)] is_val(vw2, v) implies is_val(w.vw, v) && vw2.slots[v] == w.vw.slots[v] && v != voff by {
        assert(vw2.slots.dom().contains(v) && !(vw2.slots[v].c is Free));
    }
    assert(kinds_ok(kw2, vw2)) by {
        reveal(kinds_ok);
        assert forall|o: nat| #[trigger] kw2.slots.dom().contains(o) implies kw2.slots[o].c is Key || kw2.slots[o].c is Free by {
            if o != ko && o != p && !(kw2.slots[o].c is Free) { assert(w.kw.slots.dom().contains(o)); lemma_kinds(w.kw, w.vw, o); }
            if o == p && i > 0 { assert(is_key(kw2, p)); }
        }
        assert forall|o: nat| #[trigger] vw2.slots.dom().contains(o) implies vw2.slots[o].c is Val || vw2.slots[o].c is Free by {
            if o != voff && !(vw2.slots[o].c is Free) { assert(w.vw.slots.dom().contains(o)); lemma_kinds(w.kw, w.vw, o); }
        }
    }
    // chains
    assert forall|j: int| 0 <= j < m.n implies #[trigger] chain_ok(kw2, bucket(m2.hb, j), w2.cs[j], j, m.n) by {
        assert(chain_ok(w.kw, bucket(m.hb, j), w.cs[j], j, m.n));
        let sj = w.cs[j];
        if j == b {
            assert forall|t: int| 0 <= t < s.len() && t != i && t != i - 1 implies #[trigger] is_key(kw2, s[t]) by { lemma_chain_member(w.kw, bucket(m.hb, b), s, b, m.n, t); }
            assert forall|t: int| 0 <= t < s.len() && t != i && t != i - 1 implies kw2.slots[#[trigger] s[t]] == w.kw.slots[s[t]] by { lemma_chain_member(w.kw, bucket(m.hb, b), s, b, m.n, t); }
            lemma_chain_remove(w.kw, kw2, bucket(m.hb, b), s, b, m.n, i);
            lemma_chain_head(w.kw, bucket(m.hb, b), s, b, m.n);
        } else {
            // members of other chains hash elsewhere, so they are neither ko nor p
            assert forall|t: int| 0 <= t < sj.len() implies #[trigger] is_key(kw2, sj[t]) by {
                lemma_chain_member(w.kw, bucket(m.hb, j), sj, j, m.n, t);
                if i > 0 && sj[t] == p { assert(bucket_of(kkey(w.kw, p), m.n) == b); }
            }
            assert forall|t: int| 0 <= t < sj.len() implies kw2.slots[#[trigger] sj[t]] == w.kw.slots[sj[t]] by {
                lemma_chain_member(w.kw, bucket(m.hb, j), sj, j, m.n, t);
                if i > 0 && sj[t] == p { assert(bucket_of(kkey(w.kw, p), m.n) == b); }
            }
            lemma_chain_frame(w.kw, kw2, bucket(m.hb, j), sj, j, m.n);
        }
    }
    assert(all_on_chains(kw2, m.n, w2.cs)) by {
        reveal(all_on_chains);
        assert forall|o: nat| #[trigger] is_key(kw2, o) implies w2.cs[bucket_of(kkey(kw2, o), m.n)].contains(o) by {
            assert(is_key(w.kw, o) && o != ko && kkey(kw2, o) == kkey(w.kw, o));
            let j = bucket_of(kkey(w.kw, o), m.n);
            lemma_bucket_range(kkey(w.kw, o), m.n);
            assert(w.cs[j].contains(o));
            let t = choose|t: int| 0 <= t < w.cs[j].len() && w.cs[j][t] == o;
            if j == b {
                assert(t != i);
                let t1 = if t < i { t } else { t - 1 };
                assert(rm(s, i)[t1] == o);
            } else { assert(w2.cs[j][t] == o); }
        }
    }
    assert(keys_distinct(kw2)) by {
        reveal(keys_distinct);
        assert forall|o1: nat, o2: nat| #[trigger] is_key(kw2, o1) && #[trigger] is_key(kw2, o2) && o1 != o2 implies kkey(kw2, o1) != kkey(kw2, o2) by {
            assert(is_key(w.kw, o1) && is_key(w.kw, o2));
            assert(kkey(kw2, o1) == kkey(w.kw, o1) && kkey(kw2, o2) == kkey(w.kw, o2));
        }
    }
    assert(vals_linked(kw2, vw2, w2.vown)) by {
        reveal(vals_linked);
        assert forall|o: nat| #![trigger is_key(kw2, o)] is_key(kw2, o) implies is_val(vw2, kvoff(kw2, o)) && w2.vown[kvoff(kw2, o)] == o by {
            assert(is_key(w.kw, o) && o != ko);
            assert(kvoff(kw2, o) == kvoff(w.kw, o));
            assert(is_val(w.vw, kvoff(w.kw, o)) && w.vown[kvoff(w.kw, o)] == o);
            assert(kvoff(w.kw, o) != voff);
        }
        assert forall|v: nat| #![trigger is_val(vw2, v)] is_val(vw2, v) implies is_key(kw2, w2.vown[v]) && kvoff(kw2, w2.vown[v]) == v by {
            assert(is_val(w.vw, v) && v != voff);
            assert(is_key(w.kw, w.vown[v]) && kvoff(w.kw, w.vown[v]) == v);
            assert(w.vown[v] != ko);
            assert(is_key(kw2, w.vown[v]));
        }
    }
    lemma_total_update(w.cs, b, rm(s, i));
    lemma_total_ge(w.cs, b);
    assert(map_ok(m2, w2));
    assert forall|k2: Seq<u8>| #[trigger] lookup(w2, k2) == (if k2 == key { None } else { lookup(w, k2) }) by {
        if k2 == key {
            if has_key(w2, k2) {
                let o = rec_of(w2, k2);
                assert(is_key(kw2, o) && kkey(kw2, o) == k2);
                assert(is_key(w.kw, o) && o != ko);
                lemma_keys_distinct(w.kw, o, ko);
            }
        } else if has_key(w, k2) {
            let o = rec_of(w, k2);
            assert(is_key(w.kw, o) && kkey(w.kw, o) == k2);
            assert(o != ko);
            assert(is_key(kw2, o));
            assert(kkey(kw2, o) == k2 && kvoff(kw2, o) == kvoff(w.kw, o));
            lemma_lookup_found(m2, w2, k2, o);
            lemma_val_link(w.kw, w.vw, w.vown, o);
            assert(kvoff(w.kw, o) != voff);
        } else {
            if has_key(w2, k2) {
                let o = rec_of(w2, k2);
                assert(is_key(kw2, o) && kkey(kw2, o) == k2);
                assert(is_key(w.kw, o));
                assert(kkey(w.kw, o) == k2);
            }
        }
    }
}
} // verus!

verus! {
/// slot-level effect of write_piece on a used slot `off` (see w_write)
pub proof fn lemma_write_effect(b: Seq<u8>, pm: PieceMgr, w: HeapW, off: nat, need: nat, c: SlotC)
    requires heap_ok(b, pm, w), w.slots.dom().contains(off), !(w.slots[off].c is Free), is_slot_size(need), !(c is Free), !(c is Cleared),
        need > w.slots[off].size ==> exists|ba: Seq<u8>| #[trigger] heap_ok(ba, pm, w_push(w, off)) && ba.len() == b.len(),
    ensures ({
        let t = w_write(w, b.len(), false, off, need, c);
        &&& t.0.slots.dom().contains(t.1) && t.0.slots[t.1] == SlotW { size: t.2, c: c }
        &&& t.1 != 0 && t.1 % 8 == 0
        &&& need <= w.slots[off].size ==> t.1 == off && same_used_except(w, t.0, off)
        &&& need > w.slots[off].size ==> {
                &&& t.1 != off && same_used_except2(w, t.0, off, t.1)
                &&& !(t.0.slots.dom().contains(off) && !(t.0.slots[off].c is Free))
                &&& (!w.slots.dom().contains(t.1) || w.slots[t.1].c is Free)
            }
    })
{
    assert(slot_ok(b, off, w.slots[off]));
    lemma_slot_bounds(b, off, w.slots[off]);
    if need <= w.slots[off].size {
        lemma_set_effect(w, off, SlotW { size: w.slots[off].size, c: c });
    } else {
        let ba = choose|ba: Seq<u8>| #[trigger] heap_ok(ba, pm, w_push(w, off)) && ba.len() == b.len();
        let wp = w_push(w, off);
        lemma_push_effect(b, pm, w, off);
        lemma_alloc_effect(ba, pm, wp, need, c);
        let t = w_alloc(wp, ba.len(), need, c);
        lemma_sue_compose(w, wp, t.0, off, t.1);
        // the allocated slot is not the one just freed: it is at least `need` bytes, or it is new
        let cl = class_idx(need); let k = pop_idx(wp, need);
        if need >= 1024 { lemma_ff_range(wp.slots, wp.lists[15], need, 0); }
        if k < wp.lists[cl].len() {
            lemma_member_decodes(ba, pm, wp, cl, k);
            if need < 1024 { lemma_class_exact(need, wp.slots[t.1].size); }
        } else {
            lemma_tiling_append(ba.len(), wp.slots, SlotW { size: need, c: c });
        }
        assert(t.1 != off);
        if w.slots.dom().contains(t.1) && !(w.slots[t.1].c is Free) {
            assert(wp.slots.dom().contains(t.1) && !(wp.slots[t.1].c is Free));
        }
    }
}
/// an exact-size class holds only slots of exactly that size
pub proof fn lemma_class_exact(need: nat, size: nat)
    requires is_slot_size(need), need < 1024, is_slot_size(size), class_idx(size) == class_idx(need)
    ensures size == need
{}
} // verus!

verus! {
/// the item count lives in header bytes 24..32
pub proof fn lemma_rd_count_same(hb: Seq<u8>, hb2: Seq<u8>)
    requires hb.len() >= 128, hb2.len() >= 128, rd(hb2, 0, 128) == rd(hb, 0, 128)
    ensures htx_count(hb2) == htx_count(hb), htx_stored_n(hb2) == htx_stored_n(hb)
{
    assert(rd(hb2, 24, 8) =~= rd(rd(hb2, 0, 128), 24, 8));
    assert(rd(hb, 24, 8) =~= rd(rd(hb, 0, 128), 24, 8));
    assert(rd(hb2, 16, 8) =~= rd(rd(hb2, 0, 128), 16, 8));
    assert(rd(hb, 16, 8) =~= rd(rd(hb, 0, 128), 16, 8));
}
} // verus!

verus! {
pub proof fn lemma_sue2_swap(w: HeapW, w2: HeapW, x: nat, y: nat)
    requires same_used_except2(w, w2, x, y)
    ensures same_used_except2(w, w2, y, x)
{}
pub proof fn lemma_sue_to_2(w: HeapW, w2: HeapW, x: nat, y: nat)
    requires same_used_except(w, w2, x)
    ensures same_used_except2(w, w2, x, y)
{}
/// the count field was decremented (or left at 0) by write_item_count_down: everything else in the table is unchanged
pub proof fn lemma_count_bytes(hb1: Seq<u8>, hb2: Seq<u8>, n: int)
    requires htx_wf(hb1, n),
        htx_count(hb1) > 0 ==> hb2 == write_at(hb1, 24, le_bytes((htx_count(hb1) - 1) as nat, 8)),
        htx_count(hb1) == 0 ==> hb2 == hb1,
    ensures htx_wf(hb2, n), forall|i: int| 0 <= i < n ==> #[trigger] bucket(hb2, i) == bucket(hb1, i),
        htx_count(hb1) > 0 ==> htx_count(hb2) == htx_count(hb1) - 1, htx_count(hb1) == 0 ==> htx_count(hb2) == 0
{
    if htx_count(hb1) > 0 {
        lemma_le_val_bound(rd(hb1, 24, 8));
        assert(pow256(8) == 0x1_0000_0000_0000_0000) by { reveal_with_fuel(pow256, 9); }
        lemma_count_write(hb1, n, (htx_count(hb1) - 1) as nat);
    }
}
} // verus!

verus! {
/// del_kt, key found: everything the real function establishes (callee postconditions, w-generic) ==> the map-level result
#[verifier::rlimit(300)]
pub proof fn lemma_del_kt_found(m: MapB, m2: MapB, kb1: Seq<u8>, hb1: Seq<u8>, w0: MapW, key: Seq<u8>, ko: nat, po: nat, i0: int)
    requires
        map_ok(m, w0), m2.n == m.n, m2.kpm == m.kpm, m2.vpm == m.vpm, 0 <= bucket_of(key, m.n) < m.n,
        0 <= i0 < w0.cs[bucket_of(key, m.n)].len(), w0.cs[bucket_of(key, m.n)][i0] == ko, kkey(w0.kw, ko) == key, po == prev_of(w0.cs[bucket_of(key, m.n)], i0),
        is_key(w0.kw, ko),
        // value record freed
        forall|wv: HeapW| #[trigger] val_at(m.vb, m.vpm, wv, kvoff(w0.kw, ko)) ==> heap_ok(m2.vb, m.vpm, w_push(wv, kvoff(w0.kw, ko))),
        // predecessor relinked in place (i0 > 0), key file otherwise untouched before the key record is freed
        i0 == 0 ==> kb1 == m.kb,
        i0 > 0 ==> (forall|wk: HeapW| #[trigger] heap_ok(m.kb, m.kpm, wk) && key_pre(m.kb, m.kpm, wk, false, po) ==> ({
            let t = w_write(wk, m.kb.len(), false, po, key_need(kkey(w0.kw, po), kvoff(w0.kw, po), knext(w0.kw, ko)), SlotC::Key(kkey(w0.kw, po), kvoff(w0.kw, po), knext(w0.kw, ko)));
            heap_ok(kb1, m.kpm, t.0) && t.1 == po
            && (key_need(kkey(w0.kw, po), kvoff(w0.kw, po), knext(w0.kw, ko)) > wk.slots[po].size ==> exists|ba: Seq<u8>| #[trigger] heap_ok(ba, m.kpm, w_push(wk, po)) && ba.len() == m.kb.len())
        })),
        // key record freed
        forall|wk: HeapW| #[trigger] key_at(kb1, m.kpm, wk, ko) ==> heap_ok(m2.kb, m.kpm, w_push(wk, ko)),
        // table
        htx_wf(m2.hb, m2.n),
        bucket(m2.hb, bucket_of(key, m.n)) == (if i0 == 0 { knext(w0.kw, ko) } else { bucket(m.hb, bucket_of(key, m.n)) }),
        forall|j: int| 0 <= j < m.n && j != bucket_of(key, m.n) ==> #[trigger] bucket(m2.hb, j) == bucket(m.hb, j),
        htx_count(m.hb) > 0 ==> htx_count(m2.hb) == htx_count(m.hb) - 1,
        htx_count(m.hb) == 0 ==> htx_count(m2.hb) == 0,
        forall|w: MapW, o: nat| #[trigger] map_ok(m, w) && #[trigger] is_key(w.kw, o) ==> kkey(w.kw, o).len() <= 0x1_0000,
    ensures
        forall|w: MapW| #[trigger] map_ok(m, w) ==>
            lookup(w, key) == Some(vval(w0.vw, kvoff(w0.kw, ko)))
            && exists|w2: MapW| #[trigger] map_ok(m2, w2) && is_remove(w, w2, key)
{
    let b = bucket_of(key, m.n);
    assert forall|w: MapW| #[trigger] map_ok(m, w) implies
        lookup(w, key) == Some(vval(w0.vw, kvoff(w0.kw, ko)))
        && exists|w2: MapW| #[trigger] map_ok(m2, w2) && is_remove(w, w2, key) by {
        lemma_del_kt_found_one(m, m2, kb1, hb1, w0, w, key, ko, po, i0);
    }
}

#[verifier::rlimit(300)]
pub proof fn lemma_del_kt_found_one(m: MapB, m2: MapB, kb1: Seq<u8>, hb1: Seq<u8>, w0: MapW, w: MapW, key: Seq<u8>, ko: nat, po: nat, i0: int)
    requires
        map_ok(m, w0), map_ok(m, w), m2.n == m.n, m2.kpm == m.kpm, m2.vpm == m.vpm, 0 <= bucket_of(key, m.n) < m.n,
        0 <= i0 < w0.cs[bucket_of(key, m.n)].len(), w0.cs[bucket_of(key, m.n)][i0] == ko, kkey(w0.kw, ko) == key, po == prev_of(w0.cs[bucket_of(key, m.n)], i0),
        is_key(w0.kw, ko),
        forall|wv: HeapW| #[trigger] val_at(m.vb, m.vpm, wv, kvoff(w0.kw, ko)) ==> heap_ok(m2.vb, m.vpm, w_push(wv, kvoff(w0.kw, ko))),
        i0 == 0 ==> kb1 == m.kb,
        i0 > 0 ==> (forall|wk: HeapW| #[trigger] heap_ok(m.kb, m.kpm, wk) && key_pre(m.kb, m.kpm, wk, false, po) ==> ({
            let t = w_write(wk, m.kb.len(), false, po, key_need(kkey(w0.kw, po), kvoff(w0.kw, po), knext(w0.kw, ko)), SlotC::Key(kkey(w0.kw, po), kvoff(w0.kw, po), knext(w0.kw, ko)));
            heap_ok(kb1, m.kpm, t.0) && t.1 == po
            && (key_need(kkey(w0.kw, po), kvoff(w0.kw, po), knext(w0.kw, ko)) > wk.slots[po].size ==> exists|ba: Seq<u8>| #[trigger] heap_ok(ba, m.kpm, w_push(wk, po)) && ba.len() == m.kb.len())
        })),
        forall|wk: HeapW| #[trigger] key_at(kb1, m.kpm, wk, ko) ==> heap_ok(m2.kb, m.kpm, w_push(wk, ko)),
        htx_wf(m2.hb, m2.n),
        bucket(m2.hb, bucket_of(key, m.n)) == (if i0 == 0 { knext(w0.kw, ko) } else { bucket(m.hb, bucket_of(key, m.n)) }),
        forall|j: int| 0 <= j < m.n && j != bucket_of(key, m.n) ==> #[trigger] bucket(m2.hb, j) == bucket(m.hb, j),
        htx_count(m.hb) > 0 ==> htx_count(m2.hb) == htx_count(m.hb) - 1,
        htx_count(m.hb) == 0 ==> htx_count(m2.hb) == 0,
        forall|w: MapW, o: nat| #[trigger] map_ok(m, w) && #[trigger] is_key(w.kw, o) ==> kkey(w.kw, o).len() <= 0x1_0000,
    ensures
        lookup(w, key) == Some(vval(w0.vw, kvoff(w0.kw, ko))),
        exists|w2: MapW| #[trigger] map_ok(m2, w2) && is_remove(w, w2, key)
{
    let b = bucket_of(key, m.n);
    let s = w.cs[b];
    lemma_chain_unique(m, w0, w, b);
    assert(chain_ok(w.kw, bucket(m.hb, b), s, b, m.n));
    assert(chain_ok(w0.kw, bucket(m.hb, b), s, b, m.n));
    lemma_chain_member(w.kw, bucket(m.hb, b), s, b, m.n, i0);
    lemma_chain_member(w0.kw, bucket(m.hb, b), s, b, m.n, i0);
    lemma_key_same(m, w0, w, ko);
    lemma_lookup_found(m, w, key, ko);
    lemma_val_link(w.kw, w.vw, w.vown, ko);
    lemma_val_link(w0.kw, w0.vw, w0.vown, ko);
    let voff = kvoff(w.kw, ko);
    lemma_val_same(m, w0, w, voff);
    assert(val_at(m.vb, m.vpm, w.vw, voff));
    let vw2 = w_push(w.vw, voff);
    assert(heap_ok(m2.vb, m.vpm, vw2));
    lemma_push_effect(m.vb, m.vpm, w.vw, voff);
    lemma_total_ge(w.cs, b);
    if i0 > 0 {
        let p = s[i0 - 1];
        lemma_chain_member(w.kw, bucket(m.hb, b), s, b, m.n, i0 - 1);
        lemma_chain_member(w0.kw, bucket(m.hb, b), s, b, m.n, i0 - 1);
        lemma_key_same(m, w0, w, p);
        lemma_key_decodes(m.kb, m.kpm, w.kw, p);
        lemma_key_decodes(m.kb, m.kpm, w.kw, ko);
        let kc = SlotC::Key(kkey(w.kw, p), kvoff(w.kw, p), knext(w.kw, ko));
        let kn = key_need(kkey(w.kw, p), kvoff(w.kw, p), knext(w.kw, ko));
        lemma_roundup_key(kkey(w.kw, p), kvoff(w.kw, p), knext(w.kw, ko));
        assert(heap_ok(m.kb, m.kpm, w.kw) && key_pre(m.kb, m.kpm, w.kw, false, p));
        let tk = w_write(w.kw, m.kb.len(), false, p, kn, kc);
        assert(heap_ok(kb1, m.kpm, tk.0) && tk.1 == p);
        lemma_write_effect(m.kb, m.kpm, w.kw, p, kn, kc);
        assert(kn <= w.kw.slots[p].size);
        assert(tk.0.slots.dom().contains(ko) && tk.0.slots[ko] == w.kw.slots[ko]);
        assert(key_at(kb1, m.kpm, tk.0, ko));
        let kw2 = w_push(tk.0, ko);
        assert(heap_ok(m2.kb, m.kpm, kw2));
        lemma_push_effect(kb1, m.kpm, tk.0, ko);
        lemma_sue_compose(w.kw, tk.0, kw2, p, ko);
        lemma_sue2_swap(w.kw, kw2, p, ko);
        lemma_map_del(m, m2, w, kw2, vw2, ko, i0);
        let w2 = MapW { kw: kw2, vw: vw2, cs: w.cs.update(b, rm(s, i0)), vown: w.vown.remove(voff) };
        assert(map_ok(m2, w2) && is_remove(w, w2, key));
    } else {
        assert(key_at(kb1, m.kpm, w.kw, ko));
        let kw2 = w_push(w.kw, ko);
        assert(heap_ok(m2.kb, m.kpm, kw2));
        lemma_push_effect(m.kb, m.kpm, w.kw, ko);
        lemma_sue_to_2(w.kw, kw2, ko, 0);
        lemma_map_del(m, m2, w, kw2, vw2, ko, i0);
        let w2 = MapW { kw: kw2, vw: vw2, cs: w.cs.update(b, rm(s, i0)), vown: w.vown.remove(voff) };
        assert(map_ok(m2, w2) && is_remove(w, w2, key));
    }
}
} // verus!

verus! {
/// after the predecessor `p` was rewritten in place, the record `ko` is still a key record of the resulting heap
pub proof fn lemma_prev_rewrite_keeps(kb: Seq<u8>, kb1: Seq<u8>, pm: PieceMgr, wk: HeapW, p: nat, ko: nat, kn: nat, kc: SlotC)
    requires heap_ok(kb, pm, wk), is_key(wk, p), is_key(wk, ko), p != ko, is_slot_size(kn), kc is Key,
        heap_ok(kb1, pm, w_write(wk, kb.len(), false, p, kn, kc).0), w_write(wk, kb.len(), false, p, kn, kc).1 == p,
        kn > wk.slots[p].size ==> exists|ba: Seq<u8>| #[trigger] heap_ok(ba, pm, w_push(wk, p)) && ba.len() == kb.len(),
    ensures key_at(kb1, pm, w_write(wk, kb.len(), false, p, kn, kc).0, ko)
{
    lemma_write_effect(kb, pm, wk, p, kn, kc);
    let t = w_write(wk, kb.len(), false, p, kn, kc);
    assert(kn <= wk.slots[p].size);
    assert(wk.slots.dom().contains(ko) && !(wk.slots[ko].c is Free));
    assert(t.0.slots.dom().contains(ko));
}
} // verus!

verus! {
// ---- iteration order ------------------------------------------------------------------------------------------------
/// number of entries in buckets [0, b)
pub open spec fn upto(cs: Seq<Seq<nat>>, b: int) -> nat
    decreases b
{
    if b <= 0 { 0 } else { upto(cs, b - 1) + cs[b - 1].len() }
}
pub proof fn lemma_upto_total(cs: Seq<Seq<nat>>)
    ensures upto(cs, cs.len() as int) == total(cs)
    decreases cs.len()
{
    if cs.len() > 0 {
        lemma_upto_total(cs.drop_last());
        lemma_upto_prefix(cs, cs.drop_last(), cs.len() - 1);
    }
}
pub proof fn lemma_upto_prefix(cs: Seq<Seq<nat>>, cs2: Seq<Seq<nat>>, b: int)
    requires 0 <= b <= cs.len(), b <= cs2.len(), forall|j: int| 0 <= j < b ==> cs[j] == cs2[j]
    ensures upto(cs, b) == upto(cs2, b)
    decreases b
{
    if b > 0 { lemma_upto_prefix(cs, cs2, b - 1); }
}
/// empty buckets contribute nothing
pub proof fn lemma_upto_empty(cs: Seq<Seq<nat>>, lo: int, hi: int)
    requires 0 <= lo <= hi <= cs.len(), forall|j: int| lo <= j < hi ==> (#[trigger] cs[j]).len() == 0
    ensures upto(cs, hi) == upto(cs, lo)
    decreases hi - lo
{
    if hi > lo { lemma_upto_empty(cs, lo, hi - 1); }
}
pub proof fn lemma_upto_mono(cs: Seq<Seq<nat>>, lo: int, hi: int)
    requires 0 <= lo <= hi <= cs.len()
    ensures upto(cs, lo) <= upto(cs, hi)
    decreases hi - lo
{
    if hi > lo { lemma_upto_mono(cs, lo, hi - 1); }
}
/// k-th entry in iteration order (buckets ascending, chain order inside a bucket)
pub open spec fn entry_at(cs: Seq<Seq<nat>>, b: int, i: int) -> nat { upto(cs, b) + i as nat }

/// iterator state after `k` entries were yielded
pub open spec fn iter_inv(w: MapW, n: int, ko: nat, bidx: int, remaining: nat, k: nat) -> bool {
    &&& k <= total(w.cs) && remaining == total(w.cs) - k
    &&& 0 <= bidx <= n
    &&& ko == 0 ==> (bidx == 0 && k == 0) || (bidx == n && k == total(w.cs))
    &&& ko != 0 ==> bidx >= 1 && exists|i: int| 0 <= i < w.cs[bidx - 1].len() && #[trigger] w.cs[bidx - 1][i] == ko && k == upto(w.cs, bidx - 1) + i + 1
}
} // verus!

verus! {
/// the scan from bucket `from` found the head `ko2` of bucket `to - 1` (or nothing): what that means for the chains
pub proof fn lemma_iter_scan(m: MapB, w: MapW, from: int, to: int, ko2: nat)
    requires map_ok(m, w), 0 <= from <= to <= m.n,
        ko2 == 0 ==> to == m.n && all_empty(m.hb, from, to),
        ko2 != 0 ==> to > from && all_empty(m.hb, from, to - 1) && ko2 == bucket(m.hb, to - 1),
    ensures
        ko2 == 0 ==> upto(w.cs, m.n) == upto(w.cs, from),
        ko2 != 0 ==> upto(w.cs, to - 1) == upto(w.cs, from) && w.cs[to - 1].len() > 0 && w.cs[to - 1][0] == ko2 && upto(w.cs, to) <= total(w.cs),
{
    let hi = if ko2 == 0 { to } else { to - 1 };
    assert forall|j: int| from <= j < hi implies (#[trigger] w.cs[j]).len() == 0 by {
        assert(chain_ok(w.kw, bucket(m.hb, j), w.cs[j], j, m.n));
        lemma_chain_head(w.kw, bucket(m.hb, j), w.cs[j], j, m.n);
        assert(bucket(m.hb, j) == 0);
    }
    lemma_upto_empty(w.cs, from, hi);
    if ko2 != 0 {
        assert(chain_ok(w.kw, bucket(m.hb, to - 1), w.cs[to - 1], to - 1, m.n));
        lemma_chain_head(w.kw, bucket(m.hb, to - 1), w.cs[to - 1], to - 1, m.n);
        lemma_upto_mono(w.cs, to, m.n);
        lemma_upto_total(w.cs);
    }
}
} // verus!
