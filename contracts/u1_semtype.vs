# semtype.rs — unit U1: newtype wrappers. Every function is one line; contracts say exactly that.
@raw
verus! {
// T4 (trusted): #[derive(PartialEq, PartialOrd)] on the newtypes compares the wrapped integer
impl<T: PartialEq> vstd::std_specs::cmp::PartialEqSpecImpl for Offset<T> {
    open spec fn obeys_eq_spec() -> bool { true }
    open spec fn eq_spec(&self, other: &Self) -> bool { self.val == other.val }
}
impl<T: PartialOrd> vstd::std_specs::cmp::PartialOrdSpecImpl for Offset<T> {
    open spec fn obeys_partial_cmp_spec() -> bool { true }
    open spec fn partial_cmp_spec(&self, other: &Self) -> Option<Ordering> {
        if self.val < other.val { Some(Ordering::Less) } else if self.val == other.val { Some(Ordering::Equal) } else { Some(Ordering::Greater) }
    }
}
impl<T: PartialEq> vstd::std_specs::cmp::PartialEqSpecImpl for Size<T> {
    open spec fn obeys_eq_spec() -> bool { true }
    open spec fn eq_spec(&self, other: &Self) -> bool { self.val == other.val }
}
impl<T: PartialOrd> vstd::std_specs::cmp::PartialOrdSpecImpl for Size<T> {
    open spec fn obeys_partial_cmp_spec() -> bool { true }
    open spec fn partial_cmp_spec(&self, other: &Self) -> Option<Ordering> {
        if self.val < other.val { Some(Ordering::Less) } else if self.val == other.val { Some(Ordering::Equal) } else { Some(Ordering::Greater) }
    }
}
impl<T: PartialEq> vstd::std_specs::cmp::PartialEqSpecImpl for Length<T> {
    open spec fn obeys_eq_spec() -> bool { true }
    open spec fn eq_spec(&self, other: &Self) -> bool { self.val == other.val }
}
// conversion specs (R8): spec side of the verbatim `impl From` bodies below
impl<T> vstd::std_specs::convert::FromSpecImpl<Offset<T>> for u64 {
    open spec fn obeys_from_spec() -> bool { true }
    open spec fn from_spec(v: Offset<T>) -> u64 { v.val as u64 }
}
impl<T> vstd::std_specs::convert::FromSpecImpl<Size<T>> for u32 {
    open spec fn obeys_from_spec() -> bool { true }
    open spec fn from_spec(v: Size<T>) -> u32 { v.val as u32 }
}
impl<T> vstd::std_specs::convert::FromSpecImpl<Length<T>> for u32 {
    open spec fn obeys_from_spec() -> bool { true }
    open spec fn from_spec(v: Length<T>) -> u32 { v.val as u32 }
}
impl<T> vstd::std_specs::convert::FromSpecImpl<Size<T>> for usize {
    open spec fn obeys_from_spec() -> bool { true }
    open spec fn from_spec(v: Size<T>) -> usize { v.val as usize }
}
impl<T> vstd::std_specs::convert::FromSpecImpl<Length<T>> for usize {
    open spec fn obeys_from_spec() -> bool { true }
    open spec fn from_spec(v: Length<T>) -> usize { v.val as usize }
}
impl<T> vstd::std_specs::convert::FromSpecImpl<Count<T>> for u16 {
    open spec fn obeys_from_spec() -> bool { true }
    open spec fn from_spec(v: Count<T>) -> u16 { v.val as u16 }
}
// operator specs (R8): the spec side of the verbatim `impl Add/Sub` bodies below
impl<T> vstd::std_specs::ops::AddSpecImpl<Size<T>> for Offset<T> {
    open spec fn obeys_add_spec() -> bool { true }
    open spec fn add_req(self, rhs: Size<T>) -> bool { self.val + rhs.val <= u64::MAX }
    open spec fn add_spec(self, rhs: Size<T>) -> Offset<T> { Offset { val: (self.val + rhs.val) as u64, _phantom: PhantomData } }
}
impl<T> vstd::std_specs::ops::AddSpecImpl<PieceSize<T>> for Offset<T> {
    open spec fn obeys_add_spec() -> bool { true }
    open spec fn add_req(self, rhs: PieceSize<T>) -> bool { self.val + rhs.val <= u64::MAX }
    open spec fn add_spec(self, rhs: PieceSize<T>) -> Offset<T> { Offset { val: (self.val + rhs.val) as u64, _phantom: PhantomData } }
}
impl<T> vstd::std_specs::ops::SubSpecImpl<Offset<T>> for Offset<T> {
    open spec fn obeys_sub_spec() -> bool { true }
    /// no silent truncation: the difference must fit the 32-bit Size
    open spec fn sub_req(self, rhs: Offset<T>) -> bool { self.val >= rhs.val && self.val - rhs.val <= u32::MAX }
    open spec fn sub_spec(self, rhs: Offset<T>) -> Size<T> { Size { val: (self.val - rhs.val) as u32, _phantom: PhantomData } }
}
} // verus!
@end
@type src/filedb/inner/semtype.rs | Piece
@type src/filedb/inner/semtype.rs | Node
@type src/filedb/inner/semtype.rs | Key
@type src/filedb/inner/semtype.rs | Value
@type src/filedb/inner/semtype.rs | Offset
@type src/filedb/inner/semtype.rs | Size
@type src/filedb/inner/semtype.rs | Length
@type src/filedb/inner/semtype.rs | Count
@type src/filedb/inner/semtype.rs | HashValue
@type src/filedb/inner/semtype.rs | PieceOffset
@type src/filedb/inner/semtype.rs | KeyPieceOffset
@type src/filedb/inner/semtype.rs | ValuePieceOffset
@type src/filedb/inner/semtype.rs | NodePieceOffset
@type src/filedb/inner/semtype.rs | PieceSize
@type src/filedb/inner/semtype.rs | KeyPieceSize
@type src/filedb/inner/semtype.rs | ValuePieceSize
@type src/filedb/inner/semtype.rs | NodePieceSize
@type src/filedb/inner/semtype.rs | KeyLength
@type src/filedb/inner/semtype.rs | ValueLength
@type src/filedb/inner/semtype.rs | KeysCount
@fn src/filedb/inner/semtype.rs | impl<T> Offset<T> | new
@serves C09 C05 C01
@ensures
r.val == val
@end
@fn src/filedb/inner/semtype.rs | impl<T> Offset<T> | as_value
@serves C09 C05 C01
@ensures
r == self.val
@end
@fn src/filedb/inner/semtype.rs | impl<T> Offset<T> | is_zero
@serves C09 C05 C01
@ensures
r == (self.val == 0)
@end
@fn src/filedb/inner/semtype.rs | impl<T> Size<T> | new
@serves C09 C05 C01
@ensures
r.val == val
@end
@fn src/filedb/inner/semtype.rs | impl<T> Size<T> | as_value
@serves C09 C05 C01
@ensures
r == self.val
@end
@fn src/filedb/inner/semtype.rs | impl<T> Size<T> | is_zero
@serves C09 C05 C01
@ensures
r == (self.val == 0)
@end
@fn src/filedb/inner/semtype.rs | impl<T> Length<T> | new
@serves C09 C05 C01
@ensures
r.val == val
@end
@fn src/filedb/inner/semtype.rs | impl<T> Length<T> | as_value
@serves C09 C05 C01
@ensures
r == self.val
@end
@fn src/filedb/inner/semtype.rs | impl<T> Length<T> | is_zero
@serves C09 C05 C01
@ensures
r == (self.val == 0)
@end
@fn src/filedb/inner/semtype.rs | impl<T> Count<T> | new
@serves C09 C05 C01
@ensures
r.val == val
@end
@fn src/filedb/inner/semtype.rs | impl<T> Count<T> | as_value
@serves C09 C05 C01
@ensures
r == self.val
@end
@fn src/filedb/inner/semtype.rs | impl<T> Count<T> | is_zero
@serves C09 C05 C01
@ensures
r == (self.val == 0)
@end
@fn src/filedb/inner/semtype.rs | impl HashValue | new
@serves C01 C12
@ensures
r.val == val
@end
@fn src/filedb/inner/semtype.rs | impl HashValue | as_value
@serves C01 C12
@ensures
r == self.val
@end
@fn src/filedb/inner/semtype.rs | impl<T> From<Offset<T>> for u64 | from
@opts keep-trait as=u64::from_Offset
@serves C09 C05 C01
@ensures
r == value.val
@end
@fn src/filedb/inner/semtype.rs | impl<T> From<Size<T>> for u32 | from
@opts keep-trait as=u32::from_Size
@serves C09 C05 C01
@ensures
r == value.val
@end
@fn src/filedb/inner/semtype.rs | impl<T> From<Length<T>> for u32 | from
@opts keep-trait as=u32::from_Length
@serves C09 C05 C01
@ensures
r == value.val
@end
@fn src/filedb/inner/semtype.rs | impl<T> From<Size<T>> for usize | from
@opts keep-trait as=usize::from_Size
@serves C09 C05 C01
@ensures
r == value.val
@end
@fn src/filedb/inner/semtype.rs | impl<T> From<Length<T>> for usize | from
@opts keep-trait as=usize::from_Length
@serves C09 C05 C01
@ensures
r == value.val
@end
@fn src/filedb/inner/semtype.rs | impl<T> From<Count<T>> for u16 | from
@opts keep-trait as=u16::from_Count
@serves C09 C05 C01
@ensures
r == value.val
@end
@fn src/filedb/inner/semtype.rs | impl<T> std::ops::Add<Size<T>> for Offset<T> | add
@opts keep-trait as=Offset::add_Size
@serves C09 C05 C01
@end
@fn src/filedb/inner/semtype.rs | impl<T> std::ops::Add<PieceSize<T>> for Offset<T> | add
@opts keep-trait as=Offset::add_PieceSize
@serves C09 C05 C01
@end
@fn src/filedb/inner/semtype.rs | impl<T> std::ops::Sub<Offset<T>> for Offset<T> | sub
@opts keep-trait as=Offset::sub_Offset
@serves C09 C05 C01
@end
