# piece.rs (second part) — free-list operations with heap-level contracts (needs prelude_heap.rs)
@mod piece2
@raw
verus! {
/// what a caller must know about the slot it frees
pub open spec fn can_push(b: Seq<u8>, pm: PieceMgr, w: HeapW, o: nat, size: nat) -> bool {
    heap_ok(b, pm, w) && w.slots.dom().contains(o) && w.slots[o].size == size && !(w.slots[o].c is Free)
}
} // verus!
@end

@fn src/filedb/inner/piece.rs | impl VarFile | push_free_piece_list
@opts rlimit=60
@serves C06
@requires
old_piece_offset.val == 0 || exists|w: HeapW| #[trigger] can_push(old(self)@.bytes, old(self).piece_mgr, w, old_piece_offset.val as nat, old_piece_size.val as nat)
@ensures
okh(old(self)@, final(self)@, r), final(self).piece_mgr == old(self).piece_mgr,
old_piece_offset.val == 0 ==> r is Ok && final(self)@ == old(self)@,
r is Ok && old_piece_offset.val != 0 ==> forall|w: HeapW| #[trigger] can_push(old(self)@.bytes, old(self).piece_mgr, w, old_piece_offset.val as nat, old_piece_size.val as nat) ==> heap_ok(final(self)@.bytes, old(self).piece_mgr, w_push(w, old_piece_offset.val as nat)),
r is Ok && old_piece_offset.val != 0 ==> final(self)@.unflushed && final(self)@.unsynced
@entry
let ghost b0 = old(self)@.bytes;
let ghost pm = old(self).piece_mgr;
let ghost o = old_piece_offset.val as int;
let ghost size = old_piece_size.val as nat;
let ghost w0: HeapW = choose|w: HeapW| #[trigger] can_push(b0, pm, w, o as nat, size);
let ghost h = head_pos(pm, size);
let ghost h0 = head_of(pm, b0, size);
let ghost mut acc: Seq<u8> = Seq::empty();
let ghost mut bp = b0;
let ghost e1 = vu64_enc(size / 8);
proof {
    if o != 0 {
        assert(slot_ok(b0, o as nat, w0.slots[o as nat]));
        lemma_slot_bounds(b0, o as nat, w0.slots[o as nat]);
        lemma_tiling_len(b0.len(), w0.slots);
        axiom_vu64(size / 8); axiom_vu64(0); lemma_enc0(); lemma_le_bytes_len(h0, 8);
        assert(rd(b0, o, 0) =~= acc);
    }
}
@after-call write_piece_size 1
proof { lemma_rec_write(b0, bp, o, acc, e1); acc = acc + e1; bp = self@.bytes; }
@after-call write_key_len 1
proof { lemma_rec_write(b0, bp, o, acc, vu64_enc(0)); acc = acc + vu64_enc(0); bp = self@.bytes; }
@after-call write_free_piece_offset 1
proof { lemma_rec_write(b0, bp, o, acc, le_bytes(h0, 8)); acc = acc + le_bytes(h0, 8); bp = self@.bytes;
        assert(acc =~= free_head(size, h0)); }
@after-call write_zero_to_offset 1
proof {
    let z = zeros((size - acc.len()) as nat);
    if size > acc.len() { lemma_rec_write(b0, bp, o, acc, z); }
    assert(rd(self@.bytes, o, size as int) =~= acc + z);
    bp = self@.bytes;
    assert(free_at(bp, o, size, h0));
}
@after-call write_free_piece_offset_on_header 1
proof {
    let b1 = self@.bytes;
    lemma_le_bytes_len(o as nat, 8);
    lemma_write_at_basic(bp, h, le_bytes(o as nat, 8));
    lemma_write_le64(bp, h, o as nat);
    lemma_write_at_rd(bp, h, le_bytes(o as nat, 8), o, size as int);
    assert(free_at(b1, o, size, h0));
    assert(frame3(b0, b1, o, size as int, o, size as int, h));
    assert forall|w: HeapW| #[trigger] can_push(b0, pm, w, o as nat, size) implies heap_ok(b1, pm, w_push(w, o as nat)) by {
        lemma_push(b0, b1, pm, w, o as nat);
    }
}
@end
@endmod
