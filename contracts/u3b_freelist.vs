# piece.rs (second part) — free-list operations with heap-level contracts (needs prelude_heap.rs)
@raw
verus! {
/// what a caller must know about the slot it frees
pub open spec fn can_push(b: Seq<u8>, pm: PieceMgr, w: HeapW, o: nat, size: nat) -> bool {
    heap_ok(b, pm, w) && w.slots.dom().contains(o) && w.slots[o].size == size && !(w.slots[o].c is Free)
}
} // verus!
@end
@raw
verus! {
/// index of the first member at or after `from` whose slot is at least `need` bytes (l.len() if none)
pub open spec fn first_fit(slots: Map<nat, SlotW>, l: Seq<nat>, need: nat, from: int) -> int
    decreases l.len() - from
{
    if from < 0 || from >= l.len() { l.len() as int } else if slots[l[from]].size >= need { from } else { first_fit(slots, l, need, from + 1) }
}
pub proof fn lemma_ff_eq(s1: Map<nat, SlotW>, s2: Map<nat, SlotW>, l: Seq<nat>, need: nat, from: int)
    requires forall|i: int| 0 <= i < l.len() ==> s1[#[trigger] l[i]].size == s2[l[i]].size, 0 <= from
    ensures first_fit(s1, l, need, from) == first_fit(s2, l, need, from)
    decreases l.len() - from
{
    if from < l.len() { if s1[l[from]].size < need { lemma_ff_eq(s1, s2, l, need, from + 1); } }
}
pub proof fn lemma_ff_range(s: Map<nat, SlotW>, l: Seq<nat>, need: nat, from: int)
    requires 0 <= from <= l.len()
    ensures from <= first_fit(s, l, need, from) <= l.len(),
        first_fit(s, l, need, from) < l.len() ==> s[l[first_fit(s, l, need, from)]].size >= need,
        forall|j: int| from <= j < first_fit(s, l, need, from) ==> s[#[trigger] l[j]].size < need,
    decreases l.len() - from
{
    if from < l.len() { if s[l[from]].size < need { lemma_ff_range(s, l, need, from + 1); } }
}
/// which member a pop takes: the head for an exact-size class, first fit on the shared large list
pub open spec fn pop_idx(w: HeapW, need: nat) -> int {
    if need >= 1024 { first_fit(w.slots, w.lists[15], need, 0) } else if w.lists[class_idx(need)].len() > 0 { 0 } else { 0 }
}
/// the heap, offset and slot size after allocating a slot for non-free content `c` whose estimate rounds to `need`
pub open spec fn w_alloc(w: HeapW, len: nat, need: nat, c: SlotC) -> (HeapW, nat, nat) {
    let cl = class_idx(need);
    let l = w.lists[cl];
    let k = pop_idx(w, need);
    if k < l.len() {
        let o = l[k];
        let sz = w.slots[o].size;
        (w_set(w_unlink(w, cl, k), o, SlotW { size: sz, c: c }), o, sz)
    } else {
        (w_set(w, len, SlotW { size: need, c: c }), len, need)
    }
}
/// the heap after write_piece: overwrite in place when the slot is large enough, otherwise free the old slot and allocate
pub open spec fn w_write(w: HeapW, len: nat, is_new: bool, off: nat, need: nat, c: SlotC) -> (HeapW, nat, nat) {
    if !is_new && need <= w.slots[off].size {
        (w_set(w, off, SlotW { size: w.slots[off].size, c: c }), off, w.slots[off].size)
    } else {
        w_alloc(if is_new { w } else { w_push(w, off) }, len, need, c)
    }
}
/// result of a pop as a function of the witness
pub open spec fn pop_post(b0: Seq<u8>, b1: Seq<u8>, pm: PieceMgr, w: HeapW, need: nat, r: nat) -> bool {
    let c = class_idx(need);
    let l = w.lists[c];
    let k = pop_idx(w, need);
    if k >= l.len() { r == 0 && b1 == b0 }
    else { r == l[k] && r != 0 && w.slots[r].size >= need && heap_ok(b1, pm, w_unlink(w, c, k)) }
}
} // verus!
@end
@mod piece2

@fn src/filedb/inner/piece.rs | impl VarFile | push_free_piece_list
@opts rlimit=60
@serves C06 C18
@requires
old_piece_offset.val == 0 || exists|w: HeapW| #[trigger] can_push(old(self)@.bytes, old(self).piece_mgr, w, old_piece_offset.val as nat, old_piece_size.val as nat)
@ensures
okh(old(self)@, final(self)@, r), final(self).piece_mgr == old(self).piece_mgr,
old_piece_offset.val == 0 ==> r is Ok && final(self)@ == old(self)@,
r is Ok && old_piece_offset.val != 0 ==> forall|w: HeapW| #[trigger] can_push(old(self)@.bytes, old(self).piece_mgr, w, old_piece_offset.val as nat, old_piece_size.val as nat) ==> heap_ok(final(self)@.bytes, old(self).piece_mgr, w_push(w, old_piece_offset.val as nat)),
r is Ok && old_piece_offset.val != 0 ==> final(self)@.unflushed && final(self)@.unsynced,
r is Ok ==> final(self)@.bytes.len() == old(self)@.bytes.len()
@entry
let ghost b0 = old(self)@.bytes;
let ghost pm = old(self).piece_mgr;
let ghost o = old_piece_offset.val as int;
let ghost size = old_piece_size.val as nat;
let ghost w0: HeapW = choose|w: HeapW| #[trigger] can_push(b0, pm, w, o as nat, size);
let ghost h = head_pos(pm, size);
let ghost h0 = head_of(pm, b0, size);
let ghost mut acc: Seq<u8> = Seq::empty();
let ghost mut bp = b0;
let ghost e1 = vu64_enc(size / 8);
proof {
    if o != 0 {
        assert(slot_ok(b0, o as nat, w0.slots[o as nat]));
        lemma_slot_bounds(b0, o as nat, w0.slots[o as nat]);
        lemma_tiling_len(b0.len(), w0.slots);
        axiom_vu64(size / 8); axiom_vu64(0); lemma_enc0(); lemma_le_bytes_len(h0, 8);
        assert(rd(b0, o, 0) =~= acc);
    }
}
@after-call write_piece_size 1
proof { lemma_rec_write(b0, bp, o, acc, e1); acc = acc + e1; bp = self@.bytes; }
@after-call write_key_len 1
proof { lemma_rec_write(b0, bp, o, acc, vu64_enc(0)); acc = acc + vu64_enc(0); bp = self@.bytes; }
@after-call write_free_piece_offset 1
proof { lemma_rec_write(b0, bp, o, acc, le_bytes(h0, 8)); acc = acc + le_bytes(h0, 8); bp = self@.bytes;
        assert(acc =~= free_head(size, h0)); }
@after-call write_zero_to_offset 1
proof {
    let z = zeros((size - acc.len()) as nat);
    if size > acc.len() { lemma_rec_write(b0, bp, o, acc, z); }
    assert(rd(self@.bytes, o, size as int) =~= acc + z);
    bp = self@.bytes;
    assert(free_at(bp, o, size, h0));
}
@after-call write_free_piece_offset_on_header 1
proof {
    let b1 = self@.bytes;
    lemma_le_bytes_len(o as nat, 8);
    lemma_write_at_basic(bp, h, le_bytes(o as nat, 8));
    lemma_write_le64(bp, h, o as nat);
    lemma_write_at_rd(bp, h, le_bytes(o as nat, 8), o, size as int);
    assert(free_at(b1, o, size, h0));
    assert(frame3(b0, b1, o, size as int, o, size as int, h));
    assert forall|w: HeapW| #[trigger] can_push(b0, pm, w, o as nat, size) implies heap_ok(b1, pm, w_push(w, o as nat)) by {
        lemma_push(b0, b1, pm, w, o as nat);
    }
}
@end


@fn src/filedb/inner/vfile.rs | impl VarFile | write_piece_clear
@serves C06 C18
@requires
size.val > 0, size.val % 8 == 0, offset.val + size.val <= old(self)@.bytes.len(), old(self)@.bytes.len() <= 0x3fff_ffff_ffff_ffff,
rec_size_ok(old(self)@.bytes, offset.val as int), rec_size(old(self)@.bytes, offset.val as int) == size.val || rec_size(old(self)@.bytes, offset.val as int) == 0,
enc_len((size.val / 8) as nat) <= size.val
@ensures
okh(old(self)@, final(self)@, r), final(self).piece_mgr == old(self).piece_mgr,
r is Ok ==> cleared_at(final(self)@.bytes, offset.val as int, size.val as nat),
r is Ok ==> frame3(old(self)@.bytes, final(self)@.bytes, offset.val as int, size.val as int, offset.val as int, size.val as int, -8),
r is Ok ==> final(self)@.unflushed && final(self)@.unsynced
@entry
let ghost b0 = old(self)@.bytes;
let ghost o = offset.val as int;
let ghost sz = size.val as nat;
let ghost e1 = vu64_enc(sz / 8);
proof { axiom_vu64(sz / 8); assert(rd(b0, o, 0) =~= Seq::<u8>::empty()); }
@after-call write_piece_size 1
proof { lemma_rec_write(b0, b0, o, Seq::empty(), e1); assert(Seq::<u8>::empty() + e1 =~= e1); }
@after-call write_zero_to_offset 1
proof {
    let z = zeros((sz - e1.len()) as nat);
    let b1 = write_at(b0, o as nat, e1);
    if sz > e1.len() { lemma_rec_write(b0, b1, o, e1, z); }
    assert(rd(self@.bytes, o, sz as int) =~= e1 + z);
}
@end

@fn src/filedb/inner/piece.rs | impl VarFile | pop_free_piece_list_large
@opts rlimit=80
@serves C06
@requires
new_piece_size.val >= 1024, is_slot_size(new_piece_size.val as nat),
exists|w: HeapW| #[trigger] heap_ok(old(self)@.bytes, old(self).piece_mgr, w),
free_1st.val as nat == head_at(old(self).piece_mgr, old(self)@.bytes, 15)
@ensures
okh(old(self)@, final(self)@, r), final(self).piece_mgr == old(self).piece_mgr,
r is Ok ==> forall|w: HeapW| #[trigger] heap_ok(old(self)@.bytes, old(self).piece_mgr, w) ==> pop_post(old(self)@.bytes, final(self)@.bytes, old(self).piece_mgr, w, new_piece_size.val as nat, r->Ok_0.val as nat)
@entry
let ghost b0 = old(self)@.bytes;
let ghost f0 = old(self)@;
let ghost pm = old(self).piece_mgr;
let ghost need = new_piece_size.val as nat;
let ghost w0: HeapW = choose|w: HeapW| #[trigger] heap_ok(b0, pm, w);
let ghost l0 = w0.lists[15];
let ghost mut i: int = 0;
let ghost mut bmid = b0;
proof {
    assert(head_at(pm, b0, 15) == first(l0));
    lemma_tiling_len(b0.len(), w0.slots);
    lemma_ff_range(w0.slots, l0, need, 0);
}
@loop 1 invariant
0 <= i <= l0.len(),
free_curr.val as nat == (if i < l0.len() { l0[i] } else { 0 }),
free_prev.val as nat == (if i > 0 { l0[i - 1] } else { 0 }),
same_but_pos(f0, self@), okh2(f0, self@), self.piece_mgr == pm,
i <= first_fit(w0.slots, l0, need, 0),
first_fit(w0.slots, l0, need, 0) == first_fit(w0.slots, l0, need, i)
@loop 1 decreases
l0.len() - i
@loop 1 body-start
proof {
    if i >= l0.len() { assert(false); }
    lemma_member_decodes(b0, pm, w0, 15, i);
    if i > 0 { lemma_member_decodes(b0, pm, w0, 15, i - 1); }
}
@loop 1 body-end
proof { i = i + 1; }
@after-call write_free_piece_offset 1
proof {
    let p = l0[i - 1] as int;
    lemma_free_set_next(b0, self@.bytes, p, w0.slots[p as nat].size, l0[i], nxt(l0, i));
    bmid = self@.bytes;
}
@after-call write_free_piece_offset_on_header 1
proof {
    let h = pm.free_list_offset@[0] as int + 8 * 15;
    lemma_le_bytes_len(nxt(l0, i), 8);
    lemma_write_at_basic(b0, h, le_bytes(nxt(l0, i), 8));
    lemma_write_le64(b0, h, nxt(l0, i));
    bmid = self@.bytes;
}
@before-call write_piece_clear 1
proof {
    // the slot about to be cleared still reads as the same free record
    let o = l0[i];
    let sz = w0.slots[o].size;
    if i > 0 {
        lemma_list_member(w0.slots, l0, 15, i);
        lemma_tiling_disjoint(b0.len(), w0.slots, o, l0[i - 1]);
    }
    lemma_rd_same(b0, bmid, o as int, sz as int);
    assert(free_at(bmid, o as int, sz, nxt(l0, i)));
    lemma_free_decodes(bmid, o as int, sz, nxt(l0, i));
    axiom_vu64(sz / 8);
}
@before-return 1
proof {
    let b1 = self@.bytes;
    let o = l0[i];
    let sz = w0.slots[o].size;
    assert(first_fit(w0.slots, l0, need, i) == i);
    if i > 0 {
        let p = l0[i - 1]; let psz = w0.slots[p].size;
        lemma_list_member(w0.slots, l0, 15, i);
        lemma_tiling_disjoint(b0.len(), w0.slots, o, p);
        lemma_rd_same(bmid, b1, p as int, psz as int);
        assert(free_at(b1, p as int, psz, nxt(l0, i)));
        assert(frame3(b0, b1, o as int, sz as int, p as int, psz as int, -8));
    } else {
        let h = pm.free_list_offset@[0] as int + 8 * 15;
        lemma_rd_same(bmid, b1, h, 8);
        assert(head_at(pm, b1, 15) == nxt(l0, 0));
        assert(frame3(b0, b1, o as int, sz as int, o as int, sz as int, h));
    }
    assert forall|w: HeapW| #[trigger] heap_ok(b0, pm, w) implies pop_post(b0, b1, pm, w, need, o) by {
        lemma_list_unique_w(b0, pm, w0, w, 15);
        lemma_ff_eq(w0.slots, w.slots, l0, need, 0);
        lemma_member_decodes(b0, pm, w, 15, i);
        if i > 0 { lemma_member_decodes(b0, pm, w, 15, i - 1); }
        lemma_unlink(b0, b1, pm, w, 15, i);
    }
}
@exit
proof {
    if r__ is Ok {
        if i < l0.len() { lemma_member_decodes(b0, pm, w0, 15, i); }
        assert(i == l0.len());
        assert forall|w: HeapW| #[trigger] heap_ok(b0, pm, w) implies pop_post(b0, self@.bytes, pm, w, need, 0) by {
            lemma_list_unique_w(b0, pm, w0, w, 15);
            lemma_ff_eq(w0.slots, w.slots, l0, need, 0);
        }
    }
}
@end

@fn src/filedb/inner/piece.rs | impl VarFile | pop_free_piece_list
@opts rlimit=80
@serves C06
@requires
is_slot_size(new_piece_size.val as nat),
exists|w: HeapW| #[trigger] heap_ok(old(self)@.bytes, old(self).piece_mgr, w)
@ensures
okh(old(self)@, final(self)@, r), final(self).piece_mgr == old(self).piece_mgr,
r is Ok ==> forall|w: HeapW| #[trigger] heap_ok(old(self)@.bytes, old(self).piece_mgr, w) ==> pop_post(old(self)@.bytes, final(self)@.bytes, old(self).piece_mgr, w, new_piece_size.val as nat, r->Ok_0.val as nat)
@entry
let ghost b0 = old(self)@.bytes;
let ghost pm = old(self).piece_mgr;
let ghost need = new_piece_size.val as nat;
let ghost c = class_idx(need);
let ghost w0: HeapW = choose|w: HeapW| #[trigger] heap_ok(b0, pm, w);
let ghost l0 = w0.lists[c];
let ghost h = pm.free_list_offset@[0] as int + 8 * c;
let ghost mut bmid = b0;
proof {
    assert(head_at(pm, b0, c) == first(l0));
    lemma_tiling_len(b0.len(), w0.slots);
    if l0.len() > 0 { lemma_member_decodes(b0, pm, w0, c, 0); }
}
@after-call write_piece_clear 1
proof { bmid = self@.bytes; }
@before-call pop_free_piece_list_large 1
proof { assert(self@.bytes == b0); assert(heap_ok(self@.bytes, self.piece_mgr, w0)); }
@after-call write_free_piece_offset_on_header 1
proof {
    let b1 = self@.bytes;
    let o = l0[0]; let sz = w0.slots[o].size;
    lemma_le_bytes_len(nxt(l0, 0), 8);
    lemma_write_at_basic(bmid, h, le_bytes(nxt(l0, 0), 8));
    lemma_write_le64(bmid, h, nxt(l0, 0));
    lemma_rd_same(bmid, b1, o as int, sz as int);
    assert(cleared_at(b1, o as int, sz));
    assert(frame3(b0, b1, o as int, sz as int, o as int, sz as int, h));
    assert forall|w: HeapW| #[trigger] heap_ok(b0, pm, w) implies pop_post(b0, b1, pm, w, need, o) by {
        lemma_list_unique_w(b0, pm, w0, w, c);
        lemma_member_decodes(b0, pm, w, c, 0);
        lemma_unlink(b0, b1, pm, w, c, 0);
    }
}
@exit
proof {
    if r__ is Ok && need < 1024 && l0.len() == 0 {
        assert forall|w: HeapW| #[trigger] heap_ok(b0, pm, w) implies pop_post(b0, self@.bytes, pm, w, need, 0) by {
            lemma_list_unique_w(b0, pm, w0, w, c);
        }
    }
}
@end
@endmod
