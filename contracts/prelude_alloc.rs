// prelude_alloc.rs — lifting lemmas for write_piece (shared by key.rs and val.rs). SPEC / PROOF only.
verus! {
pub proof fn lemma_roundup_slot(x: nat)
    requires 1 <= x <= 0x7fff_ff00
    ensures is_slot_size(roundup_spec(x)), roundup_spec(x) >= x, roundup_spec(x) % 8 == 0, roundup_spec(x) <= x + 128, roundup_spec(x) >= 16
{}

pub proof fn lemma_slot_bounds_class(need: nat)
    requires is_slot_size(need)
    ensures 0 <= class_idx(need) < 16
{}
pub proof fn lemma_roundup_val(value: Seq<u8>)
    requires value.len() <= 0x100_0000
    ensures is_slot_size(val_need(value)), val_need(value) <= u32::MAX
{
    let p = enc_len(value.len()) + value.len();
    lemma_roundup_slot(enc_len(((p + 7) / 8) as nat) + p);
}
pub proof fn lemma_roundup_key(key: Seq<u8>, voff: nat, next: nat)
    requires key.len() <= 0x1_0000, voff <= u64::MAX, next <= u64::MAX
    ensures is_slot_size(key_need(key, voff, next)), key_need(key, voff, next) <= u32::MAX
{
    let p = enc_len(key.len()) + key.len() + enc_len(voff) + enc_len(next);
    lemma_roundup_slot(enc_len(((p + 7) / 8) as nat) + p);
}
/// frame_outside on a window inside the old file is a frame3
pub proof fn lemma_frame_outside_3(b0: Seq<u8>, b1: Seq<u8>, o: int, n: int)
    requires frame_outside(b0, b1, o, n), 0 <= o, 0 <= n, o + n <= b0.len()
    ensures frame3(b0, b1, o, n, o, n, -8)
{}

/// heap-level result of write_piece for one witness, from the byte-level facts collected along the execution
pub proof fn lemma_write_post(b0: Seq<u8>, ba: Seq<u8>, bb: Seq<u8>, b1: Seq<u8>, pm: PieceMgr, w: HeapW, is_new: bool, off: nat,
        c: SlotC, need: nat, fo: nat, ro: nat, rs: nat)
    requires
        heap_ok(b0, pm, w), !is_new ==> w.slots.dom().contains(off) && !(w.slots[off].c is Free),
        !(c is Free), is_slot_size(need), need <= u32::MAX,
        !is_new ==> need > w.slots[off].size && heap_ok(ba, pm, w_push(w, off)),
        is_new ==> ba == b0,
        ba.len() == b0.len(),
        pop_post(ba, bb, pm, if is_new { w } else { w_push(w, off) }, need, fo),
        fo != 0 ==> ro == fo && rs == rec_size(bb, fo as int),
        fo == 0 ==> ro == ba.len() && rs == need,
        slot_content_at(b1, ro, rs, c),
        frame_outside(bb, b1, ro as int, rs as int),
        b1.len() <= 0x3fff_ffff_ffff_ffff,
    ensures ({
        let t = w_write(w, b0.len(), is_new, off, need, c);
        heap_ok(b1, pm, t.0) && ro == t.1 && rs == t.2
    })
{
    let w1 = if is_new { w } else { w_push(w, off) };
    let cl = class_idx(need);
    let l = w1.lists[cl];
    let k = pop_idx(w1, need);
    if !is_new { assert(!(need <= w.slots[off].size)); }
    assert(w_write(w, b0.len(), is_new, off, need, c) == w_alloc(w1, b0.len(), need, c));
    if k < l.len() {
        let w2 = w_unlink(w1, cl, k);
        assert(heap_ok(bb, pm, w2));
        lemma_slot_bounds_class(need);
        if need >= 1024 { lemma_ff_range(w1.slots, w1.lists[15], need, 0); }
        assert(list_ok(w1.slots, l, cl));
        lemma_list_member(w1.slots, l, cl, k);
        if k > 0 { lemma_list_member(w1.slots, l, cl, k - 1); }
        assert(w2.slots.dom().contains(fo));
        assert(w2.slots[fo].c is Cleared);
        assert(slot_ok(bb, fo, w2.slots[fo]));
        lemma_slot_size_decodes(bb, fo, w2.slots[fo]);
        lemma_slot_bounds(bb, fo, w2.slots[fo]);
        assert(rs == w2.slots[fo].size);
        assert(w2.slots[fo].size == w1.slots[fo].size);
        lemma_frame_outside_3(bb, b1, fo as int, rs as int);
        lemma_slot_intro(b1, fo, SlotW { size: rs, c: c });
        lemma_set(bb, b1, pm, w2, fo, c);
    } else {
        assert(bb == ba);
        lemma_tiling_len(ba.len(), w1.slots);
        lemma_slot_intro(b1, ba.len(), SlotW { size: need, c: c });
        lemma_append(ba, b1, pm, w1, SlotW { size: need, c: c });
    }
}
/// the bytes of slot [o, o+size) hold non-free content `c`
pub open spec fn slot_content_at(b: Seq<u8>, o: nat, size: nat, c: SlotC) -> bool {
    match c {
        SlotC::Val(v) => val_used_at(b, o as int, size, v),
        SlotC::Key(k, vo, nx) => key_used_at(b, o as int, size, k, vo, nx),
        SlotC::Free(nx) => free_at(b, o as int, size, nx),
        SlotC::Cleared => cleared_at(b, o as int, size),
    }
}
/// heap-level result of the overwrite-in-place branch
pub proof fn lemma_write_inplace(b0: Seq<u8>, b1: Seq<u8>, pm: PieceMgr, w: HeapW, off: nat, c: SlotC, need: nat)
    requires heap_ok(b0, pm, w), w.slots.dom().contains(off), !(w.slots[off].c is Free), !(c is Free),
        need <= w.slots[off].size,
        slot_content_at(b1, off, w.slots[off].size, c),
        frame_outside(b0, b1, off as int, w.slots[off].size as int),
    ensures ({
        let t = w_write(w, b0.len(), false, off, need, c);
        heap_ok(b1, pm, t.0) && off == t.1 && w.slots[off].size == t.2
    })
{
    assert(slot_ok(b0, off, w.slots[off]));
    lemma_slot_bounds(b0, off, w.slots[off]);
    lemma_frame_outside_3(b0, b1, off as int, w.slots[off].size as int);
    lemma_slot_intro(b1, off, SlotW { size: w.slots[off].size, c: c });
    lemma_set(b0, b1, pm, w, off, c);
}
} // verus!
