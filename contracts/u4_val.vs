# val.rs — unit U4: value records.
@mod val
@type src/filedb/inner/val.rs | HeaderSignature
@type src/filedb/inner/val.rs | CHUNK_SIZE
@type src/filedb/inner/val.rs | DAT_HEADER_SZ
@type src/filedb/inner/val.rs | DAT_HEADER_SIGNATURE
@type src/filedb/inner/val.rs | REC_SIZE_FREE_OFFSET_1ST
@type src/filedb/inner/val.rs | REC_SIZE_FREE_OFFSET
@type src/filedb/inner/val.rs | REC_SIZE_ARY
@type src/filedb/inner/val.rs | VarFileValueCache
@type src/filedb/inner/val.rs | ValueFile
@type src/filedb/inner/val.rs | ValuePiece

@fn src/filedb/inner/val.rs | impl ValuePiece | encoded_piece_size
@serves C09
@requires
self.value@.len() <= 0x100_0000
@ensures
r.2.val == self.value@.len(),
r.1 == enc_len(self.value@.len()) + self.value@.len(),
r.0 == enc_len(((r.1 + 7) / 8) as nat)
@end

@fn src/filedb/inner/val.rs | impl ValuePiece | dat_write_piece_one
@serves C09 C05 C18
@requires
self.size.val % 8 == 0,
self.value@.len() <= 0x100_0000,
self.offset.val <= old(file)@.bytes.len(),
self.offset.val + self.size.val <= 0x7fff_ffff_ffff_ffff,
enc_len((self.size.val / 8) as nat) + enc_len(self.value@.len()) + self.value@.len() <= self.size.val
@ensures
okh(old(file)@, final(file)@, r), final(file).piece_mgr == old(file).piece_mgr,
r is Ok ==> val_used_at(final(file)@.bytes, self.offset.val as int, self.size.val as nat, self.value@),
r is Ok ==> frame_outside(old(file)@.bytes, final(file)@.bytes, self.offset.val as int, self.size.val as int),
r is Ok ==> final(file)@.unflushed && final(file)@.unsynced
@entry
proof { axiom_vu64((self.size.val / 8) as nat); axiom_vu64(self.value@.len()); }
@exit
proof {
    if r__ is Ok {
        let b1 = final(file)@.bytes; let o = self.offset.val as int; let sz = self.size.val as int;
        assert(rd(b1, o, sz) =~= val_image(sz as nat, self.value@));
    }
}
@end

@raw root
verus! {
pub open spec fn sig_v() -> Seq<u8> { seq![97u8, 98, 121, 115, 100, 98, 86, 0] }
/// documented value-file header (val.rs:156-181): signature1, type signature, 176 zero bytes (reserves + 16 free-list heads)
pub open spec fn hdr_val(sig2: Seq<u8>) -> Seq<u8> { sig_v() + sig2 + zeros(176) }
} // verus!
@end

@fn src/filedb/inner/val.rs | - | write_valrecf_init_header
@serves C12 C18
@requires
old(file)@.bytes.len() == 0
@ensures
okh(old(file)@, final(file)@, r), final(file).piece_mgr == old(file).piece_mgr,
r is Ok ==> final(file)@.bytes == hdr_val(signature2@),
r is Ok ==> final(file)@.unflushed && final(file)@.unsynced
@exit
proof {
    if r__ is Ok {
        reveal_with_fuel(le_bytes, 9);
        assert(le_bytes(0, 8) =~= zeros(8));
        assert(DAT_HEADER_SIGNATURE@ =~= sig_v());
        assert(final(file)@.bytes =~= hdr_val(signature2@));
    }
}
@end

@fn src/filedb/inner/val.rs | - | check_valrecf_header
@opts refusal
@refusal-implies !(rd(old(file)@.bytes, 0, 8) == sig_v() && rd(old(file)@.bytes, 8, 8) == signature2@ && le64_at(old(file)@.bytes, 16) == 0)
@serves C13 C02
@requires
old(file)@.bytes.len() >= 24
@ensures
okh(old(file)@, final(file)@, r), same_but_pos(old(file)@, final(file)@), final(file).piece_mgr == old(file).piece_mgr,
r is Ok ==> rd(old(file)@.bytes, 0, 8) == sig_v() && rd(old(file)@.bytes, 8, 8) == signature2@
@end

@raw root
verus! {
/// slot size write_piece asks for when storing `value`
pub open spec fn val_need(value: Seq<u8>) -> nat {
    let p = enc_len(value.len()) + value.len();
    roundup_spec(enc_len(((p + 7) / 8) as nat) + p)
}
pub open spec fn val_pre(b: Seq<u8>, pm: PieceMgr, w: HeapW, is_new: bool, off: nat) -> bool {
    heap_ok(b, pm, w) && (!is_new ==> w.slots.dom().contains(off) && w.slots[off].c is Val)
}
pub open spec fn val_at(b: Seq<u8>, pm: PieceMgr, w: HeapW, off: nat) -> bool {
    heap_ok(b, pm, w) && w.slots.dom().contains(off) && w.slots[off].c is Val
}
} // verus!
@end

# `is_valid_value` iterates `for &sz in &REC_SIZE_ARY` (rejected by Verus); it only asserts — proved by Kani (kani_piece.rs:u3_is_valid_*)
@fn src/filedb/inner/val.rs | impl ValuePieceSize | is_valid_value
@opts assumed proved_by=kani:u3_is_valid_value
@requires
is_slot_size(self.val as nat)
@ensures
r
@end

@fn src/filedb/inner/val.rs | impl ValuePiece | with
@ensures
r.offset == offset, r.size == size, r.value == value
@end

@fn src/filedb/inner/val.rs | impl ValuePiece | with_value
@ensures
r.value@ == value@
@end

@fn src/filedb/inner/val.rs | impl VarFileValueCache | read_piece
@serves C09 C15
@requires
offset.val != 0, exists|w: HeapW| #[trigger] val_at(old(self).0@.bytes, old(self).0.piece_mgr, w, offset.val as nat)
@ensures
okh(old(self).0@, final(self).0@, r), same_but_pos(old(self).0@, final(self).0@), final(self).0.piece_mgr == old(self).0.piece_mgr,
r is Ok ==> forall|w: HeapW| #[trigger] val_at(old(self).0@.bytes, old(self).0.piece_mgr, w, offset.val as nat) ==>
    r->Ok_0.offset == offset && r->Ok_0.size.val == w.slots[offset.val as nat].size && SlotC::Val(r->Ok_0.value@) == w.slots[offset.val as nat].c
@entry
let ghost b0 = old(self).0@.bytes;
let ghost pm = old(self).0.piece_mgr;
let ghost o = offset.val as nat;
let ghost w0: HeapW = choose|w: HeapW| #[trigger] val_at(b0, pm, w, o);
proof {
    assert(slot_ok(b0, o, w0.slots[o]));
    lemma_slot_bounds(b0, o, w0.slots[o]); lemma_slot_elim(b0, o, w0.slots[o]);
    lemma_val_used_decodes(b0, o as int, w0.slots[o].size, w0.slots[o].c->Val_0);
}
@exit
proof {
    if r__ is Ok {
        assert forall|w: HeapW| #[trigger] val_at(b0, pm, w, o) implies
            r__->Ok_0.offset == offset && r__->Ok_0.size.val == w.slots[o].size && SlotC::Val(r__->Ok_0.value@) == w.slots[o].c by {
            assert(slot_ok(b0, o, w.slots[o]));
            lemma_slot_elim(b0, o, w.slots[o]);
            lemma_val_used_decodes(b0, o as int, w.slots[o].size, w.slots[o].c->Val_0);
        }
    }
}
@end

@fn src/filedb/inner/val.rs | impl VarFileValueCache | read_piece_only_size
@serves C17
@requires
offset.val != 0, exists|w: HeapW| #[trigger] heap_ok(old(self).0@.bytes, old(self).0.piece_mgr, w) && w.slots.dom().contains(offset.val as nat)
@ensures
okh(old(self).0@, final(self).0@, r), same_but_pos(old(self).0@, final(self).0@), final(self).0.piece_mgr == old(self).0.piece_mgr,
r is Ok ==> forall|w: HeapW| #[trigger] heap_ok(old(self).0@.bytes, old(self).0.piece_mgr, w) && w.slots.dom().contains(offset.val as nat) ==> r->Ok_0.val == w.slots[offset.val as nat].size
@entry
let ghost b0 = old(self).0@.bytes;
let ghost pm = old(self).0.piece_mgr;
let ghost o = offset.val as nat;
let ghost w0: HeapW = choose|w: HeapW| #[trigger] heap_ok(b0, pm, w) && w.slots.dom().contains(o);
proof {
    assert(slot_ok(b0, o, w0.slots[o]));
    lemma_slot_bounds(b0, o, w0.slots[o]); lemma_slot_size_decodes(b0, o, w0.slots[o]);
}
@exit
proof {
    if r__ is Ok {
        assert forall|w: HeapW| #[trigger] heap_ok(b0, pm, w) && w.slots.dom().contains(o) implies r__->Ok_0.val == w.slots[o].size by {
            assert(slot_ok(b0, o, w.slots[o]));
            lemma_slot_size_decodes(b0, o, w.slots[o]);
        }
    }
}
@end

@fn src/filedb/inner/vfile.rs | impl VarFile | seek_skip_to_piece_value
@requires
rec_size_ok(old(self)@.bytes, offset.val as int), offset.val <= old(self)@.bytes.len()
@ensures
okh(old(self)@, final(self)@, r), same_but_pos(old(self)@, final(self)@), final(self).piece_mgr == old(self).piece_mgr,
r is Ok ==> final(self)@.pos == rec_len_pos(old(self)@.bytes, offset.val as int) && r->Ok_0.val == final(self)@.pos
@entry
proof { axiom_vu64_dlen(old(self)@.bytes[offset.val as int]); }
@end

@fn src/filedb/inner/val.rs | impl VarFileValueCache | read_piece_only_value
@serves C01 C15
@requires
offset.val != 0, exists|w: HeapW| #[trigger] val_at(old(self).0@.bytes, old(self).0.piece_mgr, w, offset.val as nat)
@ensures
okh(old(self).0@, final(self).0@, r), same_but_pos(old(self).0@, final(self).0@), final(self).0.piece_mgr == old(self).0.piece_mgr,
r is Ok ==> forall|w: HeapW| #[trigger] val_at(old(self).0@.bytes, old(self).0.piece_mgr, w, offset.val as nat) ==> SlotC::Val(r->Ok_0@) == w.slots[offset.val as nat].c
@entry
let ghost b0 = old(self).0@.bytes;
let ghost pm = old(self).0.piece_mgr;
let ghost o = offset.val as nat;
let ghost w0: HeapW = choose|w: HeapW| #[trigger] val_at(b0, pm, w, o);
proof {
    assert(slot_ok(b0, o, w0.slots[o]));
    lemma_slot_bounds(b0, o, w0.slots[o]); lemma_slot_elim(b0, o, w0.slots[o]);
    lemma_val_used_decodes(b0, o as int, w0.slots[o].size, w0.slots[o].c->Val_0);
}
@exit
proof {
    if r__ is Ok {
        assert forall|w: HeapW| #[trigger] val_at(b0, pm, w, o) implies SlotC::Val(r__->Ok_0@) == w.slots[o].c by {
            assert(slot_ok(b0, o, w.slots[o]));
            lemma_slot_elim(b0, o, w.slots[o]);
            lemma_val_used_decodes(b0, o as int, w.slots[o].size, w.slots[o].c->Val_0);
        }
    }
}
@end

@fn src/filedb/inner/val.rs | impl VarFileValueCache | read_piece_only_value_length
@serves C17
@requires
offset.val != 0, exists|w: HeapW| #[trigger] val_at(old(self).0@.bytes, old(self).0.piece_mgr, w, offset.val as nat)
@ensures
okh(old(self).0@, final(self).0@, r), same_but_pos(old(self).0@, final(self).0@), final(self).0.piece_mgr == old(self).0.piece_mgr,
r is Ok ==> forall|w: HeapW| #[trigger] val_at(old(self).0@.bytes, old(self).0.piece_mgr, w, offset.val as nat) ==> r->Ok_0.val == w.slots[offset.val as nat].c->Val_0.len()
@entry
let ghost b0 = old(self).0@.bytes;
let ghost pm = old(self).0.piece_mgr;
let ghost o = offset.val as nat;
let ghost w0: HeapW = choose|w: HeapW| #[trigger] val_at(b0, pm, w, o);
proof {
    assert(slot_ok(b0, o, w0.slots[o]));
    lemma_slot_bounds(b0, o, w0.slots[o]); lemma_slot_elim(b0, o, w0.slots[o]);
    lemma_val_used_decodes(b0, o as int, w0.slots[o].size, w0.slots[o].c->Val_0);
}
@exit
proof {
    if r__ is Ok {
        assert forall|w: HeapW| #[trigger] val_at(b0, pm, w, o) implies r__->Ok_0.val == w.slots[o].c->Val_0.len() by {
            assert(slot_ok(b0, o, w.slots[o]));
            lemma_slot_elim(b0, o, w.slots[o]);
            lemma_val_used_decodes(b0, o as int, w.slots[o].size, w.slots[o].c->Val_0);
        }
    }
}
@end

@fn src/filedb/inner/val.rs | impl VarFileValueCache | delete_piece
@serves C06
@requires
exists|w: HeapW| #[trigger] val_at(old(self).0@.bytes, old(self).0.piece_mgr, w, offset.val as nat)
@ensures
okh(old(self).0@, final(self).0@, r), final(self).0.piece_mgr == old(self).0.piece_mgr,
r is Ok ==> forall|w: HeapW| #[trigger] val_at(old(self).0@.bytes, old(self).0.piece_mgr, w, offset.val as nat) ==>
    heap_ok(final(self).0@.bytes, old(self).0.piece_mgr, w_push(w, offset.val as nat)) && r->Ok_0.val == w.slots[offset.val as nat].size,
r is Ok ==> final(self).0@.unflushed && final(self).0@.unsynced
@entry
let ghost b0 = old(self).0@.bytes;
let ghost pm = old(self).0.piece_mgr;
let ghost o = offset.val as nat;
let ghost w0: HeapW = choose|w: HeapW| #[trigger] val_at(b0, pm, w, o);
proof {
    assert(slot_ok(b0, o, w0.slots[o]));
    lemma_slot_bounds(b0, o, w0.slots[o]); lemma_slot_size_decodes(b0, o, w0.slots[o]);
}
@before-call push_free_piece_list 1
proof { assert(can_push(self.0@.bytes, pm, w0, o, old_piece_size.val as nat)); }
@exit
proof {
    if r__ is Ok {
        assert forall|w: HeapW| #[trigger] val_at(b0, pm, w, o) implies
            heap_ok(self.0@.bytes, pm, w_push(w, o)) && r__->Ok_0.val == w.slots[o].size by {
            assert(slot_ok(b0, o, w.slots[o]));
            lemma_slot_size_decodes(b0, o, w.slots[o]);
            assert(can_push(b0, pm, w, o, r__->Ok_0.val as nat));
        }
    }
}
@end


@fn src/filedb/inner/val.rs | impl VarFileValueCache | write_piece
@opts rlimit=150
@serves C06 C09 C01
@requires
piece.value@.len() <= 0x100_0000,
is_new || piece.offset.val != 0,
old(self).0@.bytes.len() <= 0x2000_0000_0000_0000,
exists|w: HeapW| #[trigger] heap_ok(old(self).0@.bytes, old(self).0.piece_mgr, w) && val_pre(old(self).0@.bytes, old(self).0.piece_mgr, w, is_new, piece.offset.val as nat)
@ensures
okh(old(self).0@, final(self).0@, r), final(self).0.piece_mgr == old(self).0.piece_mgr,
r is Ok ==> r->Ok_0.value@ == piece.value@,
r is Ok ==> forall|w: HeapW| #[trigger] heap_ok(old(self).0@.bytes, old(self).0.piece_mgr, w) && val_pre(old(self).0@.bytes, old(self).0.piece_mgr, w, is_new, piece.offset.val as nat) ==> ({
    let t = w_write(w, old(self).0@.bytes.len(), is_new, piece.offset.val as nat, val_need(piece.value@), SlotC::Val(piece.value@));
    heap_ok(final(self).0@.bytes, old(self).0.piece_mgr, t.0) && r->Ok_0.offset.val == t.1 && r->Ok_0.size.val == t.2
        && (!is_new && val_need(piece.value@) > w.slots[piece.offset.val as nat].size ==> exists|ba: Seq<u8>| #[trigger] heap_ok(ba, old(self).0.piece_mgr, w_push(w, piece.offset.val as nat)) && ba.len() == old(self).0@.bytes.len())
}),
r is Ok ==> final(self).0@.unflushed && final(self).0@.unsynced
@entry
let ghost b0 = old(self).0@.bytes;
let ghost pm = old(self).0.piece_mgr;
let ghost off = piece.offset.val as nat;
let ghost value = piece.value@;
let ghost need = val_need(value);
let ghost p = enc_len(value.len()) + value.len();
let ghost w0: HeapW = choose|w: HeapW| #[trigger] heap_ok(b0, pm, w) && val_pre(b0, pm, w, is_new, off);
let ghost w10: HeapW = if is_new { w0 } else { w_push(w0, off) };
let ghost mut ba = b0;
let ghost mut bb = b0;
let ghost mut fo: nat = 0;
proof {
    lemma_roundup_slot(enc_len(((p + 7) / 8) as nat) + p);
    lemma_tiling_len(b0.len(), w0.slots);
    if !is_new {
        assert(slot_ok(b0, off, w0.slots[off]));
        lemma_slot_bounds(b0, off, w0.slots[off]); lemma_slot_size_decodes(b0, off, w0.slots[off]);
    }
}
@before-call dat_write_piece_one 1
proof { lemma_fits(p, old_piece_size.val as nat); }
@before-return 1
proof {
    let b1 = self.0@.bytes;
    assert forall|w: HeapW| #[trigger] heap_ok(b0, pm, w) && val_pre(b0, pm, w, is_new, off) implies ({
        let t = w_write(w, b0.len(), is_new, off, need, SlotC::Val(value));
        heap_ok(b1, pm, t.0) && piece.offset.val == t.1 && piece.size.val == t.2
    }) by {
        assert(slot_ok(b0, off, w.slots[off]));
        lemma_slot_size_decodes(b0, off, w.slots[off]);
        lemma_write_inplace(b0, b1, pm, w, off, SlotC::Val(value), need);
    }
}
@before-call push_free_piece_list 1
proof { assert(can_push(self.0@.bytes, pm, w0, off, old_piece_size.val as nat)); }
@after-call push_free_piece_list 1
proof { ba = self.0@.bytes; assert(heap_ok(ba, pm, w10)); }
@before-call pop_free_piece_list 1
proof { ba = self.0@.bytes; assert(heap_ok(ba, pm, w10)); }
@after-call pop_free_piece_list 1
proof {
    bb = self.0@.bytes; fo = free_piece_offset.val as nat;
    assert(pop_post(ba, bb, pm, w10, need, fo));
    let cl = class_idx(need); let k = pop_idx(w10, need);
    if k < w10.lists[cl].len() {
        let w2 = w_unlink(w10, cl, k);
        assert(heap_ok(bb, pm, w2));
        assert(w2.slots.dom().contains(fo));
        assert(slot_ok(bb, fo, w2.slots[fo]));
        lemma_slot_size_decodes(bb, fo, w2.slots[fo]);
        lemma_slot_bounds(bb, fo, w2.slots[fo]);
        lemma_fits(p, w2.slots[fo].size);
    } else {
        lemma_fits(p, need);
    }
}
@exit
proof {
    if r__ is Ok {
        let b1 = self.0@.bytes;
        let rp = r__->Ok_0;
        assert forall|w: HeapW| #[trigger] heap_ok(b0, pm, w) && val_pre(b0, pm, w, is_new, off) implies ({
            let t = w_write(w, b0.len(), is_new, off, need, SlotC::Val(value));
            heap_ok(b1, pm, t.0) && rp.offset.val == t.1 && rp.size.val == t.2
                && (!is_new && need > w.slots[off].size ==> exists|ba2: Seq<u8>| #[trigger] heap_ok(ba2, pm, w_push(w, off)) && ba2.len() == b0.len())
        }) by {
            if !is_new {
                assert(slot_ok(b0, off, w.slots[off]));
                lemma_slot_size_decodes(b0, off, w.slots[off]);
                assert(can_push(b0, pm, w, off, w.slots[off].size));
                assert(heap_ok(ba, pm, w_push(w, off)));
            }
            let w1 = if is_new { w } else { w_push(w, off) };
            assert(heap_ok(ba, pm, w1));
            assert(pop_post(ba, bb, pm, w1, need, fo));
            lemma_write_post(b0, ba, bb, b1, pm, w, is_new, off, SlotC::Val(value), need, fo, rp.offset.val as nat, rp.size.val as nat);
        }
    }
}
@end

@fn src/filedb/inner/val.rs | impl VarFileValueCache | add_value_piece
@serves C01 C06
@requires
value@.len() <= 0x100_0000,
old(self).0@.bytes.len() <= 0x2000_0000_0000_0000,
exists|w: HeapW| #[trigger] heap_ok(old(self).0@.bytes, old(self).0.piece_mgr, w)
@ensures
okh(old(self).0@, final(self).0@, r), final(self).0.piece_mgr == old(self).0.piece_mgr,
r is Ok ==> r->Ok_0.value@ == value@,
r is Ok ==> forall|w: HeapW| #[trigger] heap_ok(old(self).0@.bytes, old(self).0.piece_mgr, w) ==> ({
    let t = w_alloc(w, old(self).0@.bytes.len(), val_need(value@), SlotC::Val(value@));
    heap_ok(final(self).0@.bytes, old(self).0.piece_mgr, t.0) && r->Ok_0.offset.val == t.1 && r->Ok_0.size.val == t.2
}),
r is Ok ==> final(self).0@.unflushed && final(self).0@.unsynced
@end
@endmod
