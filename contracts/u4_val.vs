# val.rs — unit U4: value records.
@mod val
@type src/filedb/inner/val.rs | HeaderSignature
@type src/filedb/inner/val.rs | CHUNK_SIZE
@type src/filedb/inner/val.rs | DAT_HEADER_SZ
@type src/filedb/inner/val.rs | DAT_HEADER_SIGNATURE
@type src/filedb/inner/val.rs | REC_SIZE_FREE_OFFSET_1ST
@type src/filedb/inner/val.rs | REC_SIZE_FREE_OFFSET
@type src/filedb/inner/val.rs | REC_SIZE_ARY
@type src/filedb/inner/val.rs | VarFileValueCache
@type src/filedb/inner/val.rs | ValueFile
@type src/filedb/inner/val.rs | ValuePiece

@fn src/filedb/inner/val.rs | impl ValuePiece | encoded_piece_size
@serves C09
@requires
self.value@.len() <= 0x100_0000
@ensures
r.2.val == self.value@.len(),
r.1 == enc_len(self.value@.len()) + self.value@.len(),
r.0 == enc_len(((r.1 + 7) / 8) as nat)
@end

@fn src/filedb/inner/val.rs | impl ValuePiece | dat_write_piece_one
@serves C09 C05 C18
@requires
self.size.val % 8 == 0,
self.value@.len() <= 0x100_0000,
self.offset.val <= old(file)@.bytes.len(),
self.offset.val + self.size.val <= 0x7fff_ffff_ffff_ffff,
enc_len((self.size.val / 8) as nat) + enc_len(self.value@.len()) + self.value@.len() <= self.size.val,
self.value@.len() <= old(file)@.chunk
@ensures
okh(old(file)@, final(file)@, r), final(file).piece_mgr == old(file).piece_mgr,
r is Ok ==> val_used_at(final(file)@.bytes, self.offset.val as int, self.size.val as nat, self.value@),
r is Ok ==> frame_outside(old(file)@.bytes, final(file)@.bytes, self.offset.val as int, self.size.val as int),
r is Ok ==> final(file)@.unflushed && final(file)@.unsynced
@entry
proof { axiom_vu64((self.size.val / 8) as nat); axiom_vu64(self.value@.len()); }
@exit
proof {
    if r__ is Ok {
        let b1 = final(file)@.bytes; let o = self.offset.val as int; let sz = self.size.val as int;
        assert(rd(b1, o, sz) =~= val_image(sz as nat, self.value@));
    }
}
@end

@raw
verus! {
pub open spec fn sig_v() -> Seq<u8> { seq![97u8, 98, 121, 115, 100, 98, 86, 0] }
/// documented value-file header (val.rs:156-181): signature1, type signature, 176 zero bytes (reserves + 16 free-list heads)
pub open spec fn hdr_val(sig2: Seq<u8>) -> Seq<u8> { sig_v() + sig2 + zeros(176) }
} // verus!
@end

@fn src/filedb/inner/val.rs | - | write_valrecf_init_header
@serves C12 C18
@requires
old(file)@.bytes.len() == 0
@ensures
okh(old(file)@, final(file)@, r), final(file).piece_mgr == old(file).piece_mgr,
r is Ok ==> final(file)@.bytes == hdr_val(signature2@),
r is Ok ==> final(file)@.unflushed && final(file)@.unsynced
@exit
proof {
    if r__ is Ok {
        reveal_with_fuel(le_bytes, 9);
        assert(le_bytes(0, 8) =~= zeros(8));
        assert(DAT_HEADER_SIGNATURE@ =~= sig_v());
        assert(final(file)@.bytes =~= hdr_val(signature2@));
    }
}
@end

@fn src/filedb/inner/val.rs | - | check_valrecf_header
@opts refusal
@serves C13
@requires
old(file)@.bytes.len() >= 24
@ensures
okh(old(file)@, final(file)@, r), same_but_pos(old(file)@, final(file)@), final(file).piece_mgr == old(file).piece_mgr,
r is Ok ==> rd(old(file)@.bytes, 0, 8) == sig_v() && rd(old(file)@.bytes, 8, 8) == signature2@
@end
@endmod
