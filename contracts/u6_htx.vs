# htx.rs — unit U6: header, bucket table, bitmap, scan.
@mod htx
@type src/filedb/inner/htx.rs | HeaderSignature
@type src/filedb/inner/htx.rs | CHUNK_SIZE
@type src/filedb/inner/htx.rs | HTX_HEADER_SZ
@type src/filedb/inner/htx.rs | HTX_HEADER_SIGNATURE
@type src/filedb/inner/htx.rs | DEFAULT_HT_SIZE
@type src/filedb/inner/htx.rs | HTX_HT_SIZE_OFFSET
@type src/filedb/inner/htx.rs | HTX_SIZE_FREE_OFFSET
@type src/filedb/inner/htx.rs | HTX_SIZE_ARY
@type src/filedb/inner/htx.rs | HTX_ITEM_COUNT_OFFSET
@type src/filedb/inner/htx.rs | VarFileHtxCache
@type src/filedb/inner/htx.rs | HtxFile

@raw
verus! {
impl HtxFile {
    /// the cached bucket count equals the stored one and the file has the table shape for it
    pub open spec fn wf(&self) -> bool { htx_wf(self.0.file@.bytes, self.0.buckets_size as int) }
    pub open spec fn bytes(&self) -> Seq<u8> { self.0.file@.bytes }
    pub open spec fn n(&self) -> int { self.0.buckets_size as int }
    /// only the cursor of the table file moved
    pub open spec fn same(&self, o: &HtxFile) -> bool {
        self.0.buckets_size == o.0.buckets_size && self.0.file.piece_mgr == o.0.file.piece_mgr && same_but_pos(o.0.file@, self.0.file@)
    }
}
/// number of non-empty buckets among [0, k)
pub open spec fn nonempty_count(b: Seq<u8>, k: int) -> nat
    decreases k
{
    if k <= 0 { 0 } else { nonempty_count(b, k - 1) + (if bucket(b, k - 1) != 0 { 1nat } else { 0nat }) }
}
pub proof fn lemma_nonempty_bound(b: Seq<u8>, k: int)
    requires k >= 0
    ensures nonempty_count(b, k) <= k
    decreases k
{ if k > 0 { lemma_nonempty_bound(b, k - 1); } }
} // verus!
@end

@fn src/filedb/inner/htx.rs | impl VarFileHtxCache | new
@ensures
r.file == file, r.buckets_size == 0
@end

@fn src/filedb/inner/htx.rs | impl VarFile | read_hash_buckets_size
@requires
old(self)@.bytes.len() >= 24
@ensures
okh(old(self)@, final(self)@, r), same_but_pos(old(self)@, final(self)@), final(self).piece_mgr == old(self).piece_mgr,
r is Ok ==> r->Ok_0 as nat == htx_stored_n(old(self)@.bytes)
@end

@fn src/filedb/inner/htx.rs | impl VarFile | read_item_count
@requires
old(self)@.bytes.len() >= 32
@ensures
okh(old(self)@, final(self)@, r), same_but_pos(old(self)@, final(self)@), final(self).piece_mgr == old(self).piece_mgr,
r is Ok ==> r->Ok_0 as nat == htx_count(old(self)@.bytes)
@end

@fn src/filedb/inner/htx.rs | impl VarFile | write_item_count
@requires
old(self)@.bytes.len() >= 32
@ensures
okh(old(self)@, final(self)@, r), final(self).piece_mgr == old(self).piece_mgr,
r is Ok ==> final(self)@ == wrote(moved(old(self)@, 24), le_bytes(val as nat, 8))
@end

@fn src/filedb/inner/htx.rs | impl VarFile | read_key_piece_offset
@requires
idx <= 0x1000_0000_0000, bucket_pos(idx as int) + 8 <= old(self)@.bytes.len()
@ensures
okh(old(self)@, final(self)@, r), same_but_pos(old(self)@, final(self)@), final(self).piece_mgr == old(self).piece_mgr,
r is Ok ==> r->Ok_0.val as nat == bucket(old(self)@.bytes, idx as int)
@end

@fn src/filedb/inner/htx.rs | impl VarFile | write_key_piece_offset
@serves C04 C05 C18
@requires
htx_wf(old(self)@.bytes, bucket_size as int), idx < bucket_size
@ensures
okh(old(self)@, final(self)@, r), final(self).piece_mgr == old(self).piece_mgr,
r is Ok ==> htx_wf(final(self)@.bytes, bucket_size as int),
r is Ok ==> bucket(final(self)@.bytes, idx as int) == offset.val,
r is Ok ==> forall|j: int| 0 <= j < bucket_size && j != idx ==> #[trigger] bucket(final(self)@.bytes, j) == bucket(old(self)@.bytes, j),
r is Ok ==> bit(final(self)@.bytes, bucket_size as int, idx as int) == (offset.val != 0),
r is Ok ==> forall|j: int| 0 <= j < bucket_size && j != idx ==> #[trigger] bit(final(self)@.bytes, bucket_size as int, j) == bit(old(self)@.bytes, bucket_size as int, j),
r is Ok ==> rd(final(self)@.bytes, 0, 128) == rd(old(self)@.bytes, 0, 128),
r is Ok ==> final(self)@.unflushed && final(self)@.unsynced
@entry
let ghost b0 = old(self)@.bytes;
let ghost n = bucket_size as int;
let ghost bp = bm_start(n) + (idx as int) / 8;
let ghost mut b1 = b0;
@after-call write_u8 1
proof {
    b1 = self@.bytes;
    lemma_write_at_basic(b0, bp, seq![b1[bp]]);
    assert(b1 == write_at(b0, bp as nat, seq![b1[bp]]));
}
@exit
proof {
    if r__ is Ok {
        let b2 = self@.bytes;
        let p = bucket_pos(idx as int);
        assert(b1.len() == b0.len());
        lemma_le_bytes_len(offset.val as nat, 8);
        lemma_write_at_basic(b1, p, le_bytes(offset.val as nat, 8));
        lemma_write_le64(b1, p, offset.val as nat);
        assert forall|j: int| 0 <= j < n && j != idx implies #[trigger] bucket(b2, j) == bucket(b0, j) by {
            lemma_write_at_rd(b1, p, le_bytes(offset.val as nat, 8), bucket_pos(j), 8);
            lemma_write_at_rd(b0, bp, seq![b1[bp]], bucket_pos(j), 8);
        }
        lemma_write_at_rd(b1, p, le_bytes(offset.val as nat, 8), 0, 128);
        lemma_write_at_rd(b0, bp, seq![b1[bp]], 0, 128);
        lemma_write_at_rd(b1, p, le_bytes(offset.val as nat, 8), 16, 8);
        lemma_write_at_rd(b0, bp, seq![b1[bp]], 16, 8);
        assert forall|j: int| 0 <= j < n implies #[trigger] bit(b2, n, j) == (if j == idx { offset.val != 0 } else { bit(b0, n, j) }) by {
            let q = bm_start(n) + j / 8;
            assert(b2[q] == b1[q]);
            if q == bp { lemma_bits(b0[bp], (idx % 8) as u64, (j % 8) as u64); }
            else { assert(b1[q] == b0[q]); }
        }
        assert forall|i: int| 0 <= i < n && #[trigger] bucket(b2, i) != 0 implies bit(b2, n, i) by {
            if i != idx { assert(bucket(b2, i) == bucket(b0, i)); assert(bit(b2, n, i) == bit(b0, n, i)); }
        }
    }
}
@end

@fn src/filedb/inner/htx.rs | impl VarFile | next_key_piece_offset
@serves C04 C15
@requires
htx_wf(old(self)@.bytes, buckets_size as int), idx < buckets_size
@ensures
okh(old(self)@, final(self)@, r), same_but_pos(old(self)@, final(self)@), final(self).piece_mgr == old(self).piece_mgr,
r is Ok ==> idx < r->Ok_0.0 <= buckets_size,
r is Ok ==> all_empty(old(self)@.bytes, idx as int, r->Ok_0.0 - 1),
r is Ok ==> r->Ok_0.1.val as nat == bucket(old(self)@.bytes, r->Ok_0.0 - 1),
r is Ok ==> (r->Ok_0.1.val == 0 ==> r->Ok_0.0 == buckets_size)
@entry
let ghost idx0 = idx as int;
let ghost n = buckets_size as int;
let ghost b0 = old(self)@.bytes;
let ghost f0 = old(self)@;
proof { broadcast use axiom_sizeof_u64; }
@loop 1 invariant
htx_wf(b0, n), b0 == f0.bytes, same_but_pos(f0, self@), okh2(f0, self@), f0 == old(self)@, self.piece_mgr == old(self).piece_mgr, n == buckets_size, idx0 % 8 == 0, idx0 < n,
idx % 8 == 0, idx0 <= idx <= n + 64, self@.pos == bm_start(n) + idx / 8,
byte_8 == 0 ==> idx <= n && all_empty(b0, idx0, idx as int),
byte_8 != 0 ==> idx >= idx0 + 64 && idx <= n && all_empty(b0, idx0, idx - 64)
@loop 1 decreases
buckets_size + 64 - idx
@loop 1 body-end
proof {
    if byte_8 == 0 {
        lemma_le64_zero(b0, bm_start(n) + (idx - 64) / 8);
        lemma_zero_bytes_empty(b0, n, idx - 64, 8);
    }
}
@loop 2 invariant
htx_wf(b0, n), b0 == f0.bytes, same_but_pos(f0, self@), okh2(f0, self@), f0 == old(self)@, self.piece_mgr == old(self).piece_mgr, n == buckets_size, idx0 % 8 == 0, idx0 < n,
idx % 8 == 0, idx0 <= idx <= n, self@.pos == bm_start(n) + idx / 8,
byte == 0 ==> all_empty(b0, idx0, idx as int),
byte != 0 ==> idx >= idx0 + 8 && all_empty(b0, idx0, idx - 8)
@loop 2 decreases
buckets_size + 8 - idx
@loop 2 body-end
proof {
    if byte == 0 { lemma_zero_bytes_empty(b0, n, idx - 8, 1); }
}
@loop 3 invariant
htx_wf(b0, n), b0 == f0.bytes, same_but_pos(f0, self@), okh2(f0, self@), f0 == old(self)@, self.piece_mgr == old(self).piece_mgr, n == buckets_size,
idx0 <= idx <= n, self@.pos == bucket_pos(idx as int),
off == 0 ==> all_empty(b0, idx0, idx as int),
off != 0 ==> idx > idx0 && all_empty(b0, idx0, idx - 1) && off as nat == bucket(b0, idx - 1)
@loop 3 decreases
buckets_size - idx
@end

@fn src/filedb/inner/htx.rs | impl HtxFile | read_key_piece_offset
@opts mutself
@serves C12 C01
@requires
old(self).wf()
@ensures
final(self).same(old(self)), okh(old(self).0.file@, final(self).0.file@, r),
r is Ok ==> r->Ok_0.val as nat == bucket(old(self).bytes(), (hash.val % old(self).0.buckets_size) as int)
@end

@fn src/filedb/inner/htx.rs | impl HtxFile | write_key_piece_offset
@opts mutself
@serves C04 C05 C12 C18
@requires
old(self).wf()
@ensures
final(self).0.buckets_size == old(self).0.buckets_size, final(self).0.file.piece_mgr == old(self).0.file.piece_mgr,
okh(old(self).0.file@, final(self).0.file@, r),
r is Ok ==> final(self).wf(),
r is Ok ==> bucket(final(self).bytes(), (hash.val % old(self).0.buckets_size) as int) == offset.val,
r is Ok ==> forall|j: int| 0 <= j < old(self).n() && j != (hash.val % old(self).0.buckets_size) ==> #[trigger] bucket(final(self).bytes(), j) == bucket(old(self).bytes(), j),
r is Ok ==> rd(final(self).bytes(), 0, 128) == rd(old(self).bytes(), 0, 128),
r is Ok ==> final(self).0.file@.unflushed && final(self).0.file@.unsynced
@end

@fn src/filedb/inner/htx.rs | impl HtxFile | read_hash_buckets_size
@opts mutself
@requires
old(self).wf()
@ensures
final(self).same(old(self)), okh(old(self).0.file@, final(self).0.file@, r),
r is Ok ==> r->Ok_0 == old(self).0.buckets_size
@end

@fn src/filedb/inner/htx.rs | impl HtxFile | read_item_count
@opts mutself
@requires
old(self).wf()
@ensures
final(self).same(old(self)), okh(old(self).0.file@, final(self).0.file@, r),
r is Ok ==> r->Ok_0 as nat == htx_count(old(self).bytes())
@end

@fn src/filedb/inner/htx.rs | impl HtxFile | write_item_count_up
@requires
old(self).wf(), htx_count(old(self).bytes()) < u64::MAX
@ensures
final(self).0.buckets_size == old(self).0.buckets_size, final(self).0.file.piece_mgr == old(self).0.file.piece_mgr,
okh(old(self).0.file@, final(self).0.file@, r),
r is Ok ==> final(self).0.file@.bytes == write_at(old(self).bytes(), 24, le_bytes(htx_count(old(self).bytes()) + 1, 8)),
r is Ok ==> final(self).0.file@.unflushed && final(self).0.file@.unsynced
@end

@fn src/filedb/inner/htx.rs | impl HtxFile | write_item_count_down
@requires
old(self).wf()
@ensures
final(self).0.buckets_size == old(self).0.buckets_size, final(self).0.file.piece_mgr == old(self).0.file.piece_mgr,
okh(old(self).0.file@, final(self).0.file@, r),
r is Ok && htx_count(old(self).bytes()) > 0 ==> final(self).0.file@.bytes == write_at(old(self).bytes(), 24, le_bytes((htx_count(old(self).bytes()) - 1) as nat, 8)),
r is Ok && htx_count(old(self).bytes()) == 0 ==> final(self).0.file@.bytes == old(self).bytes()
@end

@fn src/filedb/inner/htx.rs | impl HtxFile | htx_filling_rate_per_mill
@opts mutself
@serves C17 C15
@requires
old(self).wf()
@ensures
final(self).same(old(self)), okh(old(self).0.file@, final(self).0.file@, r),
r is Ok ==> r->Ok_0.0 as nat == nonempty_count(old(self).bytes(), old(self).n()),
r is Ok ==> r->Ok_0.1 as nat == (nonempty_count(old(self).bytes(), old(self).n()) * 1000) / (old(self).n() as nat)
@loop 1 invariant
self.0 == *final(locked),
locked.buckets_size == buckets_size, buckets_size == old(self).0.buckets_size, htx_wf(locked.file@.bytes, buckets_size as int),
locked.file@.bytes == old(self).bytes(), same_but_pos(old(self).0.file@, locked.file@), okh2(old(self).0.file@, locked.file@),
locked.file.piece_mgr == old(self).0.file.piece_mgr,
count as nat == nonempty_count(old(self).bytes(), idx as int), count <= idx
@exit
proof {
    lemma_nonempty_bound(old(self).bytes(), old(self).n());
    let c = nonempty_count(old(self).bytes(), old(self).n()) as int; let nn = old(self).n();
    assert(c * 1000 / nn <= 1000) by (nonlinear_arith) requires 0 <= c <= nn, nn > 0;
}
@end

@fn src/filedb/inner/htx.rs | impl HtxFile | flush
@opts mutself
@serves C03 C16
@ensures
final(self).0.buckets_size == old(self).0.buckets_size, final(self).0.file.piece_mgr == old(self).0.file.piece_mgr,
okh(old(self).0.file@, final(self).0.file@, r),
final(self).0.file@.bytes == old(self).0.file@.bytes, final(self).0.file@.pos == old(self).0.file@.pos,
r is Ok ==> !final(self).0.file@.unflushed && final(self).0.file@.unsynced == old(self).0.file@.unsynced,
r is Err ==> final(self).0.file@.unflushed == old(self).0.file@.unflushed && final(self).0.file@.unsynced == old(self).0.file@.unsynced
@end

@fn src/filedb/inner/htx.rs | impl HtxFile | sync_all
@opts mutself
@serves C03 C16
@ensures
final(self).0.buckets_size == old(self).0.buckets_size, final(self).0.file.piece_mgr == old(self).0.file.piece_mgr,
okh(old(self).0.file@, final(self).0.file@, r),
final(self).0.file@.bytes == old(self).0.file@.bytes, final(self).0.file@.pos == old(self).0.file@.pos,
r is Ok ==> !final(self).0.file@.unflushed && !final(self).0.file@.unsynced,
r is Err ==> (final(self).0.file@.unflushed ==> old(self).0.file@.unflushed) && final(self).0.file@.unsynced == old(self).0.file@.unsynced
@end

@fn src/filedb/inner/htx.rs | impl HtxFile | sync_data
@opts mutself
@serves C03 C16
@ensures
final(self).0.buckets_size == old(self).0.buckets_size, final(self).0.file.piece_mgr == old(self).0.file.piece_mgr,
okh(old(self).0.file@, final(self).0.file@, r),
final(self).0.file@.bytes == old(self).0.file@.bytes, final(self).0.file@.pos == old(self).0.file@.pos,
r is Ok ==> !final(self).0.file@.unflushed && !final(self).0.file@.unsynced,
r is Err ==> (final(self).0.file@.unflushed ==> old(self).0.file@.unflushed) && final(self).0.file@.unsynced == old(self).0.file@.unsynced
@end

@fn src/filedb/inner/htx.rs | impl HtxFile | read_fill_buffer
@opts mutself
@serves C15
@ensures
final(self).same(old(self)), okh(old(self).0.file@, final(self).0.file@, r)
@end
@endmod
