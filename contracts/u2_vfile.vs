# vfile.rs — unit U2: VarFile over the BufFile shim. All bodies come from /repo.
@type src/filedb/inner/piece.rs | PieceMgr
@type src/filedb/inner/vfile.rs | VarFile

@raw
pub type File = StdFile;

pub mod rabuf {
    use super::*;
    verus! {
    pub use super::MaybeSlice;
    /// T1: rabuf::roundup_powerof2
    #[verifier::external_body]
    pub fn roundup_powerof2(x: u32) -> (r: u32)
        ensures (r == x) <==> is_pow2(x as nat)
    { unimplemented!() }
    }
}

pub mod vu64 {
    use super::*;
    verus! {
    /// T2 (Kani U0): vu64::decoded_len
    #[verifier::external_body]
    pub fn decoded_len(byte: u8) -> (r: u8)
        ensures r as nat == vu64_dlen(byte), 1 <= r <= 9
    { unimplemented!() }
    /// T2 (Kani U0): vu64::encoded_len
    #[verifier::external_body]
    pub fn encoded_len(value: u64) -> (r: u8)
        ensures r as nat == enc_len(value as nat), 1 <= r <= 9
    { unimplemented!() }
    #[verifier::external_body]
    pub struct Error { _x: u8 }
    /// T2 (Kani U0): vu64::decode_with_first_and_follow_le
    #[verifier::external_body]
    pub fn decode_with_first_and_follow_le(length: u8, first_byte: u8, follow_le_max_8_bytes: u64) -> (r: core::result::Result<u64, Error>)
        requires 1 <= length <= 9
        ensures
            r is Ok <==> vu64_dec_le(length as nat, first_byte, follow_le_max_8_bytes as nat) is Some,
            r is Ok ==> r->Ok_0 as nat == vu64_dec_le(length as nat, first_byte, follow_le_max_8_bytes as nat)->Some_0,
    { unimplemented!() }
    }
}

verus! {

impl VarFile {
    /// the byte-level view of a VarFile is the view of its buffered file
    pub open spec fn view(&self) -> FileV { self.buf_file@ }

    // ---- std / vu64 *provided* trait methods the crate calls on VarFile (dependency code, T1/T3) ----
    /// std::io::Seek::stream_position == seek(Current(0))
    #[verifier::external_body]
    pub fn stream_position(&mut self) -> (r: Result<u64>)
        requires old(self)@.pos <= old(self)@.bytes.len()
        ensures okh(old(self)@, final(self)@, r), final(self)@ == old(self)@, final(self).piece_mgr == old(self).piece_mgr, r is Ok ==> r->Ok_0 == old(self)@.pos,
    { unimplemented!() }
    /// std::io::Write::write_all: loops over `write` until everything is written
    #[verifier::external_body]
    pub fn write_all(&mut self, buf: &[u8]) -> (r: Result<()>)
        requires old(self)@.pos <= old(self)@.bytes.len()
        ensures okh(old(self)@, final(self)@, r), final(self).piece_mgr == old(self).piece_mgr,
            r is Ok ==> final(self)@ == wrote(old(self)@, buf@),
    { unimplemented!() }
    /// std::io::Read::read_exact
    #[verifier::external_body]
    pub fn read_exact(&mut self, buf: &mut [u8]) -> (r: Result<()>)
        requires old(self)@.pos + old(buf)@.len() <= old(self)@.bytes.len()
        ensures okh(old(self)@, final(self)@, r), final(self).piece_mgr == old(self).piece_mgr, final(buf)@.len() == old(buf)@.len(),
            same_but_pos(old(self)@, final(self)@),
            r is Ok ==> final(self)@ == moved(old(self)@, (old(self)@.pos + old(buf)@.len()) as int),
            r is Ok ==> final(buf)@ == rd(old(self)@.bytes, old(self)@.pos as int, old(buf)@.len() as int),
    { unimplemented!() }
    /// vu64::io::WriteVu64::encode_and_write_vu64 == write_all(vu64::encode(v))
    #[verifier::external_body]
    pub fn encode_and_write_vu64(&mut self, value: u64) -> (r: Result<()>)
        requires old(self)@.pos <= old(self)@.bytes.len()
        ensures okh(old(self)@, final(self)@, r), final(self).piece_mgr == old(self).piece_mgr,
            r is Ok ==> final(self)@ == wrote(old(self)@, vu64_enc(value as nat)),
    { unimplemented!() }
}

/// std::io::Error::new(ErrorKind::Other, String)
#[verifier::external_body]
pub fn io_error_other(msg: String) -> (r: std::io::Error)
{ std::io::Error::new(std::io::ErrorKind::Other, msg) }

/// "the bytes at `p` begin with the vu64 encoding of `v`"
pub open spec fn vu64_at(b: Seq<u8>, p: int, v: nat) -> bool {
    &&& v <= u64::MAX
    &&& 0 <= p
    &&& p + enc_len(v) <= b.len()
    &&& rd(b, p, enc_len(v) as int) == vu64_enc(v)
}
/// width announced by the first byte at `p`
pub open spec fn vu64_w(b: Seq<u8>, p: int) -> nat { vu64_dlen(b[p]) }
/// what the crate's reader decodes at `p` (None = redundant encoding, reported as io::Error)
pub open spec fn vu64_rd(b: Seq<u8>, p: int) -> Option<nat> {
    if b[p] < 128u8 { Some(b[p] as nat) }
    else { vu64_dec_le(vu64_w(b, p), b[p], le_val(rd(b, p + 1, vu64_w(b, p) - 1))) }
}
/// the reader can run at `p`: stays inside the file and decodes
pub open spec fn vu64_ok(b: Seq<u8>, p: int) -> bool {
    &&& 0 <= p < b.len()
    &&& p + vu64_w(b, p) <= b.len()
    &&& vu64_rd(b, p) is Some
    &&& vu64_rd(b, p)->Some_0 <= u64::MAX
}
pub open spec fn vu64_val(b: Seq<u8>, p: int) -> nat { vu64_rd(b, p)->Some_0 }

/// reader inverse of writer (from the T2 axioms)
pub proof fn lemma_vu64_at(b: Seq<u8>, p: int, v: nat)
    requires vu64_at(b, p, v)
    ensures vu64_ok(b, p), vu64_val(b, p) == v, vu64_w(b, p) == enc_len(v)
{
    axiom_vu64(v);
    axiom_vu64_dlen(b[p]);
    let e = vu64_enc(v);
    let n = enc_len(v) as int;
    assert(rd(b, p, n)[0] == b[p]);
    assert(e[0] == b[p]);
    assert(rd(b, p + 1, n - 1) =~= e.subrange(1, n));
}

} // verus!
@end

@include u2_vfile_deleg.vs

@fn src/filedb/inner/vfile.rs | impl VarFile | new
@serves C07
@ensures
r is Ok ==> r->Ok_0@.bytes == file.content() && r->Ok_0@.pos == 0 && !r->Ok_0@.unflushed && r->Ok_0@.chunk == 4096,
r is Ok ==> r->Ok_0.piece_mgr == piece_mgr
@end

@fn src/filedb/inner/vfile.rs | impl VarFile | with_capacity
@serves C07
@requires
max_num_chunks >= 2, is_pow2(chunk_size as nat)
@ensures
r is Ok ==> r->Ok_0@.bytes == file.content() && r->Ok_0@.pos == 0 && !r->Ok_0@.unflushed && r->Ok_0@.chunk == chunk_size,
r is Ok ==> r->Ok_0.piece_mgr == piece_mgr
@end

@fn src/filedb/inner/vfile.rs | impl VarFile | with_per_mille
@serves C07
@requires
is_pow2(chunk_size as nat), per_mille >= 1000 || chunk_size <= 16 * 1024
@ensures
r is Ok ==> r->Ok_0@.bytes == file.content() && r->Ok_0@.pos == 0 && !r->Ok_0@.unflushed && r->Ok_0@.chunk == chunk_size,
r is Ok ==> r->Ok_0.piece_mgr == piece_mgr
@end

@fn src/filedb/inner/vfile.rs | impl VarFile | prepare
@requires
offset.val <= old(self)@.bytes.len()
@ensures
okh(old(self)@, final(self)@, r), final(self)@ == old(self)@, final(self).piece_mgr == old(self).piece_mgr
@end

@fn src/filedb/inner/vfile.rs | impl VarFile | seek_from_start
@requires
offset.val <= old(self)@.bytes.len()
@ensures
okh(old(self)@, final(self)@, r), same_but_pos(old(self)@, final(self)@), final(self).piece_mgr == old(self).piece_mgr,
r is Ok ==> final(self)@ == moved(old(self)@, offset.val as int) && r->Ok_0.val == offset.val
@end

@fn src/filedb/inner/vfile.rs | impl VarFile | seek_skip_length
@requires
old(self)@.pos + length.val <= old(self)@.bytes.len()
@ensures
okh(old(self)@, final(self)@, r), same_but_pos(old(self)@, final(self)@), final(self).piece_mgr == old(self).piece_mgr,
r is Ok ==> final(self)@ == moved(old(self)@, (old(self)@.pos + length.val) as int) && r->Ok_0.val == old(self)@.pos + length.val
@end

@fn src/filedb/inner/vfile.rs | impl VarFile | seek_back_size
@requires
old(self)@.pos >= size.val, old(self)@.pos <= old(self)@.bytes.len()
@ensures
okh(old(self)@, final(self)@, r), same_but_pos(old(self)@, final(self)@), final(self).piece_mgr == old(self).piece_mgr,
r is Ok ==> final(self)@ == moved(old(self)@, (old(self)@.pos - size.val) as int) && r->Ok_0.val == old(self)@.pos - size.val
@end

@fn src/filedb/inner/vfile.rs | impl VarFile | seek_to_end
@ensures
okh(old(self)@, final(self)@, r), same_but_pos(old(self)@, final(self)@), final(self).piece_mgr == old(self).piece_mgr,
r is Ok ==> final(self)@ == moved(old(self)@, old(self)@.bytes.len() as int) && r->Ok_0.val == old(self)@.bytes.len()
@end

@fn src/filedb/inner/vfile.rs | impl VarFile | seek_position
@requires
old(self)@.pos <= old(self)@.bytes.len()
@ensures
okh(old(self)@, final(self)@, r), final(self)@ == old(self)@, final(self).piece_mgr == old(self).piece_mgr, r is Ok ==> r->Ok_0.val == old(self)@.pos
@end

@fn src/filedb/inner/vfile.rs | impl VarFile | set_file_length
@ensures
okh(old(self)@, final(self)@, r), final(self).piece_mgr == old(self).piece_mgr,
r is Ok ==> final(self)@.bytes == (if file_length.val <= old(self)@.bytes.len() { old(self)@.bytes.subrange(0, file_length.val as int) } else { old(self)@.bytes + zeros((file_length.val - old(self)@.bytes.len()) as nat) }),
r is Ok ==> final(self)@.pos == (if old(self)@.pos <= file_length.val { old(self)@.pos } else { file_length.val as nat }),
r is Ok ==> final(self)@.unflushed && final(self)@.unsynced
@end

@fn src/filedb/inner/vfile.rs | impl VarFile | write_zero_to_offset
@serves C09 C18
@requires
old(self)@.pos <= old(self)@.bytes.len(),
offset.val - old(self)@.pos <= u32::MAX
@ensures
okh(old(self)@, final(self)@, r), final(self).piece_mgr == old(self).piece_mgr,
r is Ok && offset.val > old(self)@.pos ==> final(self)@ == wrote(old(self)@, zeros((offset.val - old(self)@.pos) as nat)),
r is Ok && offset.val <= old(self)@.pos ==> final(self)@ == old(self)@
@end

@fn src/filedb/inner/vfile.rs | impl ReadVu64 for VarFile | read_and_decode_vu64
@serves C12
@requires
0 <= old(self)@.pos < old(self)@.bytes.len(),
old(self)@.pos + vu64_w(old(self)@.bytes, old(self)@.pos as int) <= old(self)@.bytes.len()
@ensures
okh2(old(self)@, final(self)@), final(self).piece_mgr == old(self).piece_mgr,
same_but_pos(old(self)@, final(self)@),
old(self)@.healthy && vu64_rd(old(self)@.bytes, old(self)@.pos as int) is Some ==> r is Ok,
r is Ok ==> vu64_rd(old(self)@.bytes, old(self)@.pos as int) == Some(r->Ok_0 as nat),
r is Ok ==> final(self)@ == moved(old(self)@, (old(self)@.pos + vu64_w(old(self)@.bytes, old(self)@.pos as int)) as int)
@entry
proof { axiom_vu64_dlen(old(self)@.bytes[old(self)@.pos as int]); }
@exit
proof {
    let b = old(self)@.bytes; let p = old(self)@.pos as int;
    reveal_with_fuel(le_val, 2);
    assert(rd(b, p + 1, 0).len() == 0);
    if p + 2 <= b.len() { lemma_le_val_1(b, p + 1); }
}
@end

@fn src/filedb/inner/vfile.rs | impl VarFile | read_vu64_u32
@opts mapres
@requires
vu64_ok(old(self)@.bytes, old(self)@.pos as int), vu64_val(old(self)@.bytes, old(self)@.pos as int) <= u32::MAX
@ensures
okh(old(self)@, final(self)@, r), same_but_pos(old(self)@, final(self)@), final(self).piece_mgr == old(self).piece_mgr,
r is Ok ==> r->Ok_0 == vu64_val(old(self)@.bytes, old(self)@.pos as int) && final(self)@ == moved(old(self)@, (old(self)@.pos + vu64_w(old(self)@.bytes, old(self)@.pos as int)) as int)
@end

@fn src/filedb/inner/vfile.rs | impl VarFile | _read_vu64_u64
@opts mapres
@requires
vu64_ok(old(self)@.bytes, old(self)@.pos as int)
@ensures
okh(old(self)@, final(self)@, r), same_but_pos(old(self)@, final(self)@), final(self).piece_mgr == old(self).piece_mgr,
r is Ok ==> r->Ok_0 == vu64_val(old(self)@.bytes, old(self)@.pos as int) && final(self)@ == moved(old(self)@, (old(self)@.pos + vu64_w(old(self)@.bytes, old(self)@.pos as int)) as int)
@end

@fn src/filedb/inner/vfile.rs | impl VarFile | write_vu64_u32
@requires
old(self)@.pos <= old(self)@.bytes.len()
@ensures
okh(old(self)@, final(self)@, r), final(self).piece_mgr == old(self).piece_mgr,
r is Ok ==> final(self)@ == wrote(old(self)@, vu64_enc(value as nat))
@end

@fn src/filedb/inner/vfile.rs | impl VarFile | _write_vu64_u64
@requires
old(self)@.pos <= old(self)@.bytes.len()
@ensures
okh(old(self)@, final(self)@, r), final(self).piece_mgr == old(self).piece_mgr,
r is Ok ==> final(self)@ == wrote(old(self)@, vu64_enc(value as nat))
@end

@fn src/filedb/inner/vfile.rs | impl VarFile | read_free_piece_offset
@requires
old(self)@.pos + 8 <= old(self)@.bytes.len()
@ensures
okh(old(self)@, final(self)@, r), same_but_pos(old(self)@, final(self)@), final(self).piece_mgr == old(self).piece_mgr,
r is Ok ==> final(self)@ == moved(old(self)@, (old(self)@.pos + 8) as int) && r->Ok_0.val as nat == le64_at(old(self)@.bytes, old(self)@.pos as int)
@end

@fn src/filedb/inner/vfile.rs | impl VarFile | write_free_piece_offset
@requires
old(self)@.pos <= old(self)@.bytes.len()
@ensures
okh(old(self)@, final(self)@, r), final(self).piece_mgr == old(self).piece_mgr,
r is Ok ==> final(self)@ == wrote(old(self)@, le_bytes(offset.val as nat, 8))
@end

@fn src/filedb/inner/vfile.rs | impl VarFile | read_piece_offset
@serves C12
@opts mapres
@requires
vu64_ok(old(self)@.bytes, old(self)@.pos as int), vu64_val(old(self)@.bytes, old(self)@.pos as int) * 8 <= u64::MAX
@ensures
okh(old(self)@, final(self)@, r), same_but_pos(old(self)@, final(self)@), final(self).piece_mgr == old(self).piece_mgr,
r is Ok ==> r->Ok_0.val == vu64_val(old(self)@.bytes, old(self)@.pos as int) * 8 && final(self)@ == moved(old(self)@, (old(self)@.pos + vu64_w(old(self)@.bytes, old(self)@.pos as int)) as int)
@end

@fn src/filedb/inner/vfile.rs | impl VarFile | write_piece_offset
@serves C12
@requires
old(self)@.pos <= old(self)@.bytes.len(), piece_offset.val % 8 == 0
@ensures
okh(old(self)@, final(self)@, r), final(self).piece_mgr == old(self).piece_mgr,
r is Ok ==> final(self)@ == wrote(old(self)@, vu64_enc((piece_offset.val / 8) as nat))
@end

@fn src/filedb/inner/vfile.rs | impl VarFile | read_piece_size
@serves C12
@opts mapres
@requires
vu64_ok(old(self)@.bytes, old(self)@.pos as int), vu64_val(old(self)@.bytes, old(self)@.pos as int) * 8 <= u32::MAX
@ensures
okh(old(self)@, final(self)@, r), same_but_pos(old(self)@, final(self)@), final(self).piece_mgr == old(self).piece_mgr,
r is Ok ==> r->Ok_0.val == vu64_val(old(self)@.bytes, old(self)@.pos as int) * 8 && final(self)@ == moved(old(self)@, (old(self)@.pos + vu64_w(old(self)@.bytes, old(self)@.pos as int)) as int)
@end

@fn src/filedb/inner/vfile.rs | impl VarFile | write_piece_size
@serves C12
@requires
old(self)@.pos <= old(self)@.bytes.len(), piece_size.val % 8 == 0
@ensures
okh(old(self)@, final(self)@, r), final(self).piece_mgr == old(self).piece_mgr,
r is Ok ==> final(self)@ == wrote(old(self)@, vu64_enc((piece_size.val / 8) as nat))
@end

@fn src/filedb/inner/vfile.rs | impl VarFile | read_key_len
@opts mapres
@requires
vu64_ok(old(self)@.bytes, old(self)@.pos as int), vu64_val(old(self)@.bytes, old(self)@.pos as int) <= u32::MAX
@ensures
okh(old(self)@, final(self)@, r), same_but_pos(old(self)@, final(self)@), final(self).piece_mgr == old(self).piece_mgr,
r is Ok ==> r->Ok_0.val == vu64_val(old(self)@.bytes, old(self)@.pos as int) && final(self)@ == moved(old(self)@, (old(self)@.pos + vu64_w(old(self)@.bytes, old(self)@.pos as int)) as int)
@end

@fn src/filedb/inner/vfile.rs | impl VarFile | write_key_len
@requires
old(self)@.pos <= old(self)@.bytes.len()
@ensures
okh(old(self)@, final(self)@, r), final(self).piece_mgr == old(self).piece_mgr,
r is Ok ==> final(self)@ == wrote(old(self)@, vu64_enc(key_len.val as nat))
@end

@fn src/filedb/inner/vfile.rs | impl VarFile | read_value_len
@opts mapres
@requires
vu64_ok(old(self)@.bytes, old(self)@.pos as int), vu64_val(old(self)@.bytes, old(self)@.pos as int) <= u32::MAX
@ensures
okh(old(self)@, final(self)@, r), same_but_pos(old(self)@, final(self)@), final(self).piece_mgr == old(self).piece_mgr,
r is Ok ==> r->Ok_0.val == vu64_val(old(self)@.bytes, old(self)@.pos as int) && final(self)@ == moved(old(self)@, (old(self)@.pos + vu64_w(old(self)@.bytes, old(self)@.pos as int)) as int)
@end

@fn src/filedb/inner/vfile.rs | impl VarFile | write_value_len
@requires
old(self)@.pos <= old(self)@.bytes.len()
@ensures
okh(old(self)@, final(self)@, r), final(self).piece_mgr == old(self).piece_mgr,
r is Ok ==> final(self)@ == wrote(old(self)@, vu64_enc(value_len.val as nat))
@end
