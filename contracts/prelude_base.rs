// ================================================================================================
// prelude_base.rs — hand-written SPEC / PROOF / TRUSTED-SHIM text only (no executable crate code).
// Everything executable that is verified comes from /repo through tools/vx.py.
// ================================================================================================
use std::io::{Result, SeekFrom};
use std::marker::PhantomData;
use std::cmp::Ordering;

verus! {

// ---- external types ---------------------------------------------------------------------------
#[verifier::external_type_specification]
#[verifier::external_body]
pub struct ExIoError(std::io::Error);

#[verifier::external_type_specification]
pub struct ExSeekFrom(std::io::SeekFrom);

/// T3: `<[T]>::to_vec` returns an equal vector (the crate uses it at T = u8 only)
pub assume_specification<T: Clone>[ <[T]>::to_vec ](s: &[T]) -> (r: Vec<T>)
    ensures r@ == s@;

/// T3: u64::next_power_of_two (std): smallest power of two >= x (1 for 0); overflow excluded by the bound
pub assume_specification[ u64::next_power_of_two ](x: u64) -> (r: u64)
    requires x <= 0x4000_0000_0000_0000
    ensures is_pow2(r as nat), r >= x, r >= 1, x >= 1 ==> r < 2 * x, x == 0 ==> r == 1;

/// T3: u64::is_power_of_two (std)
pub assume_specification[ u64::is_power_of_two ](x: u64) -> (r: bool)
    ensures r == is_pow2(x as nat);

/// T3: `==` on core::cmp::Ordering (derived PartialEq of a std enum)
pub assume_specification[ <core::cmp::Ordering as PartialEq>::eq ](a: &core::cmp::Ordering, b: &core::cmp::Ordering) -> (r: bool)
    ensures r == (*a == *b);

// ---- R5 targets -------------------------------------------------------------------------------
/// `panic!/unimplemented!/unreachable!` sites: must be unreachable
#[verifier::external_body]
pub fn vpanic() -> !
    requires false
{ panic!() }

/// `assert!/debug_assert!` sites: condition must hold
#[verifier::external_body]
pub fn vassert(c: bool)
    requires c
{ assert!(c) }

/// intended refusal (allow-listed `assert!` in the header checkers, capacity 0): aborts, no precondition
#[verifier::external_body]
pub fn vabort() -> !
{ panic!() }

#[verifier::external_body]
pub fn vformat() -> (r: String)
{ String::new() }

// ---- byte-level file model (trusted base T1: rabuf::BufFile behaves like this) ------------------
pub struct FileV {
    pub bytes: Seq<u8>,
    pub pos: nat,
    /// some logical byte is not yet handed to the OS
    pub unflushed: bool,
    /// some logical byte is not yet known to be synced by the OS
    pub unsynced: bool,
    /// rabuf chunk size (limit of the *_small calls)
    pub chunk: nat,
    /// environment hypothesis: the OS accepts every request made through this file
    pub healthy: bool,
}

pub open spec fn zeros(n: nat) -> Seq<u8> { Seq::new(n, |i: int| 0u8) }

/// bytes after writing `data` at `pos` (`pos <= b.len()`): overwrite and, if needed, extend
pub open spec fn write_at(b: Seq<u8>, pos: nat, data: Seq<u8>) -> Seq<u8> {
    if pos + data.len() <= b.len() {
        b.subrange(0, pos as int) + data + b.subrange((pos + data.len()) as int, b.len() as int)
    } else {
        b.subrange(0, pos as int) + data
    }
}

/// the same file state after a pure cursor move
pub open spec fn moved(f: FileV, pos: int) -> FileV { FileV { pos: pos as nat, ..f } }
/// `n` bytes of `b` starting at `p`
pub open spec fn rd(b: Seq<u8>, p: int, n: int) -> Seq<u8> { b.subrange(p, p + n) }

/// state after a successful write of `data` at the cursor
pub open spec fn wrote(f: FileV, data: Seq<u8>) -> FileV {
    FileV { bytes: write_at(f.bytes, f.pos, data), pos: f.pos + data.len(), unflushed: true, unsynced: true, ..f }
}

/// healthy file system ==> the call succeeds; health is an environment fact, never changed by a call
pub open spec fn okh<T>(o: FileV, n: FileV, r: Result<T>) -> bool {
    n.healthy == o.healthy && n.chunk == o.chunk && (o.healthy ==> r is Ok)
}
/// nothing but the cursor changed (reads and seeks, also when they fail)
pub open spec fn same_but_pos(o: FileV, n: FileV) -> bool { n == moved(o, n.pos as int) }
pub open spec fn okh2(o: FileV, n: FileV) -> bool {
    n.healthy == o.healthy && n.chunk == o.chunk
}

// ---- little-endian integers ---------------------------------------------------------------------
pub open spec fn le_val(s: Seq<u8>) -> nat
    decreases s.len()
{
    if s.len() == 0 { 0 } else { s[0] as nat + 256 * le_val(s.subrange(1, s.len() as int)) }
}
pub open spec fn le_bytes(v: nat, n: nat) -> Seq<u8>
    decreases n
{
    if n == 0 { Seq::empty() } else { seq![(v % 256) as u8] + le_bytes(v / 256, (n - 1) as nat) }
}
pub open spec fn le64_at(b: Seq<u8>, p: int) -> nat { le_val(rd(b, p, 8)) }

pub proof fn lemma_le_val_1(b: Seq<u8>, p: int)
    requires 0 <= p < b.len()
    ensures le_val(rd(b, p, 1)) == b[p] as nat
{
    reveal_with_fuel(le_val, 2);
    let s = rd(b, p, 1);
    assert(s.len() == 1);
    assert(s[0] == b[p]);
    assert(s.subrange(1, 1).len() == 0);
}

pub proof fn lemma_le_bytes_len(v: nat, n: nat)
    ensures le_bytes(v, n).len() == n
    decreases n
{
    if n > 0 { lemma_le_bytes_len(v / 256, (n - 1) as nat); }
}

pub proof fn lemma_le_val_bytes(v: nat, n: nat)
    requires n <= 8, v < pow256(n)
    ensures le_val(le_bytes(v, n)) == v
    decreases n
{
    lemma_le_bytes_len(v, n);
    if n > 0 {
        let s = le_bytes(v, n);
        let rest = le_bytes(v / 256, (n - 1) as nat);
        assert(s.subrange(1, s.len() as int) =~= rest);
        assert(v / 256 < pow256((n - 1) as nat)) by (nonlinear_arith)
            requires v < 256 * pow256((n - 1) as nat);
        lemma_le_val_bytes(v / 256, (n - 1) as nat);
        assert(s[0] == (v % 256) as u8);
        assert(v == (v % 256) + 256 * (v / 256)) by (nonlinear_arith);
    }
}
pub open spec fn pow256(n: nat) -> nat
    decreases n
{ if n == 0 { 1 } else { 256 * pow256((n - 1) as nat) } }

pub proof fn lemma_le_val_zero(s: Seq<u8>)
    ensures (le_val(s) == 0) <==> (forall|k: int| 0 <= k < s.len() ==> #[trigger] s[k] == 0u8)
    decreases s.len()
{
    if s.len() > 0 {
        let t = s.subrange(1, s.len() as int);
        lemma_le_val_zero(t);
        if le_val(s) == 0 {
            assert(s[0] == 0u8);
            assert(le_val(t) == 0);
            assert forall|k: int| 0 <= k < s.len() implies #[trigger] s[k] == 0u8 by {
                if k > 0 { assert(t[k - 1] == s[k]); }
            }
        } else {
            if forall|k: int| 0 <= k < s.len() ==> #[trigger] s[k] == 0u8 {
                assert forall|k: int| 0 <= k < t.len() implies #[trigger] t[k] == 0u8 by { assert(t[k] == s[k + 1]); }
                assert(le_val(t) == 0);
                assert(s[0] == 0u8);
            }
        }
    }
}

pub proof fn lemma_le_val_bound(s: Seq<u8>)
    ensures le_val(s) < pow256(s.len())
    decreases s.len()
{
    if s.len() > 0 {
        lemma_le_val_bound(s.subrange(1, s.len() as int));
    }
}

// ---- vu64 codec (trusted base T2: discharged on the real dependency by Kani unit U0) -----------
pub open spec fn enc_len(v: nat) -> nat {
    if v <= 0x7F { 1 } else if v <= 0x3FFF { 2 } else if v <= 0x1F_FFFF { 3 } else if v <= 0x0FFF_FFFF { 4 }
    else if v <= 0x07_FFFF_FFFF { 5 } else if v <= 0x03FF_FFFF_FFFF { 6 } else if v <= 0x01_FFFF_FFFF_FFFF { 7 }
    else if v <= 0xFF_FFFF_FFFF_FFFF { 8 } else { 9 }
}
/// the byte string `vu64::encode(v)` produces
pub uninterp spec fn vu64_enc(v: nat) -> Seq<u8>;
/// `vu64::decoded_len(first byte)`
pub uninterp spec fn vu64_dlen(b: u8) -> nat;
/// `vu64::decode_with_first_and_follow_le(len, first, follow)` (Some = Ok)
pub uninterp spec fn vu64_dec_le(len: nat, first: u8, follow: nat) -> Option<nat>;

/// T2 axioms; each conjunct is a Kani harness of unit U0 on the real vu64 code (see kani/u0_vu64.rs)
#[verifier::external_body]
pub broadcast proof fn axiom_vu64(v: nat)
    requires v <= u64::MAX
    ensures
        #![trigger vu64_enc(v)]
        vu64_enc(v).len() == enc_len(v),
        vu64_dlen(vu64_enc(v)[0]) == enc_len(v),
        (vu64_enc(v)[0] < 128u8) <==> (v < 128),
        v < 128 ==> vu64_enc(v)[0] as nat == v,
        vu64_dec_le(enc_len(v), vu64_enc(v)[0], le_val(vu64_enc(v).subrange(1, enc_len(v) as int))) == Some(v),
{}

#[verifier::external_body]
pub broadcast proof fn axiom_vu64_dlen(b: u8)
    ensures 1 <= #[trigger] vu64_dlen(b) <= 9, b < 128u8 ==> vu64_dlen(b) == 1
{}

// ---- rabuf::BufFile shim (T1). Contracts are Appendix B of DESIGN.md -----------------------------
#[verifier::external_body]
pub struct BufFile { _x: u8 }

#[verifier::external_body]
pub struct StdFile { _x: u8 }

#[verifier::external_body]
pub struct MaybeSlice<'a> { x: &'a [u8] }
impl<'a> MaybeSlice<'a> {
    pub uninterp spec fn view(&self) -> Seq<u8>;
    #[verifier::external_body]
    pub fn to_vec(&self) -> (r: Vec<u8>) ensures r@ == self@ { unimplemented!() }
    #[verifier::external_body]
    pub fn into_vec(self) -> (r: Vec<u8>) ensures r@ == self@ { unimplemented!() }
}
impl<'a> std::ops::Deref for MaybeSlice<'a> {
    type Target = [u8];
    #[verifier::external_body]
    fn deref(&self) -> (r: &[u8]) ensures r@ == self@ { unimplemented!() }
}

impl StdFile {
    /// content of the OS file when it was opened
    pub uninterp spec fn content(&self) -> Seq<u8>;
}

impl BufFile {
    pub uninterp spec fn view(&self) -> FileV;

    #[verifier::external_body]
    pub fn new(name: &str, file: StdFile) -> (r: Result<BufFile>)
        ensures r is Ok ==> r->Ok_0@.bytes == file.content() && r->Ok_0@.pos == 0 && !r->Ok_0@.unflushed && r->Ok_0@.chunk == 4096,
    { unimplemented!() }
    #[verifier::external_body]
    pub fn with_capacity(name: &str, file: StdFile, chunk_size: u32, max_num_chunks: u16) -> (r: Result<BufFile>)
        requires max_num_chunks >= 2, is_pow2(chunk_size as nat),
        ensures r is Ok ==> r->Ok_0@.bytes == file.content() && r->Ok_0@.pos == 0 && !r->Ok_0@.unflushed && r->Ok_0@.chunk == chunk_size,
    { unimplemented!() }
    #[verifier::external_body]
    pub fn with_per_mille(name: &str, file: StdFile, chunk_size: u32, per_mille: u16) -> (r: Result<BufFile>)
        requires is_pow2(chunk_size as nat), per_mille >= 1000 || chunk_size <= 16 * 1024,
        ensures r is Ok ==> r->Ok_0@.bytes == file.content() && r->Ok_0@.pos == 0 && !r->Ok_0@.unflushed && r->Ok_0@.chunk == chunk_size,
    { unimplemented!() }

    #[verifier::external_body]
    pub fn seek(&mut self, pos: SeekFrom) -> (r: Result<u64>)
        requires
            pos matches SeekFrom::Start(x) ==> x <= old(self)@.bytes.len(),
            pos matches SeekFrom::Current(d) ==> 0 <= old(self)@.pos + d <= old(self)@.bytes.len(),
            pos matches SeekFrom::End(d) ==> d == 0,
        ensures
            okh(old(self)@, final(self)@, r), same_but_pos(old(self)@, final(self)@),
            r is Ok ==> final(self)@ == moved(old(self)@, r->Ok_0 as int),
            r is Ok ==> (pos matches SeekFrom::Start(x) ==> r->Ok_0 == x),
            r is Ok ==> (pos matches SeekFrom::Current(d) ==> r->Ok_0 == old(self)@.pos + d),
            r is Ok ==> (pos matches SeekFrom::End(d) ==> r->Ok_0 == old(self)@.bytes.len()),
    { unimplemented!() }
    #[verifier::external_body]
    pub fn stream_position(&mut self) -> (r: Result<u64>)
        requires old(self)@.pos <= old(self)@.bytes.len()
        ensures okh(old(self)@, final(self)@, r), final(self)@ == old(self)@, r is Ok ==> r->Ok_0 == old(self)@.pos,
    { unimplemented!() }
    #[verifier::external_body]
    pub fn prepare(&mut self, offset: u64) -> (r: Result<()>)
        requires offset <= old(self)@.bytes.len()
        ensures okh(old(self)@, final(self)@, r), final(self)@ == old(self)@,
    { unimplemented!() }
    #[verifier::external_body]
    pub fn set_len(&mut self, n: u64) -> (r: Result<()>)
        ensures okh(old(self)@, final(self)@, r),
            r is Ok ==> final(self)@.bytes == (if n <= old(self)@.bytes.len() { old(self)@.bytes.subrange(0, n as int) } else { old(self)@.bytes + zeros((n - old(self)@.bytes.len()) as nat) }),
            r is Ok ==> final(self)@.pos == (if old(self)@.pos <= n { old(self)@.pos } else { n as nat }),
            r is Ok ==> final(self)@.unflushed && final(self)@.unsynced,
    { unimplemented!() }
    #[verifier::external_body]
    pub fn read_fill_buffer(&mut self) -> (r: Result<()>)
        ensures okh(old(self)@, final(self)@, r), same_but_pos(old(self)@, final(self)@),
    { unimplemented!() }
    #[verifier::external_body]
    pub fn clear(&mut self) -> (r: Result<()>)
        ensures okh(old(self)@, final(self)@, r),
    { unimplemented!() }

    // -- reads: must stay inside the file (a read that starts inside but runs past the end returns chunk padding or fails)
    #[verifier::external_body]
    pub fn read_u8(&mut self) -> (r: Result<u8>)
        requires old(self)@.pos + 1 <= old(self)@.bytes.len()
        ensures okh(old(self)@, final(self)@, r), same_but_pos(old(self)@, final(self)@), r is Ok ==> final(self)@ == moved(old(self)@, (old(self)@.pos + 1) as int),
            r is Ok ==> r->Ok_0 == old(self)@.bytes[old(self)@.pos as int],
    { unimplemented!() }
    #[verifier::external_body]
    pub fn read_u16_le(&mut self) -> (r: Result<u16>)
        requires old(self)@.pos + 2 <= old(self)@.bytes.len()
        ensures okh(old(self)@, final(self)@, r), same_but_pos(old(self)@, final(self)@), r is Ok ==> final(self)@ == moved(old(self)@, (old(self)@.pos + 2) as int),
            r is Ok ==> r->Ok_0 as nat == le_val(rd(old(self)@.bytes, old(self)@.pos as int, 2)),
    { unimplemented!() }
    #[verifier::external_body]
    pub fn read_u32_le(&mut self) -> (r: Result<u32>)
        requires old(self)@.pos + 4 <= old(self)@.bytes.len()
        ensures okh(old(self)@, final(self)@, r), same_but_pos(old(self)@, final(self)@), r is Ok ==> final(self)@ == moved(old(self)@, (old(self)@.pos + 4) as int),
            r is Ok ==> r->Ok_0 as nat == le_val(rd(old(self)@.bytes, old(self)@.pos as int, 4)),
    { unimplemented!() }
    #[verifier::external_body]
    pub fn read_u64_le(&mut self) -> (r: Result<u64>)
        requires old(self)@.pos + 8 <= old(self)@.bytes.len()
        ensures okh(old(self)@, final(self)@, r), same_but_pos(old(self)@, final(self)@), r is Ok ==> final(self)@ == moved(old(self)@, (old(self)@.pos + 8) as int),
            r is Ok ==> r->Ok_0 as nat == le64_at(old(self)@.bytes, old(self)@.pos as int),
    { unimplemented!() }
    #[verifier::external_body]
    pub fn read_max_8_bytes(&mut self, size: usize) -> (r: Result<u64>)
        requires size <= 8, old(self)@.pos + size <= old(self)@.bytes.len()
        ensures okh(old(self)@, final(self)@, r), same_but_pos(old(self)@, final(self)@), r is Ok ==> final(self)@ == moved(old(self)@, (old(self)@.pos + size) as int),
            r is Ok ==> r->Ok_0 as nat == le_val(rd(old(self)@.bytes, old(self)@.pos as int, size as int)),
    { unimplemented!() }
    #[verifier::external_body]
    pub fn read_exact_small(&mut self, buf: &mut [u8]) -> (r: Result<()>)
        requires old(buf)@.len() <= old(self)@.chunk, old(self)@.pos + old(buf)@.len() <= old(self)@.bytes.len()
        ensures okh(old(self)@, final(self)@, r), same_but_pos(old(self)@, final(self)@), final(buf)@.len() == old(buf)@.len(),
            r is Ok ==> final(self)@ == moved(old(self)@, (old(self)@.pos + old(buf)@.len()) as int),
            r is Ok ==> final(buf)@ == rd(old(self)@.bytes, old(self)@.pos as int, old(buf)@.len() as int),
    { unimplemented!() }
    #[verifier::external_body]
    pub fn read_exact_maybeslice(&mut self, size: usize) -> (r: Result<MaybeSlice<'_>>)
        requires old(self)@.pos + size <= old(self)@.bytes.len()
        ensures okh(old(self)@, final(self)@, r), same_but_pos(old(self)@, final(self)@), r is Ok ==> final(self)@ == moved(old(self)@, (old(self)@.pos + size) as int),
            r is Ok ==> r->Ok_0@ == rd(old(self)@.bytes, old(self)@.pos as int, size as int),
    { unimplemented!() }
    /// std::io::Read::read through rabuf: may return fewer bytes; only used through read_exact (shim on VarFile)
    #[verifier::external_body]
    pub fn read(&mut self, buf: &mut [u8]) -> (r: Result<usize>)
        requires old(self)@.pos <= old(self)@.bytes.len()
        ensures okh(old(self)@, final(self)@, r), same_but_pos(old(self)@, final(self)@),
    { unimplemented!() }

    // -- writes: cursor inside or at the end of the file
    #[verifier::external_body]
    pub fn write_u8(&mut self, val: u8) -> (r: Result<()>)
        requires old(self)@.pos <= old(self)@.bytes.len()
        ensures okh(old(self)@, final(self)@, r), r is Ok ==> final(self)@ == wrote(old(self)@, seq![val]),
    { unimplemented!() }
    #[verifier::external_body]
    pub fn write_u16_le(&mut self, val: u16) -> (r: Result<()>)
        requires old(self)@.pos <= old(self)@.bytes.len()
        ensures okh(old(self)@, final(self)@, r), r is Ok ==> final(self)@ == wrote(old(self)@, le_bytes(val as nat, 2)),
    { unimplemented!() }
    #[verifier::external_body]
    pub fn write_u32_le(&mut self, val: u32) -> (r: Result<()>)
        requires old(self)@.pos <= old(self)@.bytes.len()
        ensures okh(old(self)@, final(self)@, r), r is Ok ==> final(self)@ == wrote(old(self)@, le_bytes(val as nat, 4)),
    { unimplemented!() }
    #[verifier::external_body]
    pub fn write_u64_le(&mut self, val: u64) -> (r: Result<()>)
        requires old(self)@.pos <= old(self)@.bytes.len()
        ensures okh(old(self)@, final(self)@, r), r is Ok ==> final(self)@ == wrote(old(self)@, le_bytes(val as nat, 8)),
    { unimplemented!() }
    #[verifier::external_body]
    pub fn write_all_small(&mut self, buf: &[u8]) -> (r: Result<()>)
        requires old(self)@.pos <= old(self)@.bytes.len(), buf@.len() <= old(self)@.chunk,
        ensures okh(old(self)@, final(self)@, r), r is Ok ==> final(self)@ == wrote(old(self)@, buf@),
    { unimplemented!() }
    #[verifier::external_body]
    pub fn write_zero(&mut self, size: u32) -> (r: Result<()>)
        requires old(self)@.pos <= old(self)@.bytes.len()
        ensures okh(old(self)@, final(self)@, r), r is Ok ==> final(self)@ == wrote(old(self)@, zeros(size as nat)),
    { unimplemented!() }
    /// std::io::Write::write through rabuf (partial writes possible); only used through write_all (shim on VarFile)
    #[verifier::external_body]
    pub fn write(&mut self, buf: &[u8]) -> (r: Result<usize>)
        requires old(self)@.pos <= old(self)@.bytes.len()
        ensures okh(old(self)@, final(self)@, r),
    { unimplemented!() }

    // -- durability
    #[verifier::external_body]
    pub fn flush(&mut self) -> (r: Result<()>)
        ensures okh(old(self)@, final(self)@, r),
            final(self)@.bytes == old(self)@.bytes, final(self)@.pos == old(self)@.pos,
            r is Ok ==> !final(self)@.unflushed && final(self)@.unsynced == old(self)@.unsynced,
            r is Err ==> final(self)@.unflushed == old(self)@.unflushed && final(self)@.unsynced == old(self)@.unsynced,
    { unimplemented!() }
    #[verifier::external_body]
    pub fn sync_all(&mut self) -> (r: Result<()>)
        ensures okh(old(self)@, final(self)@, r),
            final(self)@.bytes == old(self)@.bytes, final(self)@.pos == old(self)@.pos,
            r is Ok ==> !final(self)@.unflushed && !final(self)@.unsynced,
            r is Err ==> (final(self)@.unflushed ==> old(self)@.unflushed) && final(self)@.unsynced == old(self)@.unsynced,
    { unimplemented!() }
    #[verifier::external_body]
    pub fn sync_data(&mut self) -> (r: Result<()>)
        ensures okh(old(self)@, final(self)@, r),
            final(self)@.bytes == old(self)@.bytes, final(self)@.pos == old(self)@.pos,
            r is Ok ==> !final(self)@.unflushed && !final(self)@.unsynced,
            r is Err ==> (final(self)@.unflushed ==> old(self)@.unflushed) && final(self)@.unsynced == old(self)@.unsynced,
    { unimplemented!() }
}

/// T5: size_of_val(&u64) == 8
#[verifier::external_body]
pub broadcast proof fn axiom_sizeof_u64(x: &u64)
    ensures #[trigger] vstd::layout::spec_size_of_val::<u64>(x) == 8
{}

pub open spec fn is_pow2(n: nat) -> bool
    decreases n
{
    n == 1 || (n > 1 && n % 2 == 0 && is_pow2(n / 2))
}

// ---- `rabuf::roundup_powerof2` (T1) --------------------------------------------------------------
#[verifier::external_body]
pub fn rabuf_roundup_powerof2(x: u32) -> (r: u32)
    ensures is_pow2(x as nat) ==> r == x, r == x ==> is_pow2(x as nat) || x == 0
{ unimplemented!() }

} // verus!
