// C17: what the free-slot statistics must report — hand-written SPEC / PROOF text only (no crate code)
verus! {
/// distinct naturals below n are at most n many
pub proof fn lemma_pigeon(l: Seq<nat>, n: nat)
    requires
        forall|i: int| 0 <= i < l.len() ==> #[trigger] l[i] < n,
        forall|i: int, j: int| 0 <= i < j < l.len() ==> l[i] != l[j],
    ensures l.len() <= n
    decreases n
{
    if n == 0 {
        if l.len() > 0 { assert(l[0] < 0); }
    } else {
        let m = (n - 1) as nat;
        if exists|k: int| 0 <= k < l.len() && l[k] == m {
            let k = choose|k: int| 0 <= k < l.len() && l[k] == m;
            let r = rm(l, k);
            assert forall|i: int| 0 <= i < r.len() implies #[trigger] r[i] < m by {
                if i < k { assert(r[i] == l[i]); assert(l[i] != l[k]); assert(l[i] < n); }
                else { assert(r[i] == l[i + 1]); assert(l[k] != l[i + 1]); assert(l[i + 1] < n); }
            }
            assert forall|i: int, j: int| 0 <= i < j < r.len() implies r[i] != r[j] by {
                let a = if i < k { i } else { i + 1 };
                let c = if j < k { j } else { j + 1 };
                assert(r[i] == l[a] && r[j] == l[c] && a < c);
            }
            lemma_pigeon(r, m);
        } else {
            assert forall|i: int| 0 <= i < l.len() implies #[trigger] l[i] < m by { assert(l[i] < n); assert(l[i] != m); }
            lemma_pigeon(l, m);
        }
    }
}

/// the bytes spell out the witness' list of class c, from its k-th member on
pub proof fn lemma_heap_free_list_from(b: Seq<u8>, pm: PieceMgr, w: HeapW, c: int, k: int)
    requires heap_ok(b, pm, w), 0 <= c < 16, 0 <= k <= w.lists[c].len()
    ensures free_list(b, if k < w.lists[c].len() { w.lists[c][k] } else { 0 }, w.lists[c].skip(k))
    decreases w.lists[c].len() - k
{
    let l = w.lists[c];
    if k == l.len() {
        assert(l.skip(k).len() == 0);
    } else {
        lemma_member_decodes(b, pm, w, c, k);
        lemma_heap_free_list_from(b, pm, w, c, k + 1);
        assert(l.skip(k).drop_first() =~= l.skip(k + 1));
        assert(l.skip(k)[0] == l[k]);
        assert(free_next(b, l[k] as int) == nxt(l, k));
    }
}
/// ... hence the whole list, starting at the head stored in the header; and it is shorter than the file
pub proof fn lemma_heap_free_list(b: Seq<u8>, pm: PieceMgr, w: HeapW, c: int)
    requires heap_ok(b, pm, w), 0 <= c < 16
    ensures free_list(b, head_at(pm, b, c), w.lists[c]), w.lists[c].len() <= b.len()
{
    let l = w.lists[c];
    lemma_heap_free_list_from(b, pm, w, c, 0);
    assert(l.skip(0) =~= l);
    assert(head_at(pm, b, c) == first(l));
    assert forall|i: int| 0 <= i < l.len() implies #[trigger] l[i] < b.len() by { lemma_member_decodes(b, pm, w, c, i); }
    assert forall|i: int, j: int| 0 <= i < j < l.len() implies l[i] != l[j] by {
        assert(list_ok(w.slots, l, c));
        lemma_list_member(w.slots, l, c, i);
    }
    lemma_pigeon(l, b.len());
}
/// C17: the report of count_of_free_*_piece — one pair per size class, in table order, each with the length of that class' free list
pub open spec fn free_counts_ok(v: Seq<(u32, u64)>, w: HeapW) -> bool {
    &&& v.len() == 16
    &&& forall|i: int| 0 <= i < 16 ==> (#[trigger] v[i]).0 == classes()[i] && v[i].1 == w.lists[i].len()
}
/// loop invariant of count_of_free_*_piece (takes the Vec itself so that its element type is inferred from here)
pub open spec fn counts_prefix(v: &Vec<(u32, u64)>, k: int, w: HeapW) -> bool {
    &&& v@.len() == k
    &&& forall|j: int| 0 <= j < k ==> (#[trigger] v@[j]).0 == classes()[j] && v@[j].1 == w.lists[j].len()
}
} // verus!
