# C17: free-slot counts per size class (KeyFile / ValueFile). Needs rewrite rule R16 (`for x in ARRAY` -> index loop).
@mod val
@fn src/filedb/inner/val.rs | impl ValueFile | count_of_free_value_piece
@opts mutself forarray
@serves C17 C15
@requires
old(self).0.0@.bytes.len() >= 192,
exists|w: HeapW| #[trigger] heap_ok(old(self).0.0@.bytes, old(self).0.0.piece_mgr, w)
@ensures
okh(old(self).0.0@, final(self).0.0@, r), same_but_pos(old(self).0.0@, final(self).0.0@), final(self).0.0.piece_mgr == old(self).0.0.piece_mgr,
r is Ok ==> forall|w: HeapW| #[trigger] heap_ok(old(self).0.0@.bytes, old(self).0.0.piece_mgr, w) ==> free_counts_ok(r->Ok_0@, w)
@entry
let ghost f0 = old(self).0.0@;
let ghost b0 = old(self).0.0@.bytes;
let ghost pm = old(self).0.0.piece_mgr;
let ghost w0: HeapW = choose|w: HeapW| #[trigger] heap_ok(b0, pm, w);
@loop 1 before
proof { assert(sz_ary@ =~= classes()); }
@loop 1 invariant
self.0 == *final(locked),
f0 == old(self).0.0@, b0 == f0.bytes, pm == old(self).0.0.piece_mgr, heap_ok(b0, pm, w0), b0.len() >= 192,
sz_ary@ == classes(),
same_but_pos(f0, locked.0@), okh2(f0, locked.0@), locked.0.piece_mgr == pm,
0 <= i__piece_size <= 16,
counts_prefix(&vec, i__piece_size as int, w0)
@loop 1 decreases
16 - i__piece_size
@before-call count_of_free_piece_list 1
proof {
    let c = (i__piece_size - 1) as int;
    lemma_class_idx(c);
    lemma_heap_free_list(b0, pm, w0, c);
    assert(head_of(pm, b0, piece_size as nat) == head_at(pm, b0, c));
    assert(w0.lists[c].len() < u64::MAX);
    assert(locked.0@.bytes == b0 && locked.0.piece_mgr == pm);
    // the witness of the callee's `exists`
    assert(free_list(locked.0@.bytes, head_of(locked.0.piece_mgr, locked.0@.bytes, piece_size as nat), w0.lists[c]) && w0.lists[c].len() < u64::MAX);
}
@after-call count_of_free_piece_list 1
proof {
    let c = (i__piece_size - 1) as int;
    assert(cnt == w0.lists[c].len());
}
@exit
proof {
    if r__ is Ok {
        assert forall|w: HeapW| #[trigger] heap_ok(b0, pm, w) implies free_counts_ok(r__->Ok_0@, w) by {
            assert forall|i: int| 0 <= i < 16 implies (#[trigger] r__->Ok_0@[i]).0 == classes()[i] && r__->Ok_0@[i].1 == w.lists[i].len() by {
                lemma_list_unique_w(b0, pm, w0, w, i);
            }
        }
    }
}
@end
@endmod
@mod key
@fn src/filedb/inner/key.rs | impl<KT: DbMapKeyType> KeyFile<KT> | count_of_free_key_piece
@opts mutself forarray
@serves C17 C15
@requires
old(self).0.0@.bytes.len() >= 192,
exists|w: HeapW| #[trigger] heap_ok(old(self).0.0@.bytes, old(self).0.0.piece_mgr, w)
@ensures
okh(old(self).0.0@, final(self).0.0@, r), same_but_pos(old(self).0.0@, final(self).0.0@), final(self).0.0.piece_mgr == old(self).0.0.piece_mgr,
r is Ok ==> forall|w: HeapW| #[trigger] heap_ok(old(self).0.0@.bytes, old(self).0.0.piece_mgr, w) ==> free_counts_ok(r->Ok_0@, w)
@entry
let ghost f0 = old(self).0.0@;
let ghost b0 = old(self).0.0@.bytes;
let ghost pm = old(self).0.0.piece_mgr;
let ghost w0: HeapW = choose|w: HeapW| #[trigger] heap_ok(b0, pm, w);
@loop 1 before
proof { assert(sz_ary@ =~= classes()); }
@loop 1 invariant
self.0 == *final(locked),
f0 == old(self).0.0@, b0 == f0.bytes, pm == old(self).0.0.piece_mgr, heap_ok(b0, pm, w0), b0.len() >= 192,
sz_ary@ == classes(),
same_but_pos(f0, locked.0@), okh2(f0, locked.0@), locked.0.piece_mgr == pm,
0 <= i__piece_size <= 16,
counts_prefix(&vec, i__piece_size as int, w0)
@loop 1 decreases
16 - i__piece_size
@before-call count_of_free_piece_list 1
proof {
    let c = (i__piece_size - 1) as int;
    lemma_class_idx(c);
    lemma_heap_free_list(b0, pm, w0, c);
    assert(head_of(pm, b0, piece_size as nat) == head_at(pm, b0, c));
    assert(w0.lists[c].len() < u64::MAX);
    assert(locked.0@.bytes == b0 && locked.0.piece_mgr == pm);
    // the witness of the callee's `exists`
    assert(free_list(locked.0@.bytes, head_of(locked.0.piece_mgr, locked.0@.bytes, piece_size as nat), w0.lists[c]) && w0.lists[c].len() < u64::MAX);
}
@after-call count_of_free_piece_list 1
proof {
    let c = (i__piece_size - 1) as int;
    assert(cnt == w0.lists[c].len());
}
@exit
proof {
    if r__ is Ok {
        assert forall|w: HeapW| #[trigger] heap_ok(b0, pm, w) implies free_counts_ok(r__->Ok_0@, w) by {
            assert forall|i: int| 0 <= i < 16 implies (#[trigger] r__->Ok_0@[i]).0 == classes()[i] && r__->Ok_0@[i].1 == w.lists[i].len() by {
                lemma_list_unique_w(b0, pm, w0, w, i);
            }
        }
    }
}
@end
@endmod
