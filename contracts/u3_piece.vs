# piece.rs — unit U3: size classes and free lists.
@raw
verus! {
pub open spec fn classes() -> Seq<u32> { seq![16u32, 24, 32, 48, 64, 80, 96, 112, 128, 256, 384, 512, 640, 768, 896, 1024] }
/// the piece manager carries the documented tables (key file: heads at 48.., value file: heads at 32..)
pub open spec fn mgr_ok(m: PieceMgr) -> bool {
    &&& m.size_ary@ == classes()
    &&& m.free_list_offset@.len() == 16
    &&& (m.free_list_offset@[0] == 32 || m.free_list_offset@[0] == 48)
    &&& forall|i: int| 0 <= i < 16 ==> #[trigger] m.free_list_offset@[i] == m.free_list_offset@[0] + 8 * i
}
pub open spec fn class_idx(s: nat) -> int {
    if s == 16 { 0 } else if s == 24 { 1 } else if s == 32 { 2 } else if s == 48 { 3 } else if s == 64 { 4 } else if s == 80 { 5 }
    else if s == 96 { 6 } else if s == 112 { 7 } else if s == 128 { 8 } else if s == 256 { 9 } else if s == 384 { 10 }
    else if s == 512 { 11 } else if s == 640 { 12 } else if s == 768 { 13 } else if s == 896 { 14 } else { 15 }
}
/// position of the free-list head for slots of size `s` in the file header
pub proof fn lemma_class_idx(i: int)
    requires 0 <= i < 16
    ensures class_idx(classes()[i] as nat) == i, is_class(classes()[i] as nat)
{
    let c = classes();
    assert(c[0] == 16 && c[1] == 24 && c[2] == 32 && c[3] == 48 && c[4] == 64 && c[5] == 80 && c[6] == 96 && c[7] == 112);
    assert(c[8] == 128 && c[9] == 256 && c[10] == 384 && c[11] == 512 && c[12] == 640 && c[13] == 768 && c[14] == 896 && c[15] == 1024);
}
pub proof fn lemma_is_class(s: nat)
    requires is_class(s)
    ensures 0 <= class_idx(s) < 16, classes()[class_idx(s)] == s
{
    let c = classes();
    assert(c[0] == 16 && c[1] == 24 && c[2] == 32 && c[3] == 48 && c[4] == 64 && c[5] == 80 && c[6] == 96 && c[7] == 112);
    assert(c[8] == 128 && c[9] == 256 && c[10] == 384 && c[11] == 512 && c[12] == 640 && c[13] == 768 && c[14] == 896 && c[15] == 1024);
}
pub open spec fn head_pos(m: PieceMgr, s: nat) -> int { m.free_list_offset@[0] as int + 8 * class_idx(s) }
pub open spec fn head_of(m: PieceMgr, b: Seq<u8>, s: nat) -> nat { le64_at(b, head_pos(m, s)) }

/// `l` is the free list starting at `head`: every member is a readable free record whose next field is the following member
pub open spec fn free_list(b: Seq<u8>, head: nat, l: Seq<nat>) -> bool
    decreases l.len()
{
    if l.len() == 0 { head == 0 }
    else {
        &&& head == l[0] && head != 0
        &&& free_rec_ok(b, head as int) && rec_len(b, head as int) == 0
        &&& free_list(b, free_next(b, head as int), l.drop_first())
    }
}
pub proof fn lemma_free_list_unique(b: Seq<u8>, head: nat, l1: Seq<nat>, l2: Seq<nat>)
    requires free_list(b, head, l1), free_list(b, head, l2)
    ensures l1 == l2
    decreases l1.len()
{
    if l1.len() == 0 || l2.len() == 0 {
        assert(l1.len() == 0 && l2.len() == 0);
        assert(l1 =~= l2);
    } else {
        lemma_free_list_unique(b, free_next(b, head as int), l1.drop_first(), l2.drop_first());
        assert(l1 =~= seq![l1[0]] + l1.drop_first());
        assert(l2 =~= seq![l2[0]] + l2.drop_first());
    }
}
pub proof fn lemma_free_list_skip(b: Seq<u8>, head: nat, l: Seq<nat>, k: int)
    requires free_list(b, head, l), 0 <= k < l.len()
    ensures
        l[k] != 0, free_rec_ok(b, l[k] as int), rec_len(b, l[k] as int) == 0,
        free_list(b, l[k], l.skip(k)),
        free_list(b, free_next(b, l[k] as int), l.skip(k + 1)),
    decreases k
{
    if k == 0 {
        assert(l.skip(0) =~= l);
        assert(l.skip(1) =~= l.drop_first());
    } else {
        lemma_free_list_skip(b, free_next(b, head as int), l.drop_first(), k - 1);
        assert(l.drop_first().skip(k - 1) =~= l.skip(k));
        assert(l.drop_first().skip(k) =~= l.skip(k + 1));
    }
}
} // verus!
@end

@mod piece
@fn src/filedb/inner/piece.rs | impl PieceMgr | new
@ensures
r.free_list_offset == free_list_offset, r.size_ary == size_ary
@end

@fn src/filedb/inner/piece.rs | impl PieceMgr | free_piece_list_offset_of_header
@serves C06
@requires
mgr_ok(*self), is_slot_size(piece_size.val as nat)
@ensures
r as int == head_pos(*self, piece_size.val as nat)
@entry
let ghost ps0 = piece_size.val;
@loop 1 invariant
mgr_ok(*self), is_slot_size(piece_size as nat), piece_size == ps0,
forall|j: int| 0 <= j < i ==> #[trigger] self.size_ary@[j] != piece_size
@loop 1 body-start
proof { lemma_class_idx(i as int); }
@loop 1 after
proof { if is_class(piece_size as nat) { lemma_is_class(piece_size as nat); } }
@end

@fn src/filedb/inner/piece.rs | impl PieceMgr | is_large_piece_size
@serves C06
@requires
mgr_ok(*self)
@ensures
r == (piece_size.val >= 1024)
@end

# roundup iterates `size_ary.iter().take(n)`: Verus rejects the iterator adapter; the contract below is proved on the
# real function for every u32 by Kani (kani_piece.rs: u3_roundup_key_table / u3_roundup_val_table) and assumed here.
@fn src/filedb/inner/piece.rs | impl PieceMgr | roundup
@opts assumed proved_by=kani:u3_roundup_key_table,u3_roundup_val_table
@requires
mgr_ok(*self), 1 <= piece_size.val <= 0x7fff_ff00
@ensures
r.val as nat == roundup_spec(piece_size.val as nat)
@end

@fn src/filedb/inner/piece.rs | impl<T: Copy> PieceSizeHelper<T> for PieceSize<T> | is_large_piece_size
@opts as=PieceSize::is_large_piece_size
@requires
mgr_ok(*pi_mgr)
@ensures
r == (self.val >= 1024)
@end

@fn src/filedb/inner/piece.rs | impl VarFile | read_free_piece_offset_on_header
@requires
mgr_ok(old(self).piece_mgr), is_slot_size(piece_size.val as nat), old(self)@.bytes.len() >= 192
@ensures
okh(old(self)@, final(self)@, r), same_but_pos(old(self)@, final(self)@), final(self).piece_mgr == old(self).piece_mgr,
r is Ok ==> r->Ok_0.val as nat == head_of(old(self).piece_mgr, old(self)@.bytes, piece_size.val as nat)
@end

@fn src/filedb/inner/piece.rs | impl VarFile | write_free_piece_offset_on_header
@requires
mgr_ok(old(self).piece_mgr), is_slot_size(piece_size.val as nat), old(self)@.bytes.len() >= 192
@ensures
okh(old(self)@, final(self)@, r), final(self).piece_mgr == old(self).piece_mgr,
r is Ok ==> final(self)@ == wrote(moved(old(self)@, head_pos(old(self).piece_mgr, piece_size.val as nat)), le_bytes(offset.val as nat, 8))
@end

@fn src/filedb/inner/piece.rs | impl VarFile | read_free_piece_size_next
@requires
free_rec_ok(old(self)@.bytes, curr_free_piece.val as int), rec_len(old(self)@.bytes, curr_free_piece.val as int) == 0
@ensures
okh(old(self)@, final(self)@, r), same_but_pos(old(self)@, final(self)@), final(self).piece_mgr == old(self).piece_mgr,
r is Ok ==> r->Ok_0.0.val as nat == rec_size(old(self)@.bytes, curr_free_piece.val as int),
r is Ok ==> r->Ok_0.1.val as nat == free_next(old(self)@.bytes, curr_free_piece.val as int)
@end

@fn src/filedb/inner/piece.rs | impl VarFile | count_of_free_piece_list
@serves C17 C15
@requires
mgr_ok(old(self).piece_mgr), is_slot_size(new_piece_size.val as nat), old(self)@.bytes.len() >= 192,
exists|l: Seq<nat>| free_list(old(self)@.bytes, head_of(old(self).piece_mgr, old(self)@.bytes, new_piece_size.val as nat), l) && l.len() < u64::MAX
@ensures
okh(old(self)@, final(self)@, r), same_but_pos(old(self)@, final(self)@), final(self).piece_mgr == old(self).piece_mgr,
r is Ok ==> forall|l: Seq<nat>| free_list(old(self)@.bytes, head_of(old(self).piece_mgr, old(self)@.bytes, new_piece_size.val as nat), l) ==> r->Ok_0 == l.len()
@entry
let ghost f0 = old(self)@;
let ghost b0 = old(self)@.bytes;
let ghost h0 = head_of(old(self).piece_mgr, b0, new_piece_size.val as nat);
let ghost l0: Seq<nat> = choose|l: Seq<nat>| free_list(b0, h0, l) && l.len() < u64::MAX;
@loop 1 invariant
f0 == old(self)@, b0 == f0.bytes, same_but_pos(f0, self@), okh2(f0, self@), self.piece_mgr == old(self).piece_mgr,
free_list(b0, h0, l0), l0.len() < u64::MAX,
0 <= count <= l0.len(),
free_list(b0, free_next_offset.val as nat, l0.skip(count as int))
@loop 1 decreases
l0.len() - count
@loop 1 before
proof { assert(l0.skip(0) =~= l0); }
@loop 1 body-start
proof { lemma_free_list_skip(b0, h0, l0, count as int); }
@exit
proof {
    if r__ is Ok {
        assert forall|l: Seq<nat>| free_list(b0, h0, l) implies r__->Ok_0 == l.len() by {
            lemma_free_list_unique(b0, h0, l0, l);
        }
    }
}
@end
@endmod
