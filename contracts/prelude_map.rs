// ================================================================================================
// prelude_map.rs — L4: the map made of the three files. Ghost witness, well-formedness (= property C05's
// list), abstract view (= the ideal map of property C01). SPEC / PROOF only.
// ================================================================================================
verus! {

pub struct MapW {
    /// key-file heap, value-file heap
    pub kw: HeapW,
    pub vw: HeapW,
    /// one chain of key-record offsets per bucket, head first
    pub cs: Seq<Seq<nat>>,
    /// owner of each value record: value offset -> key record offset
    pub vown: Map<nat, nat>,
}

pub open spec fn is_key(w: HeapW, o: nat) -> bool { w.slots.dom().contains(o) && w.slots[o].c is Key }
pub open spec fn is_val(w: HeapW, o: nat) -> bool { w.slots.dom().contains(o) && w.slots[o].c is Val }
pub open spec fn kkey(w: HeapW, o: nat) -> Seq<u8> { w.slots[o].c->Key_0 }
pub open spec fn kvoff(w: HeapW, o: nat) -> nat { w.slots[o].c->Key_1 }
pub open spec fn knext(w: HeapW, o: nat) -> nat { w.slots[o].c->Key_2 }
pub open spec fn vval(w: HeapW, o: nat) -> Seq<u8> { w.slots[o].c->Val_0 }
/// opaque: the `%` must not reach proofs that only need "same key, same bucket" (non-linear terms made unrelated lemmas unstable)
#[verifier::opaque]
pub open spec fn bucket_of(key: Seq<u8>, n: int) -> int { (key_hash(key) as int) % n }

/// `s` is the chain of bucket `b`: starts at the bucket head, follows the next links, ends with next == 0,
/// holds only key records that hash to `b`, no record twice
pub open spec fn chain_member_ok(kw: HeapW, s: Seq<nat>, b: int, n: int, i: int) -> bool {
    &&& is_key(kw, s[i])
    &&& s[i] != 0
    &&& knext(kw, s[i]) == nxt(s, i)
    &&& bucket_of(kkey(kw, s[i]), n) == b
}
pub open spec fn chain_members_ok(kw: HeapW, s: Seq<nat>, b: int, n: int) -> bool {
    forall|i: int| 0 <= i < s.len() ==> #[trigger] chain_member_ok(kw, s, b, n, i)
}
pub open spec fn chain_distinct(s: Seq<nat>) -> bool {
    forall|i: int, j: int| 0 <= i < j < s.len() ==> s[i] != s[j]
}
#[verifier::opaque]
pub open spec fn chain_ok(kw: HeapW, head: nat, s: Seq<nat>, b: int, n: int) -> bool {
    &&& first(s) == head
    &&& chain_members_ok(kw, s, b, n)
    &&& chain_distinct(s)
}
pub open spec fn chains_ok(kw: HeapW, hb: Seq<u8>, n: int, cs: Seq<Seq<nat>>) -> bool {
    &&& cs.len() == n
    &&& forall|b: int| 0 <= b < n ==> #[trigger] chain_ok(kw, bucket(hb, b), cs[b], b, n)
}
/// no orphan key record: every key record is on the chain of its bucket
#[verifier::opaque]
pub open spec fn all_on_chains(kw: HeapW, n: int, cs: Seq<Seq<nat>>) -> bool {
    forall|o: nat| #[trigger] is_key(kw, o) ==> cs[bucket_of(kkey(kw, o), n)].contains(o)
}
/// no key twice
#[verifier::opaque]
pub open spec fn keys_distinct(kw: HeapW) -> bool {
    forall|o1: nat, o2: nat| #[trigger] is_key(kw, o1) && #[trigger] is_key(kw, o2) && o1 != o2 ==> kkey(kw, o1) != kkey(kw, o2)
}
/// every key record refers to its own value record; no orphan value record
#[verifier::opaque]
pub open spec fn vals_linked(kw: HeapW, vw: HeapW, vown: Map<nat, nat>) -> bool {
    &&& forall|o: nat| #[trigger] is_key(kw, o) ==> is_val(vw, kvoff(kw, o)) && vown[kvoff(kw, o)] == o
    &&& forall|v: nat| #[trigger] is_val(vw, v) ==> is_key(kw, vown[v]) && kvoff(kw, vown[v]) == v
}
/// key file holds key records and free slots only; value file holds value records and free slots only
#[verifier::opaque]
pub open spec fn kinds_ok(kw: HeapW, vw: HeapW) -> bool {
    &&& forall|o: nat| #[trigger] kw.slots.dom().contains(o) ==> kw.slots[o].c is Key || kw.slots[o].c is Free
    &&& forall|o: nat| #[trigger] vw.slots.dom().contains(o) ==> vw.slots[o].c is Val || vw.slots[o].c is Free
}
pub open spec fn total(cs: Seq<Seq<nat>>) -> nat
    decreases cs.len()
{
    if cs.len() == 0 { 0 } else { total(cs.drop_last()) + cs.last().len() }
}

/// byte images + cached bucket count of one map
pub struct MapB { pub kb: Seq<u8>, pub kpm: PieceMgr, pub vb: Seq<u8>, pub vpm: PieceMgr, pub hb: Seq<u8>, pub n: int }

pub open spec fn map_ok(m: MapB, w: MapW) -> bool {
    &&& htx_wf(m.hb, m.n)
    &&& heap_ok(m.kb, m.kpm, w.kw) && m.kpm.free_list_offset@[0] == 48
    &&& heap_ok(m.vb, m.vpm, w.vw) && m.vpm.free_list_offset@[0] == 32
    &&& kinds_ok(w.kw, w.vw)
    &&& chains_ok(w.kw, m.hb, m.n, w.cs)
    &&& all_on_chains(w.kw, m.n, w.cs)
    &&& keys_distinct(w.kw)
    &&& vals_linked(w.kw, w.vw, w.vown)
    &&& htx_count(m.hb) == total(w.cs)
    &&& htx_count(m.hb) < 0xffff_ffff_ffff_ffff
}

/// machine-arithmetic hypothesis of the mutators: the data files are smaller than 2^60 bytes, fewer than 2^64-2 entries
pub open spec fn small(m: MapB) -> bool { m.kb.len() <= 0x1000_0000_0000_0000 && m.vb.len() <= 0x1000_0000_0000_0000 && htx_count(m.hb) < 0xffff_ffff_ffff_fffe }

/// the ideal map represented by the files: domain predicate and value function
pub open spec fn has_key(w: MapW, k: Seq<u8>) -> bool { exists|o: nat| #[trigger] is_key(w.kw, o) && kkey(w.kw, o) == k }
pub open spec fn rec_of(w: MapW, k: Seq<u8>) -> nat { choose|o: nat| #[trigger] is_key(w.kw, o) && kkey(w.kw, o) == k }
pub open spec fn value_of(w: MapW, k: Seq<u8>) -> Seq<u8> { vval(w.vw, kvoff(w.kw, rec_of(w, k))) }
pub open spec fn lookup(w: MapW, k: Seq<u8>) -> Option<Seq<u8>> { if has_key(w, k) { Some(value_of(w, k)) } else { None } }
/// w2 is w1 with k bound to v
pub open spec fn is_insert(w1: MapW, w2: MapW, k: Seq<u8>, v: Seq<u8>) -> bool {
    forall|k2: Seq<u8>| #[trigger] lookup(w2, k2) == (if k2 == k { Some(v) } else { lookup(w1, k2) })
}
/// w2 is w1 without k
pub open spec fn is_remove(w1: MapW, w2: MapW, k: Seq<u8>) -> bool {
    forall|k2: Seq<u8>| #[trigger] lookup(w2, k2) == (if k2 == k { None } else { lookup(w1, k2) })
}

// ---- chain lemmas ------------------------------------------------------------------------------------------------
pub proof fn lemma_chain_member(kw: HeapW, head: nat, s: Seq<nat>, b: int, n: int, i: int)
    requires chain_ok(kw, head, s, b, n), 0 <= i < s.len()
    ensures is_key(kw, s[i]), s[i] != 0, knext(kw, s[i]) == nxt(s, i), bucket_of(kkey(kw, s[i]), n) == b,
        forall|j: int| 0 <= j < s.len() && j != i ==> s[j] != s[i], first(s) == head
{
    reveal(chain_ok);
    assert(chain_member_ok(kw, s, b, n, i));
    assert forall|j: int| 0 <= j < s.len() && j != i implies s[j] != s[i] by {
        if j < i { assert(s[j] != s[i]); } else { assert(s[i] != s[j]); }
    }
}
pub proof fn lemma_chain_head(kw: HeapW, head: nat, s: Seq<nat>, b: int, n: int)
    requires chain_ok(kw, head, s, b, n)
    ensures first(s) == head, head == 0 <==> s.len() == 0
{
    reveal(chain_ok);
    if s.len() > 0 { assert(chain_member_ok(kw, s, b, n, 0)); }
}
/// what the bytes say about a key record of the witness
pub proof fn lemma_key_decodes(b: Seq<u8>, pm: PieceMgr, w: HeapW, o: nat)
    requires heap_ok(b, pm, w), is_key(w, o)
    ensures key_rec_ok(b, o as int), rec_data(b, o as int) == kkey(w, o), key_voff(b, o as int) == kvoff(w, o), key_next(b, o as int) == knext(w, o),
        rec_size(b, o as int) == w.slots[o].size, o >= 192, o + w.slots[o].size <= b.len(),
        kvoff(w, o) % 8 == 0, knext(w, o) % 8 == 0, kkey(w, o).len() <= u32::MAX, kvoff(w, o) <= u64::MAX, knext(w, o) <= u64::MAX, o % 8 == 0,
{
    assert(slot_ok(b, o, w.slots[o]));
    lemma_slot_bounds(b, o, w.slots[o]);
    lemma_slot_elim(b, o, w.slots[o]);
    lemma_key_used_decodes(b, o as int, w.slots[o].size, kkey(w, o), kvoff(w, o), knext(w, o));
}
pub proof fn lemma_val_decodes(b: Seq<u8>, pm: PieceMgr, w: HeapW, o: nat)
    requires heap_ok(b, pm, w), is_val(w, o)
    ensures val_rec_ok(b, o as int), rec_data(b, o as int) == vval(w, o), rec_size(b, o as int) == w.slots[o].size, o >= 192, o + w.slots[o].size <= b.len(),
        vval(w, o).len() <= u32::MAX,
{
    assert(slot_ok(b, o, w.slots[o]));
    lemma_slot_bounds(b, o, w.slots[o]);
    lemma_slot_elim(b, o, w.slots[o]);
    lemma_val_used_decodes(b, o as int, w.slots[o].size, vval(w, o));
}

/// chains are determined by the bytes: two witnesses of the same files agree on the chain of every bucket
pub proof fn lemma_chain_unique(m: MapB, w1: MapW, w2: MapW, b: int)
    requires map_ok(m, w1), map_ok(m, w2), 0 <= b < m.n
    ensures w1.cs[b] == w2.cs[b]
{
    let s1 = w1.cs[b]; let s2 = w2.cs[b];
    assert(chain_ok(w1.kw, bucket(m.hb, b), s1, b, m.n));
    assert(chain_ok(w2.kw, bucket(m.hb, b), s2, b, m.n));
    lemma_chain_prefix_eq(m, w1, w2, b, s1.len() as int);
    lemma_chain_head(w1.kw, bucket(m.hb, b), s1, b, m.n);
    lemma_chain_head(w2.kw, bucket(m.hb, b), s2, b, m.n);
    if s1.len() < s2.len() {
        if s1.len() > 0 {
            lemma_chain_member(w1.kw, bucket(m.hb, b), s1, b, m.n, s1.len() - 1);
            lemma_chain_member(w2.kw, bucket(m.hb, b), s2, b, m.n, s1.len() - 1);
            lemma_chain_member(w2.kw, bucket(m.hb, b), s2, b, m.n, s1.len() as int);
            lemma_key_decodes(m.kb, m.kpm, w1.kw, s1[s1.len() - 1]);
            lemma_key_decodes(m.kb, m.kpm, w2.kw, s1[s1.len() - 1]);
        }
    } else if s2.len() < s1.len() {
        lemma_chain_prefix_eq(m, w1, w2, b, s2.len() as int);
        if s2.len() > 0 {
            lemma_chain_member(w1.kw, bucket(m.hb, b), s1, b, m.n, s2.len() - 1);
            lemma_chain_member(w2.kw, bucket(m.hb, b), s2, b, m.n, s2.len() - 1);
            lemma_chain_member(w1.kw, bucket(m.hb, b), s1, b, m.n, s2.len() as int);
            lemma_key_decodes(m.kb, m.kpm, w1.kw, s2[s2.len() - 1]);
            lemma_key_decodes(m.kb, m.kpm, w2.kw, s2[s2.len() - 1]);
        }
    }
    assert(s1.len() == s2.len());
    assert(s1 =~= s2);
}
pub proof fn lemma_chain_prefix_eq(m: MapB, w1: MapW, w2: MapW, b: int, k: int)
    requires map_ok(m, w1), map_ok(m, w2), 0 <= b < m.n, 0 <= k
    ensures forall|i: int| 0 <= i < k && i < w1.cs[b].len() && i < w2.cs[b].len() ==> w1.cs[b][i] == w2.cs[b][i]
    decreases k
{
    let s1 = w1.cs[b]; let s2 = w2.cs[b];
    assert(chain_ok(w1.kw, bucket(m.hb, b), s1, b, m.n));
    assert(chain_ok(w2.kw, bucket(m.hb, b), s2, b, m.n));
    if k > 0 {
        lemma_chain_prefix_eq(m, w1, w2, b, k - 1);
        let i = k - 1;
        if i < s1.len() && i < s2.len() {
            if i == 0 {
                lemma_chain_head(w1.kw, bucket(m.hb, b), s1, b, m.n);
                lemma_chain_head(w2.kw, bucket(m.hb, b), s2, b, m.n);
            } else {
                lemma_chain_member(w1.kw, bucket(m.hb, b), s1, b, m.n, i - 1);
                lemma_chain_member(w2.kw, bucket(m.hb, b), s2, b, m.n, i - 1);
                lemma_key_decodes(m.kb, m.kpm, w1.kw, s1[i - 1]);
                lemma_key_decodes(m.kb, m.kpm, w2.kw, s1[i - 1]);
            }
        }
    }
}

} // verus!

verus! {
/// position of the predecessor of chain member i (0 for the head)
pub open spec fn prev_of(s: Seq<nat>, i: int) -> nat { if i > 0 { s[i - 1] } else { 0 } }

/// result of the chain lookup, per witness
pub open spec fn find_post(m: MapB, w: MapW, key: Seq<u8>, r: Option<(nat, nat)>) -> bool {
    let s = w.cs[bucket_of(key, m.n)];
    match r {
        Some((ko, po)) => exists|i: int| 0 <= i < s.len() && #[trigger] s[i] == ko && kkey(w.kw, ko) == key && po == prev_of(s, i),
        None => !has_key(w, key),
    }
}

pub proof fn lemma_keys_distinct(kw: HeapW, o1: nat, o2: nat)
    requires keys_distinct(kw), is_key(kw, o1), is_key(kw, o2), kkey(kw, o1) == kkey(kw, o2)
    ensures o1 == o2
{
    reveal(keys_distinct);
}
pub proof fn lemma_on_chain(kw: HeapW, n: int, cs: Seq<Seq<nat>>, o: nat)
    requires all_on_chains(kw, n, cs), is_key(kw, o)
    ensures cs[bucket_of(kkey(kw, o), n)].contains(o)
{
    reveal(all_on_chains);
}
pub proof fn lemma_val_link(kw: HeapW, vw: HeapW, vown: Map<nat, nat>, o: nat)
    requires vals_linked(kw, vw, vown), is_key(kw, o)
    ensures is_val(vw, kvoff(kw, o)), vown[kvoff(kw, o)] == o
{
    reveal(vals_linked);
}
/// a key found on a chain determines the lookup result
pub proof fn lemma_lookup_found(m: MapB, w: MapW, key: Seq<u8>, ko: nat)
    requires map_ok(m, w), is_key(w.kw, ko), kkey(w.kw, ko) == key
    ensures lookup(w, key) == Some(vval(w.vw, kvoff(w.kw, ko))), has_key(w, key), rec_of(w, key) == ko
{
    assert(has_key(w, key));
    let o = rec_of(w, key);
    assert(is_key(w.kw, o) && kkey(w.kw, o) == key);
    lemma_keys_distinct(w.kw, o, ko);
}
/// a key that is on no member of its bucket's chain is absent
pub proof fn lemma_lookup_absent(m: MapB, w: MapW, key: Seq<u8>)
    requires map_ok(m, w), 0 <= bucket_of(key, m.n) < m.n,
        forall|i: int| 0 <= i < w.cs[bucket_of(key, m.n)].len() ==> kkey(w.kw, #[trigger] w.cs[bucket_of(key, m.n)][i]) != key
    ensures !has_key(w, key), lookup(w, key) is None
{
    if has_key(w, key) {
        let o = rec_of(w, key);
        assert(is_key(w.kw, o) && kkey(w.kw, o) == key);
        lemma_on_chain(w.kw, m.n, w.cs, o);
        let s = w.cs[bucket_of(key, m.n)];
        let i = choose|i: int| 0 <= i < s.len() && s[i] == o;
        assert(kkey(w.kw, s[i]) != key);
    }
}
/// two witnesses of the same files agree on the content of a key record both know
pub proof fn lemma_key_same(m: MapB, w1: MapW, w2: MapW, o: nat)
    requires map_ok(m, w1), map_ok(m, w2), is_key(w1.kw, o), is_key(w2.kw, o)
    ensures kkey(w1.kw, o) == kkey(w2.kw, o), kvoff(w1.kw, o) == kvoff(w2.kw, o), knext(w1.kw, o) == knext(w2.kw, o)
{
    lemma_key_decodes(m.kb, m.kpm, w1.kw, o);
    lemma_key_decodes(m.kb, m.kpm, w2.kw, o);
}
pub proof fn lemma_val_same(m: MapB, w1: MapW, w2: MapW, v: nat)
    requires map_ok(m, w1), map_ok(m, w2), is_val(w1.vw, v), is_val(w2.vw, v)
    ensures vval(w1.vw, v) == vval(w2.vw, v)
{
    lemma_val_decodes(m.vb, m.vpm, w1.vw, v);
    lemma_val_decodes(m.vb, m.vpm, w2.vw, v);
}
pub proof fn lemma_bucket_range(key: Seq<u8>, n: int)
    requires n > 0
    ensures 0 <= bucket_of(key, n) < n, bucket_of(key, n) == (key_hash(key) as int) % n
{ reveal(bucket_of); }
} // verus!
