// ================================================================================================
// prelude_open.rs — R10: opaque stand-ins for std::path / std::fs::OpenOptions used by the three
// open_with_params functions. TRUSTED SHIMS (T3): the builder records its flags so that `truncate(false)`
// is visible in contracts; `open` returns the file content found on disk unless truncation was asked for.
// ================================================================================================
verus! {

#[verifier::external_body]
pub struct Path { _x: u8 }
#[verifier::external_body]
pub struct PathBuf { _x: u8 }
/// stand-in for std::convert::AsRef (only `AsRef<Path>` is used, as a generic bound of the open functions)
pub trait AsRef<T> {
    fn as_ref(&self) -> &T;
}
/// std: `impl<T: AsRef<U>> AsRef<U> for &T`
impl<T: AsRef<U>, U> AsRef<U> for &T {
    #[verifier::external_body]
    fn as_ref(&self) -> &U { unimplemented!() }
}
impl Path {
    #[verifier::external_body]
    pub fn to_path_buf(&self) -> (r: PathBuf) { unimplemented!() }
}
impl PathBuf {
    /// appends "<name>.<ext>" — path contents are never part of a contract
    #[verifier::external_body]
    pub fn push(&mut self, s: String) { unimplemented!() }
    /// the bytes of the file this path names, before it is opened (empty when it does not exist)
    pub uninterp spec fn disk(&self) -> Seq<u8>;
}
pub struct OpenOptions { pub rd: bool, pub wr: bool, pub cr: bool, pub tr: bool }
impl OpenOptions {
    pub fn new() -> (r: Self) ensures !r.rd && !r.wr && !r.cr && !r.tr { OpenOptions { rd: false, wr: false, cr: false, tr: false } }
    pub fn read(self, b: bool) -> (r: Self) ensures r == (OpenOptions { rd: b, ..self }) { OpenOptions { rd: b, ..self } }
    pub fn write(self, b: bool) -> (r: Self) ensures r == (OpenOptions { wr: b, ..self }) { OpenOptions { wr: b, ..self } }
    pub fn create(self, b: bool) -> (r: Self) ensures r == (OpenOptions { cr: b, ..self }) { OpenOptions { cr: b, ..self } }
    pub fn truncate(self, b: bool) -> (r: Self) ensures r == (OpenOptions { tr: b, ..self }) { OpenOptions { tr: b, ..self } }
    /// T3: File::open semantics — existing content is kept exactly when truncation is off; a missing file is created empty
    #[verifier::external_body]
    pub fn open(self, pb: PathBuf) -> (r: Result<StdFile>)
        requires self.rd && self.wr && self.cr
        ensures r is Ok ==> r->Ok_0.content() == (if self.tr { Seq::<u8>::empty() } else { pb.disk() }),
            // environment assumption (stated in the evidence): a file found in the database directory is empty or at least
            // 24 bytes long (shorter files are outside C13's quantifier; rabuf pads reads past the end with zeros)
            pb.disk().len() == 0 || pb.disk().len() >= 24
    { unimplemented!() }
}

pub proof fn lemma_pow2_128k()
    ensures is_pow2(131072)
{
    reveal_with_fuel(is_pow2, 20);
}
} // verus!
