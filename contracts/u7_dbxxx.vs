# dbxxx.rs — unit U7: the map over the three files (L4).
@mod dbxxx
@type src/filedb/inner/dbxxx.rs | FileDbXxxInner

@raw
verus! {
impl<KT: DbMapKeyType> FileDbXxxInner<KT> {
    pub open spec fn kf(&self) -> FileV { self.key_file.0.0@ }
    pub open spec fn vf(&self) -> FileV { self.val_file.0.0@ }
    pub open spec fn hf(&self) -> FileV { self.htx_file.0.file@ }
    pub open spec fn mb(&self) -> MapB {
        MapB { kb: self.kf().bytes, kpm: self.key_file.0.0.piece_mgr, vb: self.vf().bytes, vpm: self.val_file.0.0.piece_mgr,
               hb: self.hf().bytes, n: self.htx_file.0.buckets_size as int }
    }
    /// buffered updates exist ==> the dirty flag is raised (so that flush writes them)
    pub open spec fn dirty_ok(&self) -> bool { (self.kf().unflushed || self.vf().unflushed || self.hf().unflushed) ==> self.dirty }
    pub open spec fn healthy(&self) -> bool { self.kf().healthy && self.vf().healthy && self.hf().healthy }
    /// representation invariant of a map (property C05's list): some witness makes the three files a well-formed map
    pub open spec fn inv(&self) -> bool { exists|w: MapW| #[trigger] map_ok(self.mb(), w) }
    /// environment facts and static parts never change
    pub open spec fn same_env(&self, o: &Self) -> bool {
        &&& okh2(o.kf(), self.kf()) && okh2(o.vf(), self.vf()) && okh2(o.hf(), self.hf())
        &&& self.key_file.0.0.piece_mgr == o.key_file.0.0.piece_mgr && self.val_file.0.0.piece_mgr == o.val_file.0.0.piece_mgr
        &&& self.htx_file.0.file.piece_mgr == o.htx_file.0.file.piece_mgr && self.htx_file.0.buckets_size == o.htx_file.0.buckets_size
    }
    /// read-only frame (property C15): nothing but the cursors of the three files moved
    pub open spec fn same_files(&self, o: &Self) -> bool {
        &&& self.same_env(o)
        &&& same_but_pos(o.kf(), self.kf()) && same_but_pos(o.vf(), self.vf()) && same_but_pos(o.hf(), self.hf())
        &&& self.dirty == o.dirty
    }
    pub open spec fn same_bytes(&self, o: &Self) -> bool {
        self.kf().bytes == o.kf().bytes && self.vf().bytes == o.vf().bytes && self.hf().bytes == o.hf().bytes
    }
}
} // verus!
@end

@fn src/filedb/inner/dbxxx.rs | impl<KT: DbMapKeyType> FileDbXxxInner<KT> | is_dirty
@ensures
r == self.dirty
@end

@fn src/filedb/inner/dbxxx.rs | impl<KT: DbMapKeyType> DbXxxBase for FileDbXxxInner<KT> | flush
@serves C03 C16 C15
@ensures
final(self).same_env(old(self)), final(self).same_bytes(old(self)),
old(self).healthy() ==> r is Ok,
r is Ok && old(self).dirty_ok() ==> !final(self).kf().unflushed && !final(self).vf().unflushed && !final(self).hf().unflushed,
r is Err ==> final(self).dirty,
old(self).dirty_ok() ==> final(self).dirty_ok()
@end

@fn src/filedb/inner/dbxxx.rs | impl<KT: DbMapKeyType> DbXxxBase for FileDbXxxInner<KT> | sync_all
@serves C03 C16 C15
@ensures
final(self).same_env(old(self)), final(self).same_bytes(old(self)),
old(self).healthy() ==> r is Ok,
r is Ok ==> !final(self).kf().unflushed && !final(self).vf().unflushed && !final(self).hf().unflushed,
r is Ok ==> !final(self).kf().unsynced && !final(self).vf().unsynced && !final(self).hf().unsynced,
r is Err && old(self).dirty ==> final(self).dirty,
old(self).dirty_ok() ==> final(self).dirty_ok()
@end

@fn src/filedb/inner/dbxxx.rs | impl<KT: DbMapKeyType> DbXxxBase for FileDbXxxInner<KT> | sync_data
@serves C03 C16 C15
@ensures
final(self).same_env(old(self)), final(self).same_bytes(old(self)),
old(self).healthy() ==> r is Ok,
r is Ok ==> !final(self).kf().unflushed && !final(self).vf().unflushed && !final(self).hf().unflushed,
r is Ok ==> !final(self).kf().unsynced && !final(self).vf().unsynced && !final(self).hf().unsynced,
r is Err && old(self).dirty ==> final(self).dirty,
old(self).dirty_ok() ==> final(self).dirty_ok()
@end

@fn src/filedb/inner/dbxxx.rs | impl<KT: DbMapKeyType> DbXxxBase for FileDbXxxInner<KT> | read_fill_buffer
@serves C15
@ensures
final(self).same_files(old(self)),
old(self).healthy() ==> r is Ok
@end

@fn src/filedb/inner/dbxxx.rs | impl<KT: DbMapKeyType> DbXxxBase for FileDbXxxInner<KT> | len
@opts mutself
@serves C01 C15
@requires
old(self).inv()
@ensures
final(self).same_files(old(self)),
old(self).healthy() ==> r is Ok,
r is Ok ==> forall|w: MapW| #[trigger] map_ok(old(self).mb(), w) ==> r->Ok_0 == total(w.cs)
@end
@endmod
