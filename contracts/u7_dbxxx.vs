# dbxxx.rs — unit U7: the map over the three files (L4).
@mod dbxxx
@type src/filedb/inner/dbxxx.rs | FileDbXxxInner

@raw
verus! {
impl<KT: DbMapKeyType> FileDbXxxInner<KT> {
    pub open spec fn kf(&self) -> FileV { self.key_file.0.0@ }
    pub open spec fn vf(&self) -> FileV { self.val_file.0.0@ }
    pub open spec fn hf(&self) -> FileV { self.htx_file.0.file@ }
    pub open spec fn mb(&self) -> MapB {
        MapB { kb: self.kf().bytes, kpm: self.key_file.0.0.piece_mgr, vb: self.vf().bytes, vpm: self.val_file.0.0.piece_mgr,
               hb: self.hf().bytes, n: self.htx_file.0.buckets_size as int }
    }
    /// buffered updates exist ==> the dirty flag is raised (so that flush writes them)
    pub open spec fn dirty_ok(&self) -> bool { (self.kf().unflushed || self.vf().unflushed || self.hf().unflushed) ==> self.dirty }
    pub open spec fn healthy(&self) -> bool { self.kf().healthy && self.vf().healthy && self.hf().healthy }
    /// representation invariant of a map (property C05's list): some witness makes the three files a well-formed map
    pub open spec fn inv(&self) -> bool { exists|w: MapW| #[trigger] map_ok(self.mb(), w) }
    /// environment facts and static parts never change
    pub open spec fn same_env(&self, o: &Self) -> bool {
        &&& okh2(o.kf(), self.kf()) && okh2(o.vf(), self.vf()) && okh2(o.hf(), self.hf())
        &&& self.key_file.0.0.piece_mgr == o.key_file.0.0.piece_mgr && self.val_file.0.0.piece_mgr == o.val_file.0.0.piece_mgr
        &&& self.htx_file.0.file.piece_mgr == o.htx_file.0.file.piece_mgr && self.htx_file.0.buckets_size == o.htx_file.0.buckets_size
    }
    /// read-only frame (property C15): nothing but the cursors of the three files moved
    pub open spec fn same_files(&self, o: &Self) -> bool {
        &&& self.same_env(o)
        &&& same_but_pos(o.kf(), self.kf()) && same_but_pos(o.vf(), self.vf()) && same_but_pos(o.hf(), self.hf())
        &&& self.dirty == o.dirty
    }
    pub open spec fn same_bytes(&self, o: &Self) -> bool {
        self.kf().bytes == o.kf().bytes && self.vf().bytes == o.vf().bytes && self.hf().bytes == o.hf().bytes
    }
}
} // verus!
@end

@fn src/filedb/inner/dbxxx.rs | impl<KT: DbMapKeyType> FileDbXxxInner<KT> | is_dirty
@ensures
r == self.dirty
@end

@fn src/filedb/inner/dbxxx.rs | impl<KT: DbMapKeyType> DbXxxBase for FileDbXxxInner<KT> | flush
@serves C03 C16 C15
@ensures
final(self).same_env(old(self)), final(self).same_bytes(old(self)),
old(self).healthy() ==> r is Ok,
r is Ok && old(self).dirty_ok() ==> !final(self).kf().unflushed && !final(self).vf().unflushed && !final(self).hf().unflushed,
r is Err ==> final(self).dirty,
old(self).dirty_ok() ==> final(self).dirty_ok()
@end

@fn src/filedb/inner/dbxxx.rs | impl<KT: DbMapKeyType> DbXxxBase for FileDbXxxInner<KT> | sync_all
@serves C03 C16 C15
@ensures
final(self).same_env(old(self)), final(self).same_bytes(old(self)),
old(self).healthy() ==> r is Ok,
r is Ok ==> !final(self).kf().unflushed && !final(self).vf().unflushed && !final(self).hf().unflushed,
r is Ok ==> !final(self).kf().unsynced && !final(self).vf().unsynced && !final(self).hf().unsynced,
r is Err && old(self).dirty ==> final(self).dirty,
old(self).dirty_ok() ==> final(self).dirty_ok()
@end

@fn src/filedb/inner/dbxxx.rs | impl<KT: DbMapKeyType> DbXxxBase for FileDbXxxInner<KT> | sync_data
@serves C03 C16 C15
@ensures
final(self).same_env(old(self)), final(self).same_bytes(old(self)),
old(self).healthy() ==> r is Ok,
r is Ok ==> !final(self).kf().unflushed && !final(self).vf().unflushed && !final(self).hf().unflushed,
r is Ok ==> !final(self).kf().unsynced && !final(self).vf().unsynced && !final(self).hf().unsynced,
r is Err && old(self).dirty ==> final(self).dirty,
old(self).dirty_ok() ==> final(self).dirty_ok()
@end

@fn src/filedb/inner/dbxxx.rs | impl<KT: DbMapKeyType> DbXxxBase for FileDbXxxInner<KT> | read_fill_buffer
@serves C15
@ensures
final(self).same_files(old(self)),
old(self).healthy() ==> r is Ok
@end

@fn src/filedb/inner/dbxxx.rs | impl<KT: DbMapKeyType> DbXxxBase for FileDbXxxInner<KT> | len
@opts mutself
@serves C01 C15
@requires
old(self).inv()
@ensures
final(self).same_files(old(self)),
old(self).healthy() ==> r is Ok,
r is Ok ==> forall|w: MapW| #[trigger] map_ok(old(self).mb(), w) ==> r->Ok_0 == total(w.cs),
r is Ok ==> forall|w: MapW| #[trigger] map_ok(old(self).mb(), w) ==> is_cardinality(w, r->Ok_0 as nat)
@exit
proof {
    if r__ is Ok {
        assert forall|w: MapW| #[trigger] map_ok(old(self).mb(), w) implies is_cardinality(w, r__->Ok_0 as nat) by {
            lemma_len_is_cardinality(old(self).mb(), w);
        }
    }
}
@end

@fn src/filedb/inner/dbxxx.rs | impl<KT: DbMapKeyType> FileDbXxxInner<KT> | find_in_hash_buckets_kt
@opts rlimit=100
@serves C01 C15
@requires
old(self).inv(), hash.val == key_hash(key_kt.bytes())
@ensures
final(self).same_files(old(self)),
old(self).healthy() ==> r is Ok,
r is Ok ==> forall|w: MapW| #[trigger] map_ok(old(self).mb(), w) ==> find_post(old(self).mb(), w, key_kt.bytes(),
    match r->Ok_0 { Some(t) => Some((t.0.val as nat, t.1.val as nat)), None => None })
@entry
let ghost m = old(self).mb();
let ghost key = key_kt.bytes();
let ghost w0: MapW = choose|w: MapW| #[trigger] map_ok(m, w);
let ghost b = bucket_of(key, m.n);
let ghost s0 = w0.cs[b];
let ghost kf0 = old(self).kf();
let ghost mut i: int = 0;
proof {
    lemma_bucket_range(key, m.n);
    assert(chain_ok(w0.kw, bucket(m.hb, b), s0, b, m.n));
    lemma_chain_head(w0.kw, bucket(m.hb, b), s0, b, m.n);
}
@loop 1 invariant
self.key_file.0 == *final(locked_key),
0 <= i <= s0.len(),
key_offset.val as nat == (if i < s0.len() { s0[i] } else { 0 }),
prev_key_offset.val as nat == prev_of(s0, i),
same_but_pos(kf0, locked_key.0@), okh2(kf0, locked_key.0@), locked_key.0.piece_mgr == m.kpm,
forall|j: int| 0 <= j < i ==> kkey(w0.kw, #[trigger] s0[j]) != key
@loop 1 decreases
s0.len() - i
@loop 1 body-start
proof {
    if i >= s0.len() { assert(false); }
    lemma_chain_member(w0.kw, bucket(m.hb, b), s0, b, m.n, i);
    assert(key_at(locked_key.0@.bytes, m.kpm, w0.kw, s0[i]));
}
@loop 1 body-end
proof { i = i + 1; }
@before-call read_piece_only_bucket_next_offset 1
proof { assert(key_at(locked_key.0@.bytes, m.kpm, w0.kw, s0[i])); }
@before-return 1
proof {
    let ko = s0[i];
    assert forall|w: MapW| #[trigger] map_ok(m, w) implies find_post(m, w, key, Some((ko, prev_of(s0, i)))) by {
        lemma_chain_unique(m, w0, w, b);
        assert(chain_ok(w.kw, bucket(m.hb, b), w.cs[b], b, m.n));
        lemma_chain_member(w.kw, bucket(m.hb, b), w.cs[b], b, m.n, i);
        lemma_key_same(m, w0, w, ko);
        assert(w.cs[b][i] == ko);
    }
}
@exit
proof {
    if r__ is Ok && r__->Ok_0 is None {
        if i < s0.len() { lemma_chain_member(w0.kw, bucket(m.hb, b), s0, b, m.n, i); }
        assert(i == s0.len());
        assert forall|w: MapW| #[trigger] map_ok(m, w) implies find_post(m, w, key, None) by {
            lemma_chain_unique(m, w0, w, b);
            assert(chain_ok(w.kw, bucket(m.hb, b), w.cs[b], b, m.n));
            assert forall|j: int| 0 <= j < w.cs[b].len() implies kkey(w.kw, #[trigger] w.cs[b][j]) != key by {
                lemma_chain_member(w.kw, bucket(m.hb, b), w.cs[b], b, m.n, j);
                lemma_chain_member(w0.kw, bucket(m.hb, b), s0, b, m.n, j);
                lemma_key_same(m, w0, w, s0[j]);
            }
            lemma_lookup_absent(m, w, key);
        }
    }
}
@end

@fn src/filedb/inner/dbxxx.rs | impl<KT: DbMapKeyType> FileDbXxxInner<KT> | load_value
@opts mutself
@requires
piece_offset.val != 0, exists|w: MapW| #[trigger] map_ok(old(self).mb(), w) && is_key(w.kw, piece_offset.val as nat)
@ensures
final(self).same_files(old(self)),
old(self).healthy() ==> r is Ok,
r is Ok ==> forall|w: MapW| #[trigger] map_ok(old(self).mb(), w) && is_key(w.kw, piece_offset.val as nat) ==> r->Ok_0@ == vval(w.vw, kvoff(w.kw, piece_offset.val as nat))
@entry
let ghost m = old(self).mb();
let ghost ko = piece_offset.val as nat;
let ghost w0: MapW = choose|w: MapW| #[trigger] map_ok(m, w) && is_key(w.kw, ko);
proof {
    assert(key_at(m.kb, m.kpm, w0.kw, ko));
    lemma_val_link(w0.kw, w0.vw, w0.vown, ko);
    lemma_val_decodes(m.vb, m.vpm, w0.vw, kvoff(w0.kw, ko));
}
@before-call read_piece_only_value 1
proof { assert(val_at(self.vf().bytes, m.vpm, w0.vw, kvoff(w0.kw, ko))); }
@exit
proof {
    if r__ is Ok {
        assert forall|w: MapW| #[trigger] map_ok(m, w) && is_key(w.kw, ko) implies r__->Ok_0@ == vval(w.vw, kvoff(w.kw, ko)) by {
            assert(key_at(m.kb, m.kpm, w.kw, ko));
            lemma_key_same(m, w0, w, ko);
            lemma_val_link(w.kw, w.vw, w.vown, ko);
            assert(val_at(m.vb, m.vpm, w.vw, kvoff(w.kw, ko)));
        }
    }
}
@end

@fn src/filedb/inner/dbxxx.rs | impl<KT: DbMapKeyType> DbXxxObjectSafe<KT> for FileDbXxxInner<KT> | get_kt
@opts mapres
@serves C01 C09 C15
@requires
old(self).inv()
@ensures
final(self).same_files(old(self)),
old(self).healthy() ==> r is Ok,
r is Ok ==> forall|w: MapW| #[trigger] map_ok(old(self).mb(), w) ==> (match r->Ok_0 { Some(v) => Some(v@), None => None }) == lookup(w, key_kt.bytes())
@entry
let ghost m = old(self).mb();
let ghost key = key_kt.bytes();
let ghost w0: MapW = choose|w: MapW| #[trigger] map_ok(m, w);
let ghost mut gopt: Option<(nat, nat)> = None;
@after-call find_in_hash_buckets_kt 1
proof {
    gopt = match opt { Some(t) => Some((t.0.val as nat, t.1.val as nat)), None => None };
    assert(find_post(m, w0, key, gopt));
    lemma_bucket_range(key, m.n);
    if opt is Some {
        let ko = opt->Some_0.0.val as nat;
        assert(chain_ok(w0.kw, bucket(m.hb, bucket_of(key, m.n)), w0.cs[bucket_of(key, m.n)], bucket_of(key, m.n), m.n));
        let i = choose|i: int| 0 <= i < w0.cs[bucket_of(key, m.n)].len() && #[trigger] w0.cs[bucket_of(key, m.n)][i] == ko && kkey(w0.kw, ko) == key && opt->Some_0.1.val as nat == prev_of(w0.cs[bucket_of(key, m.n)], i);
        lemma_chain_member(w0.kw, bucket(m.hb, bucket_of(key, m.n)), w0.cs[bucket_of(key, m.n)], bucket_of(key, m.n), m.n, i);
        assert(map_ok(self.mb(), w0) && is_key(w0.kw, ko));
    }
}
@exit
proof {
    if r__ is Ok {
        assert forall|w: MapW| #[trigger] map_ok(m, w) implies (match r__->Ok_0 { Some(v) => Some(v@), None => None }) == lookup(w, key) by {
            assert(find_post(m, w, key, gopt));
            if gopt is Some {
                let ko = gopt->Some_0.0;
                let s = w.cs[bucket_of(key, m.n)];
                assert(chain_ok(w.kw, bucket(m.hb, bucket_of(key, m.n)), s, bucket_of(key, m.n), m.n));
                let i = choose|i: int| 0 <= i < s.len() && #[trigger] s[i] == ko && kkey(w.kw, ko) == key && gopt->Some_0.1 == prev_of(s, i);
                lemma_chain_member(w.kw, bucket(m.hb, bucket_of(key, m.n)), s, bucket_of(key, m.n), m.n, i);
                lemma_lookup_found(m, w, key, ko);
            }
        }
    }
}
@end

@fn src/filedb/inner/dbxxx.rs | impl<KT: DbMapKeyType> DbXxxObjectSafe<KT> for FileDbXxxInner<KT> | includes_key_kt
@serves C01 C15
@requires
old(self).inv()
@ensures
final(self).same_files(old(self)),
old(self).healthy() ==> r is Ok,
r is Ok ==> forall|w: MapW| #[trigger] map_ok(old(self).mb(), w) ==> r->Ok_0 == has_key(w, key_kt.bytes())
@entry
let ghost m = old(self).mb();
let ghost key = key_kt.bytes();
let ghost mut gopt: Option<(nat, nat)> = None;
@after-call find_in_hash_buckets_kt 1
proof { gopt = match opt { Some(t) => Some((t.0.val as nat, t.1.val as nat)), None => None }; }
@exit
proof {
    if r__ is Ok {
        assert forall|w: MapW| #[trigger] map_ok(m, w) implies r__->Ok_0 == has_key(w, key) by {
            assert(find_post(m, w, key, gopt));
            lemma_bucket_range(key, m.n);
            if gopt is Some {
                let ko = gopt->Some_0.0;
                let s = w.cs[bucket_of(key, m.n)];
                assert(chain_ok(w.kw, bucket(m.hb, bucket_of(key, m.n)), s, bucket_of(key, m.n), m.n));
                let i = choose|i: int| 0 <= i < s.len() && #[trigger] s[i] == ko && kkey(w.kw, ko) == key && gopt->Some_0.1 == prev_of(s, i);
                lemma_chain_member(w.kw, bucket(m.hb, bucket_of(key, m.n)), s, bucket_of(key, m.n), m.n, i);
                lemma_lookup_found(m, w, key, ko);
            }
        }
    }
}
@end

@fn src/filedb/inner/dbxxx.rs | impl<KT: DbMapKeyType> FileDbXxxInner<KT> | store_value_on_insert
@opts rlimit=150
@serves C01 C08
@requires
old(self).inv(), small(old(self).mb()), piece_offset.val != 0, value@.len() <= 0x100_0000,
exists|w: MapW| #[trigger] map_ok(old(self).mb(), w) && is_key(w.kw, piece_offset.val as nat),
forall|w: MapW| #[trigger] map_ok(old(self).mb(), w) && is_key(w.kw, piece_offset.val as nat) ==> kkey(w.kw, piece_offset.val as nat).len() <= 0x1_0000
@ensures
final(self).same_env(old(self)), final(self).dirty == old(self).dirty, final(self).hf() == old(self).hf(),
old(self).healthy() ==> r is Ok,
r is Ok && r->Ok_0.val == piece_offset.val ==> forall|w: MapW| #[trigger] map_ok(old(self).mb(), w) && is_key(w.kw, piece_offset.val as nat) ==>
    exists|w2: MapW| #[trigger] map_ok(final(self).mb(), w2) && is_insert(w, w2, kkey(w.kw, piece_offset.val as nat), value@)
@entry
let ghost m = old(self).mb();
let ghost ko = piece_offset.val as nat;
let ghost w0: MapW = choose|w: MapW| #[trigger] map_ok(m, w) && is_key(w.kw, ko);
let ghost voff0 = kvoff(w0.kw, ko);
proof {
    assert(key_at(m.kb, m.kpm, w0.kw, ko));
    lemma_val_link(w0.kw, w0.vw, w0.vown, ko);
    lemma_key_decodes(m.kb, m.kpm, w0.kw, ko);
    lemma_val_decodes(m.vb, m.vpm, w0.vw, voff0);
    assert(val_at(m.vb, m.vpm, w0.vw, voff0));
    assert(slot_ok(m.vb, voff0, w0.vw.slots[voff0]));
    lemma_slot_bounds(m.vb, voff0, w0.vw.slots[voff0]);
}
@before-call write_piece 1
proof {
    assert(val_at(self.vf().bytes, m.vpm, w0.vw, voff0));
    assert(heap_ok(self.vf().bytes, m.vpm, w0.vw) && val_pre(self.vf().bytes, m.vpm, w0.vw, false, voff0));
}
@before-call write_piece 2
proof {
    assert(heap_ok(self.kf().bytes, m.kpm, w0.kw) && key_pre(self.kf().bytes, m.kpm, w0.kw, false, ko));
    let tv = w_write(w0.vw, m.vb.len(), false, voff0, val_need(value@), SlotC::Val(value@));
    lemma_roundup_val(value@);
    lemma_write_effect(m.vb, m.vpm, w0.vw, voff0, val_need(value@), SlotC::Val(value@));
}
@exit
proof {
    if r__ is Ok && r__->Ok_0.val == piece_offset.val {
        let m2 = self.mb();
        assert forall|w: MapW| #[trigger] map_ok(m, w) && is_key(w.kw, ko) implies
            exists|w2: MapW| #[trigger] map_ok(m2, w2) && is_insert(w, w2, kkey(w.kw, ko), value@) by {
            lemma_key_same(m, w0, w, ko);
            lemma_val_link(w.kw, w.vw, w.vown, ko);
            let voff = kvoff(w.kw, ko);
            assert(heap_ok(m.vb, m.vpm, w.vw) && val_pre(m.vb, m.vpm, w.vw, false, voff));
            lemma_roundup_val(value@);
            let tv = w_write(w.vw, m.vb.len(), false, voff, val_need(value@), SlotC::Val(value@));
            assert(heap_ok(m2.vb, m.vpm, tv.0));
            lemma_write_effect(m.vb, m.vpm, w.vw, voff, val_need(value@), SlotC::Val(value@));
            if tv.1 == voff {
                // value rewritten in place: the key file is untouched
                lemma_set_effect(w.kw, ko, w.kw.slots[ko]);
                assert(w_set(w.kw, ko, w.kw.slots[ko]).slots =~= w.kw.slots);
                lemma_map_update(m, m2, w, w.kw, tv.0, ko, voff, value@);
                let w2 = MapW { kw: w.kw, vw: tv.0, cs: w.cs, vown: w.vown.remove(voff).insert(voff, ko) };
                assert(map_ok(m2, w2) && is_insert(w, w2, kkey(w.kw, ko), value@));
            } else {
                let kc = SlotC::Key(kkey(w.kw, ko), tv.1, knext(w.kw, ko));
                let kn = key_need(kkey(w.kw, ko), tv.1, knext(w.kw, ko));
                lemma_key_decodes(m.kb, m.kpm, w.kw, ko);
                lemma_roundup_key(kkey(w.kw, ko), tv.1, knext(w.kw, ko));
                assert(heap_ok(m.kb, m.kpm, w.kw) && key_pre(m.kb, m.kpm, w.kw, false, ko));
                let tk = w_write(w.kw, m.kb.len(), false, ko, kn, kc);
                assert(heap_ok(m2.kb, m.kpm, tk.0));
                lemma_write_effect(m.kb, m.kpm, w.kw, ko, kn, kc);
                assert(tk.1 == ko);
                lemma_map_update(m, m2, w, tk.0, tv.0, ko, tv.1, value@);
                let w2 = MapW { kw: tk.0, vw: tv.0, cs: w.cs, vown: w.vown.remove(voff).insert(tv.1, ko) };
                assert(map_ok(m2, w2) && is_insert(w, w2, kkey(w.kw, ko), value@));
            }
        }
    }
}
@end

@fn src/filedb/inner/dbxxx.rs | impl<KT: DbMapKeyType> DbXxxObjectSafe<KT> for FileDbXxxInner<KT> | put_kt
@opts rlimit=200
@serves C01 C03 C05 C06 C08 C09 C18
@requires
old(self).inv(), small(old(self).mb()), key_kt.bytes().len() <= 0x1_0000, value@.len() <= 0x100_0000,
forall|w: MapW, o: nat| #[trigger] map_ok(old(self).mb(), w) && #[trigger] is_key(w.kw, o) ==> kkey(w.kw, o).len() <= 0x1_0000
@ensures
final(self).same_env(old(self)),
old(self).healthy() ==> r is Ok,
r is Ok ==> forall|w: MapW| #[trigger] map_ok(old(self).mb(), w) ==> exists|w2: MapW| #[trigger] map_ok(final(self).mb(), w2) && is_insert(w, w2, key_kt.bytes(), value@),
r is Ok ==> final(self).dirty_ok()
@entry
let ghost m = old(self).mb();
let ghost key = key_kt.bytes();
let ghost b = bucket_of(key, m.n);
let ghost w0: MapW = choose|w: MapW| #[trigger] map_ok(m, w);
let ghost mut gopt: Option<(nat, nat)> = None;
let ghost mut voff: nat = 0;
let ghost mut ko: nat = 0;
let ghost mut hb1: Seq<u8> = m.hb;
proof { lemma_bucket_range(key, m.n); }
@before-call find_in_hash_buckets_kt 1
proof { assert(self.mb() == m); assert(map_ok(self.mb(), w0)); }   // holds wherever the dirty flag is set relative to the lookup
@after-call find_in_hash_buckets_kt 1
proof {
    gopt = match opt { Some(t) => Some((t.0.val as nat, t.1.val as nat)), None => None };
    assert(find_post(m, w0, key, gopt));
    assert(chain_ok(w0.kw, bucket(m.hb, b), w0.cs[b], b, m.n));
    lemma_chain_head(w0.kw, bucket(m.hb, b), w0.cs[b], b, m.n);
    if gopt is Some {
        let k0 = gopt->Some_0.0;
        let i = choose|i: int| 0 <= i < w0.cs[b].len() && #[trigger] w0.cs[b][i] == k0 && kkey(w0.kw, k0) == key && gopt->Some_0.1 == prev_of(w0.cs[b], i);
        lemma_chain_member(w0.kw, bucket(m.hb, b), w0.cs[b], b, m.n, i);
        assert(map_ok(self.mb(), w0) && is_key(w0.kw, k0));
    } else {
        if w0.cs[b].len() > 0 { lemma_chain_member(w0.kw, bucket(m.hb, b), w0.cs[b], b, m.n, 0); lemma_key_decodes(m.kb, m.kpm, w0.kw, w0.cs[b][0]); }
        assert(heap_ok(self.vf().bytes, m.vpm, w0.vw));
    }
}
@after-call add_value_piece 1
proof {
    voff = new_val_piece.offset.val as nat;
    lemma_roundup_val(value@);
    lemma_alloc_effect(m.vb, m.vpm, w0.vw, val_need(value@), SlotC::Val(value@));
    assert(heap_ok(self.kf().bytes, m.kpm, w0.kw));
}
@after-call add_key_piece 1
proof { ko = new_key_piece.offset.val as nat; }
@after-call write_key_piece_offset 1
proof { hb1 = self.hf().bytes; lemma_rd_count_same(m.hb, hb1); }
@before-call store_value_on_insert 1
proof {
    assert(self.mb() == m);
    assert(self.inv());
    assert(key_offset.val != 0);
    assert(map_ok(self.mb(), w0) && is_key(w0.kw, key_offset.val as nat));
}
@exit
proof {
    if r__ is Ok {
        let m2 = self.mb();
        assert forall|w: MapW| #[trigger] map_ok(m, w) implies exists|w2: MapW| #[trigger] map_ok(m2, w2) && is_insert(w, w2, key, value@) by {
            assert(find_post(m, w, key, gopt));
            if gopt is Some {
                let k0 = gopt->Some_0.0;
                let s = w.cs[b];
                assert(chain_ok(w.kw, bucket(m.hb, b), s, b, m.n));
                let i = choose|i: int| 0 <= i < s.len() && #[trigger] s[i] == k0 && kkey(w.kw, k0) == key && gopt->Some_0.1 == prev_of(s, i);
                lemma_chain_member(w.kw, bucket(m.hb, b), s, b, m.n, i);
                assert(map_ok(m, w) && is_key(w.kw, k0));
            } else {
                let head = bucket(m.hb, b);
                assert(chain_ok(w.kw, head, w.cs[b], b, m.n));
                lemma_chain_head(w.kw, head, w.cs[b], b, m.n);
                if w.cs[b].len() > 0 { lemma_chain_member(w.kw, head, w.cs[b], b, m.n, 0); lemma_key_decodes(m.kb, m.kpm, w.kw, w.cs[b][0]); }
                lemma_roundup_val(value@);
                let tv = w_alloc(w.vw, m.vb.len(), val_need(value@), SlotC::Val(value@));
                assert(heap_ok(m2.vb, m.vpm, tv.0) && tv.1 == voff);
                lemma_alloc_effect(m.vb, m.vpm, w.vw, val_need(value@), SlotC::Val(value@));
                lemma_roundup_key(key, voff, head);
                let kc = SlotC::Key(key, voff, head);
                let tk = w_alloc(w.kw, m.kb.len(), key_need(key, voff, head), kc);
                assert(heap_ok(m2.kb, m.kpm, tk.0) && tk.1 == ko);
                lemma_alloc_effect(m.kb, m.kpm, w.kw, key_need(key, voff, head), kc);
                lemma_count_write(hb1, m.n, htx_count(hb1) + 1);
                lemma_rd_count_same(m.hb, hb1);
                lemma_map_add(m, m2, w, tk.0, tv.0, key, value@, ko, voff);
                let w2 = MapW { kw: tk.0, vw: tv.0, cs: w.cs.update(b, seq![ko] + w.cs[b]), vown: w.vown.insert(voff, ko) };
                assert(map_ok(m2, w2) && is_insert(w, w2, key, value@));
            }
        }
    }
}
@end

@fn src/filedb/inner/dbxxx.rs | impl<KT: DbMapKeyType> DbXxxObjectSafe<KT> for FileDbXxxInner<KT> | del_kt
@opts rlimit=300
@serves C01 C03 C05 C06 C08 C18
@requires
old(self).inv(), small(old(self).mb()), key_kt.bytes().len() <= 0x1_0000,
forall|w: MapW, o: nat| #[trigger] map_ok(old(self).mb(), w) && #[trigger] is_key(w.kw, o) ==> kkey(w.kw, o).len() <= 0x1_0000
@ensures
final(self).same_env(old(self)),
old(self).healthy() ==> r is Ok,
r is Ok && r->Ok_0 is Some ==> forall|w: MapW| #[trigger] map_ok(old(self).mb(), w) ==>
    lookup(w, key_kt.bytes()) == Some(r->Ok_0->Some_0@)
    && exists|w2: MapW| #[trigger] map_ok(final(self).mb(), w2) && is_remove(w, w2, key_kt.bytes()),
r is Ok && r->Ok_0 is None ==> final(self).same_bytes(old(self)) && forall|w: MapW| #[trigger] map_ok(old(self).mb(), w) ==> !has_key(w, key_kt.bytes()),
r is Ok && old(self).dirty_ok() ==> final(self).dirty_ok()
@entry
let ghost m = old(self).mb();
let ghost key = key_kt.bytes();
let ghost b = bucket_of(key, m.n);
let ghost w0: MapW = choose|w: MapW| #[trigger] map_ok(m, w);
let ghost s0 = w0.cs[b];
let ghost mut gopt: Option<(nat, nat)> = None;
let ghost mut i0: int = 0;
let ghost mut hb1: Seq<u8> = m.hb;
let ghost mut kb1: Seq<u8> = m.kb;
proof { lemma_bucket_range(key, m.n); }
@before-call find_in_hash_buckets_kt 1
proof { assert(self.mb() == m); assert(map_ok(self.mb(), w0)); }   // holds wherever the dirty flag is set relative to the lookup
@after-call find_in_hash_buckets_kt 1
proof {
    gopt = match opt { Some(t) => Some((t.0.val as nat, t.1.val as nat)), None => None };
    assert(find_post(m, w0, key, gopt));
    assert(chain_ok(w0.kw, bucket(m.hb, b), s0, b, m.n));
    if gopt is Some {
        let k0 = gopt->Some_0.0;
        i0 = choose|i: int| 0 <= i < s0.len() && #[trigger] s0[i] == k0 && kkey(w0.kw, k0) == key && gopt->Some_0.1 == prev_of(s0, i);
        lemma_chain_member(w0.kw, bucket(m.hb, b), s0, b, m.n, i0);
        if i0 > 0 { lemma_chain_member(w0.kw, bucket(m.hb, b), s0, b, m.n, i0 - 1); lemma_key_decodes(m.kb, m.kpm, w0.kw, s0[i0 - 1]); }
        lemma_key_decodes(m.kb, m.kpm, w0.kw, k0);
        lemma_val_link(w0.kw, w0.vw, w0.vown, k0);
        assert(key_at(self.kf().bytes, m.kpm, w0.kw, k0));
        assert(val_at(self.vf().bytes, m.vpm, w0.vw, kvoff(w0.kw, k0)));
    }
}
@after-call read_piece 1
proof {
    assert(key_at(m.kb, m.kpm, w0.kw, s0[i0]));
    lemma_val_decodes(m.vb, m.vpm, w0.vw, kvoff(w0.kw, s0[i0]));
}
@before-call read_piece 2
proof { assert(key_at(self.kf().bytes, m.kpm, w0.kw, s0[i0 - 1])); }
@before-call write_piece 1
proof {
    let p = s0[i0 - 1];
    assert(heap_ok(self.kf().bytes, m.kpm, w0.kw) && key_pre(self.kf().bytes, m.kpm, w0.kw, false, p));
}
@after-call write_piece 1
proof { kb1 = self.kf().bytes; }
@after-call write_key_piece_offset 1
proof { hb1 = self.hf().bytes; lemma_rd_count_same(m.hb, hb1); }
@before-call delete_piece 1
proof { assert(val_at(self.vf().bytes, m.vpm, w0.vw, kvoff(w0.kw, s0[i0]))); }
@before-call delete_piece 2
proof {
    let ko = s0[i0];
    if i0 > 0 {
        let p = s0[i0 - 1];
        let kc = SlotC::Key(kkey(w0.kw, p), kvoff(w0.kw, p), knext(w0.kw, ko));
        let kn = key_need(kkey(w0.kw, p), kvoff(w0.kw, p), knext(w0.kw, ko));
        lemma_roundup_key(kkey(w0.kw, p), kvoff(w0.kw, p), knext(w0.kw, ko));
        lemma_prev_rewrite_keeps(m.kb, kb1, m.kpm, w0.kw, p, ko, kn, kc);
    } else {
        assert(key_at(self.kf().bytes, m.kpm, w0.kw, ko));
    }
}
@exit
proof {
    if r__ is Ok {
        let m2 = self.mb();
        if gopt is Some {
            let ko = gopt->Some_0.0;
            lemma_count_bytes(hb1, m2.hb, m.n);
            lemma_del_kt_found(m, m2, kb1, hb1, w0, key, ko, gopt->Some_0.1, i0);
        } else {
            assert forall|w: MapW| #[trigger] map_ok(m, w) implies !has_key(w, key) by {
                assert(find_post(m, w, key, gopt));
            }
        }
    }
}
@end

@type src/filedb/inner/dbxxx.rs | DbXxxIterMut

@raw root
verus! {
/// two entries with the same position in iteration order are the same entry (each live entry is visited exactly once)
pub proof fn lemma_entry_unique(cs: Seq<Seq<nat>>, b1: int, i1: int, b2: int, i2: int)
    requires 0 <= b1 < cs.len(), 0 <= b2 < cs.len(), 0 <= i1 < cs[b1].len(), 0 <= i2 < cs[b2].len(),
        upto(cs, b1) + i1 == upto(cs, b2) + i2
    ensures b1 == b2 && i1 == i2
{
    if b1 < b2 { lemma_upto_mono(cs, b1 + 1, b2); } else if b2 < b1 { lemma_upto_mono(cs, b2 + 1, b1); }
}
} // verus!
@end

@fn src/filedb/inner/dbxxx.rs | impl<KT: DbMapKeyType> FileDbXxxInner<KT> | load_key_data
@opts mutself
@requires
piece_offset.val != 0, exists|w: MapW| #[trigger] map_ok(old(self).mb(), w) && is_key(w.kw, piece_offset.val as nat)
@ensures
final(self).same_files(old(self)),
old(self).healthy() ==> r is Ok,
r is Ok ==> forall|w: MapW| #[trigger] map_ok(old(self).mb(), w) && is_key(w.kw, piece_offset.val as nat) ==> r->Ok_0.bytes() == kkey(w.kw, piece_offset.val as nat)
@entry
let ghost m = old(self).mb();
let ghost ko = piece_offset.val as nat;
let ghost w0: MapW = choose|w: MapW| #[trigger] map_ok(m, w) && is_key(w.kw, ko);
proof { assert(key_at(m.kb, m.kpm, w0.kw, ko)); }
@exit
proof {
    if r__ is Ok {
        assert forall|w: MapW| #[trigger] map_ok(m, w) && is_key(w.kw, ko) implies r__->Ok_0.bytes() == kkey(w.kw, ko) by {
            assert(key_at(m.kb, m.kpm, w.kw, ko));
        }
    }
}
@end

@fn src/filedb/inner/dbxxx.rs | impl<KT: DbMapKeyType> DbXxxIterMut<KT> | new
@opts mutparam=db_map
@serves C04
@requires
db_map.inv()
@ensures
db_map.healthy() ==> r is Ok,
r is Ok ==> r->Ok_0.db_map.same_files(&db_map) && r->Ok_0.buckets_size == db_map.htx_file.0.buckets_size && r->Ok_0.buckets_idx == 0 && r->Ok_0.key_offset.val == 0,
r is Ok ==> forall|w: MapW| #[trigger] map_ok(db_map.mb(), w) ==> iter_inv(w, db_map.mb().n, 0, 0, r->Ok_0.remaining_item_count as nat, 0)
@end

@fn src/filedb/inner/dbxxx.rs | impl<KT: DbMapKeyType> DbXxxIterMut<KT> | next_piece_offset
@opts rlimit=300
@serves C04 C15
@requires
old(self).db_map.inv(), old(self).db_map.healthy(), old(self).buckets_size == old(self).db_map.htx_file.0.buckets_size,
exists|w: MapW, k: nat| #[trigger] map_ok(old(self).db_map.mb(), w) && #[trigger] iter_inv(w, old(self).db_map.mb().n, old(self).key_offset.val as nat, old(self).buckets_idx as int, old(self).remaining_item_count as nat, k)
@ensures
final(self).db_map.same_files(&old(self).db_map), final(self).buckets_size == old(self).buckets_size,
forall|w: MapW, k: nat| #[trigger] map_ok(old(self).db_map.mb(), w) && #[trigger] iter_inv(w, old(self).db_map.mb().n, old(self).key_offset.val as nat, old(self).buckets_idx as int, old(self).remaining_item_count as nat, k) ==> ({
    &&& k < total(w.cs) ==> r == Some(final(self).key_offset) && final(self).key_offset.val != 0 && iter_inv(w, old(self).db_map.mb().n, final(self).key_offset.val as nat, final(self).buckets_idx as int, final(self).remaining_item_count as nat, k + 1)
    &&& k == total(w.cs) ==> r is None && iter_inv(w, old(self).db_map.mb().n, final(self).key_offset.val as nat, final(self).buckets_idx as int, final(self).remaining_item_count as nat, k)
})
@entry
let ghost m = old(self).db_map.mb();
let ghost n = m.n;
let ghost ko0 = old(self).key_offset.val as nat;
let ghost bidx0 = old(self).buckets_idx as int;
let ghost rem0 = old(self).remaining_item_count as nat;
let ghost wk: (MapW, nat) = choose|w: MapW, k: nat| #[trigger] map_ok(m, w) && #[trigger] iter_inv(w, n, ko0, bidx0, rem0, k);
let ghost w0 = wk.0;
let ghost mut ko1: nat = ko0;
proof {
    if ko0 != 0 {
        let i = choose|i: int| 0 <= i < w0.cs[bidx0 - 1].len() && #[trigger] w0.cs[bidx0 - 1][i] == ko0 && wk.1 == upto(w0.cs, bidx0 - 1) + i + 1;
        assert(chain_ok(w0.kw, bucket(m.hb, bidx0 - 1), w0.cs[bidx0 - 1], bidx0 - 1, n));
        lemma_chain_member(w0.kw, bucket(m.hb, bidx0 - 1), w0.cs[bidx0 - 1], bidx0 - 1, n, i);
        assert(key_at(m.kb, m.kpm, w0.kw, ko0));
    }
}
@after-call read_piece_only_bucket_next_offset 1
proof { ko1 = self.key_offset.val as nat; }
@loop 1 invariant
self.db_map == *final(db_map_inner), db_map_inner.htx_file.0 == *final(htx_inner),
buckets_size == n, bidx0 <= buckets_idx <= n,
htx_inner.buckets_size == n, htx_wf(htx_inner.file@.bytes, n), htx_inner.file@.bytes == m.hb,
same_but_pos(old(self).db_map.hf(), htx_inner.file@), okh2(old(self).db_map.hf(), htx_inner.file@), htx_inner.file.piece_mgr == old(self).db_map.htx_file.0.file.piece_mgr,
key_offset.val == 0 ==> all_empty(m.hb, bidx0, buckets_idx as int),
key_offset.val != 0 ==> buckets_idx > bidx0 && all_empty(m.hb, bidx0, buckets_idx - 1) && key_offset.val as nat == bucket(m.hb, buckets_idx - 1)
@loop 1 decreases
n - buckets_idx
@exit
proof {
    let ko2 = self.key_offset.val as nat; let bidx2 = self.buckets_idx as int; let rem2 = self.remaining_item_count as nat;
    assert forall|w: MapW, k: nat| #[trigger] map_ok(m, w) && #[trigger] iter_inv(w, n, ko0, bidx0, rem0, k) implies ({
        &&& k < total(w.cs) ==> r__ == Some(self.key_offset) && ko2 != 0 && iter_inv(w, n, ko2, bidx2, rem2, k + 1)
        &&& k == total(w.cs) ==> r__ is None && iter_inv(w, n, ko2, bidx2, rem2, k)
    }) by {
        lemma_upto_total(w.cs);
        if ko0 != 0 {
            let b = bidx0 - 1;
            let i = choose|i: int| 0 <= i < w.cs[b].len() && #[trigger] w.cs[b][i] == ko0 && k == upto(w.cs, b) + i + 1;
            assert(chain_ok(w.kw, bucket(m.hb, b), w.cs[b], b, n));
            lemma_chain_member(w.kw, bucket(m.hb, b), w.cs[b], b, n, i);
            assert(key_at(m.kb, m.kpm, w.kw, ko0));
            lemma_upto_mono(w.cs, b + 1, n);
            assert(upto(w.cs, b + 1) == upto(w.cs, b) + w.cs[b].len());
            if ko1 != 0 {
                assert(w.cs[b][i + 1] == ko1);
                assert(ko2 == ko1 && bidx2 == bidx0);
                assert(0 <= i + 1 < w.cs[bidx2 - 1].len() && w.cs[bidx2 - 1][i + 1] == ko2 && (k + 1) as nat == upto(w.cs, bidx2 - 1) + (i + 1) + 1);
            } else {
                if i + 1 < w.cs[b].len() { lemma_chain_member(w.kw, bucket(m.hb, b), w.cs[b], b, n, i + 1); }
                assert(i == w.cs[b].len() - 1);
                assert(k == upto(w.cs, bidx0));
                lemma_iter_scan(m, w, bidx0, bidx2, ko2);
                if ko2 != 0 {
                    assert(0 <= 0 < w.cs[bidx2 - 1].len() && w.cs[bidx2 - 1][0] == ko2 && (k + 1) as nat == upto(w.cs, bidx2 - 1) + 0 + 1);
                    assert(upto(w.cs, bidx2) == upto(w.cs, bidx2 - 1) + w.cs[bidx2 - 1].len());
                }
            }
        } else {
            if bidx0 == 0 { assert(upto(w.cs, 0) == 0); }
            assert(k == upto(w.cs, bidx0));
            lemma_iter_scan(m, w, bidx0, bidx2, ko2);
            if ko2 != 0 {
                assert(0 <= 0 < w.cs[bidx2 - 1].len() && w.cs[bidx2 - 1][0] == ko2 && (k + 1) as nat == upto(w.cs, bidx2 - 1) + 0 + 1);
                assert(upto(w.cs, bidx2) == upto(w.cs, bidx2 - 1) + w.cs[bidx2 - 1].len());
            }
        }
    }
}
@end

@fn src/filedb/inner/dbxxx.rs | impl<KT: DbMapKeyType> Iterator for DbXxxIterMut<KT> | size_hint
@serves C04
@ensures
r.0 == self.remaining_item_count as usize, r.1 == Some(self.remaining_item_count as usize)
@end

@raw root
verus! {
/// what one step of an iterator over a map yields, per witness and position
pub open spec fn iter_next_post<KT: DbMapKeyType>(w: MapW, n: int, k: nat, r: Option<(KT, Vec<u8>)>, ko2: nat, bidx2: int, rem2: nat) -> bool {
    &&& k < total(w.cs) ==> r is Some && is_key(w.kw, ko2) && r->Some_0.0.bytes() == kkey(w.kw, ko2) && r->Some_0.1@ == vval(w.vw, kvoff(w.kw, ko2)) && iter_inv(w, n, ko2, bidx2, rem2, k + 1)
    &&& k == total(w.cs) ==> r is None && iter_inv(w, n, ko2, bidx2, rem2, k)
}
} // verus!
@end

@fn src/filedb/inner/dbxxx.rs | impl<KT: DbMapKeyType> Iterator for DbXxxIterMut<KT> | next
@serves C04 C15
@requires
old(self).db_map.inv(), old(self).db_map.healthy(), old(self).buckets_size == old(self).db_map.htx_file.0.buckets_size,
exists|w: MapW, k: nat| #[trigger] map_ok(old(self).db_map.mb(), w) && #[trigger] iter_inv(w, old(self).db_map.mb().n, old(self).key_offset.val as nat, old(self).buckets_idx as int, old(self).remaining_item_count as nat, k)
@ensures
final(self).db_map.same_files(&old(self).db_map), final(self).buckets_size == old(self).buckets_size,
forall|w: MapW, k: nat| #[trigger] map_ok(old(self).db_map.mb(), w) && #[trigger] iter_inv(w, old(self).db_map.mb().n, old(self).key_offset.val as nat, old(self).buckets_idx as int, old(self).remaining_item_count as nat, k) ==>
    iter_next_post(w, old(self).db_map.mb().n, k, r, final(self).key_offset.val as nat, final(self).buckets_idx as int, final(self).remaining_item_count as nat)
@entry
let ghost m = old(self).db_map.mb();
let ghost n = m.n;
let ghost ko0 = old(self).key_offset.val as nat;
let ghost bidx0 = old(self).buckets_idx as int;
let ghost rem0 = old(self).remaining_item_count as nat;
let ghost wk: (MapW, nat) = choose|w: MapW, k: nat| #[trigger] map_ok(m, w) && #[trigger] iter_inv(w, n, ko0, bidx0, rem0, k);
let ghost w0 = wk.0;
@after-call next_piece_offset 1
proof {
    if wk.1 < total(w0.cs) {
        let ko2 = self.key_offset.val as nat;
        let i = choose|i: int| 0 <= i < w0.cs[self.buckets_idx as int - 1].len() && #[trigger] w0.cs[self.buckets_idx as int - 1][i] == ko2 && (wk.1 + 1) as nat == upto(w0.cs, self.buckets_idx as int - 1) + i + 1;
        assert(chain_ok(w0.kw, bucket(m.hb, self.buckets_idx as int - 1), w0.cs[self.buckets_idx as int - 1], self.buckets_idx as int - 1, n));
        lemma_chain_member(w0.kw, bucket(m.hb, self.buckets_idx as int - 1), w0.cs[self.buckets_idx as int - 1], self.buckets_idx as int - 1, n, i);
        assert(map_ok(self.db_map.mb(), w0) && is_key(w0.kw, ko2));
    }
}
@before-call load_value 1
proof { assert(map_ok(db_map_inner.mb(), w0) && is_key(w0.kw, self.key_offset.val as nat)); }
@exit
proof {
    let ko2 = self.key_offset.val as nat; let bidx2 = self.buckets_idx as int; let rem2 = self.remaining_item_count as nat;
    assert forall|w: MapW, k: nat| #[trigger] map_ok(m, w) && #[trigger] iter_inv(w, n, ko0, bidx0, rem0, k) implies iter_next_post(w, n, k, r__, ko2, bidx2, rem2) by {
        if k < total(w.cs) {
            let i = choose|i: int| 0 <= i < w.cs[bidx2 - 1].len() && #[trigger] w.cs[bidx2 - 1][i] == ko2 && (k + 1) as nat == upto(w.cs, bidx2 - 1) + i + 1;
            assert(chain_ok(w.kw, bucket(m.hb, bidx2 - 1), w.cs[bidx2 - 1], bidx2 - 1, n));
            lemma_chain_member(w.kw, bucket(m.hb, bidx2 - 1), w.cs[bidx2 - 1], bidx2 - 1, n, i);
            assert(map_ok(m, w) && is_key(w.kw, ko2));
        }
    }
}
@end

@type src/filedb/inner/dbxxx.rs | DbXxxIter
@fn src/filedb/inner/dbxxx.rs | impl<KT: DbMapKeyType> DbXxxIter<KT> | new
@opts mutparam=db_map
@serves C04
@requires
db_map.inv()
@ensures
db_map.healthy() ==> r is Ok,
r is Ok ==> r->Ok_0.iter.db_map.same_files(&db_map) && r->Ok_0.iter.buckets_size == db_map.htx_file.0.buckets_size && r->Ok_0.iter.buckets_idx == 0 && r->Ok_0.iter.key_offset.val == 0,
r is Ok ==> forall|w: MapW| #[trigger] map_ok(db_map.mb(), w) ==> iter_inv(w, db_map.mb().n, 0, 0, r->Ok_0.iter.remaining_item_count as nat, 0)
@end
@fn src/filedb/inner/dbxxx.rs | impl<KT: DbMapKeyType> Iterator for DbXxxIter<KT> | size_hint
@serves C04
@ensures
r.0 == self.iter.remaining_item_count as usize, r.1 == Some(self.iter.remaining_item_count as usize)
@end
@fn src/filedb/inner/dbxxx.rs | impl<KT: DbMapKeyType> Iterator for DbXxxIter<KT> | next
@opts mapopt
@serves C04 C15
@requires
old(self).iter.db_map.inv(), old(self).iter.db_map.healthy(), old(self).iter.buckets_size == old(self).iter.db_map.htx_file.0.buckets_size,
exists|w: MapW, k: nat| #[trigger] map_ok(old(self).iter.db_map.mb(), w) && #[trigger] iter_inv(w, old(self).iter.db_map.mb().n, old(self).iter.key_offset.val as nat, old(self).iter.buckets_idx as int, old(self).iter.remaining_item_count as nat, k)
@ensures
final(self).iter.db_map.same_files(&old(self).iter.db_map), final(self).iter.buckets_size == old(self).iter.buckets_size,
forall|w: MapW, k: nat| #[trigger] map_ok(old(self).iter.db_map.mb(), w) && #[trigger] iter_inv(w, old(self).iter.db_map.mb().n, old(self).iter.key_offset.val as nat, old(self).iter.buckets_idx as int, old(self).iter.remaining_item_count as nat, k) ==>
    iter_inv(w, old(self).iter.db_map.mb().n, final(self).iter.key_offset.val as nat, final(self).iter.buckets_idx as int, final(self).iter.remaining_item_count as nat, if k < total(w.cs) { (k + 1) as nat } else { k })
    && iter_next_post(w, old(self).iter.db_map.mb().n, k, r, final(self).iter.key_offset.val as nat, final(self).iter.buckets_idx as int, final(self).iter.remaining_item_count as nat)
@end

@type src/filedb/inner/dbxxx.rs | DbXxxIntoIter
@fn src/filedb/inner/dbxxx.rs | impl<KT: DbMapKeyType> DbXxxIntoIter<KT> | new
@opts mutparam=db_map
@serves C04
@requires
db_map.inv()
@ensures
db_map.healthy() ==> r is Ok,
r is Ok ==> r->Ok_0.iter.db_map.same_files(&db_map) && r->Ok_0.iter.buckets_size == db_map.htx_file.0.buckets_size && r->Ok_0.iter.buckets_idx == 0 && r->Ok_0.iter.key_offset.val == 0,
r is Ok ==> forall|w: MapW| #[trigger] map_ok(db_map.mb(), w) ==> iter_inv(w, db_map.mb().n, 0, 0, r->Ok_0.iter.remaining_item_count as nat, 0)
@end
@fn src/filedb/inner/dbxxx.rs | impl<KT: DbMapKeyType> Iterator for DbXxxIntoIter<KT> | size_hint
@serves C04
@ensures
r.0 == self.iter.remaining_item_count as usize, r.1 == Some(self.iter.remaining_item_count as usize)
@end
@fn src/filedb/inner/dbxxx.rs | impl<KT: DbMapKeyType> Iterator for DbXxxIntoIter<KT> | next
@opts mapopt
@serves C04 C15
@requires
old(self).iter.db_map.inv(), old(self).iter.db_map.healthy(), old(self).iter.buckets_size == old(self).iter.db_map.htx_file.0.buckets_size,
exists|w: MapW, k: nat| #[trigger] map_ok(old(self).iter.db_map.mb(), w) && #[trigger] iter_inv(w, old(self).iter.db_map.mb().n, old(self).iter.key_offset.val as nat, old(self).iter.buckets_idx as int, old(self).iter.remaining_item_count as nat, k)
@ensures
final(self).iter.db_map.same_files(&old(self).iter.db_map), final(self).iter.buckets_size == old(self).iter.buckets_size,
forall|w: MapW, k: nat| #[trigger] map_ok(old(self).iter.db_map.mb(), w) && #[trigger] iter_inv(w, old(self).iter.db_map.mb().n, old(self).iter.key_offset.val as nat, old(self).iter.buckets_idx as int, old(self).iter.remaining_item_count as nat, k) ==>
    iter_inv(w, old(self).iter.db_map.mb().n, final(self).iter.key_offset.val as nat, final(self).iter.buckets_idx as int, final(self).iter.remaining_item_count as nat, if k < total(w.cs) { (k + 1) as nat } else { k })
    && iter_next_post(w, old(self).iter.db_map.mb().n, k, r, final(self).iter.key_offset.val as nat, final(self).iter.buckets_idx as int, final(self).iter.remaining_item_count as nat)
@end

@type src/filedb/inner/dbxxx.rs | DbXxxKeys
@fn src/filedb/inner/dbxxx.rs | impl<KT: DbMapKeyType> DbXxxKeys<KT> | new
@opts mutparam=db_map
@serves C04
@requires
db_map.inv()
@ensures
db_map.healthy() ==> r is Ok,
r is Ok ==> r->Ok_0.iter.db_map.same_files(&db_map) && r->Ok_0.iter.buckets_size == db_map.htx_file.0.buckets_size && r->Ok_0.iter.buckets_idx == 0 && r->Ok_0.iter.key_offset.val == 0,
r is Ok ==> forall|w: MapW| #[trigger] map_ok(db_map.mb(), w) ==> iter_inv(w, db_map.mb().n, 0, 0, r->Ok_0.iter.remaining_item_count as nat, 0)
@end
@fn src/filedb/inner/dbxxx.rs | impl<KT: DbMapKeyType> Iterator for DbXxxKeys<KT> | size_hint
@serves C04
@ensures
r.0 == self.iter.remaining_item_count as usize, r.1 == Some(self.iter.remaining_item_count as usize)
@end
@fn src/filedb/inner/dbxxx.rs | impl<KT: DbMapKeyType> Iterator for DbXxxKeys<KT> | next
@opts mapopt
@serves C04 C15
@requires
old(self).iter.db_map.inv(), old(self).iter.db_map.healthy(), old(self).iter.buckets_size == old(self).iter.db_map.htx_file.0.buckets_size,
exists|w: MapW, k: nat| #[trigger] map_ok(old(self).iter.db_map.mb(), w) && #[trigger] iter_inv(w, old(self).iter.db_map.mb().n, old(self).iter.key_offset.val as nat, old(self).iter.buckets_idx as int, old(self).iter.remaining_item_count as nat, k)
@ensures
final(self).iter.db_map.same_files(&old(self).iter.db_map), final(self).iter.buckets_size == old(self).iter.buckets_size,
forall|w: MapW, k: nat| #[trigger] map_ok(old(self).iter.db_map.mb(), w) && #[trigger] iter_inv(w, old(self).iter.db_map.mb().n, old(self).iter.key_offset.val as nat, old(self).iter.buckets_idx as int, old(self).iter.remaining_item_count as nat, k) ==>
    iter_inv(w, old(self).iter.db_map.mb().n, final(self).iter.key_offset.val as nat, final(self).iter.buckets_idx as int, final(self).iter.remaining_item_count as nat, if k < total(w.cs) { (k + 1) as nat } else { k })
    && ({
        &&& k < total(w.cs) ==> r is Some && is_key(w.kw, final(self).iter.key_offset.val as nat) && r->Some_0.bytes() == kkey(w.kw, final(self).iter.key_offset.val as nat)
        &&& k == total(w.cs) ==> r is None
    })
@end

@type src/filedb/inner/dbxxx.rs | DbXxxValues
@fn src/filedb/inner/dbxxx.rs | impl<KT: DbMapKeyType> DbXxxValues<KT> | new
@opts mutparam=db_map
@serves C04
@requires
db_map.inv()
@ensures
db_map.healthy() ==> r is Ok,
r is Ok ==> r->Ok_0.iter.db_map.same_files(&db_map) && r->Ok_0.iter.buckets_size == db_map.htx_file.0.buckets_size && r->Ok_0.iter.buckets_idx == 0 && r->Ok_0.iter.key_offset.val == 0,
r is Ok ==> forall|w: MapW| #[trigger] map_ok(db_map.mb(), w) ==> iter_inv(w, db_map.mb().n, 0, 0, r->Ok_0.iter.remaining_item_count as nat, 0)
@end
@fn src/filedb/inner/dbxxx.rs | impl<KT: DbMapKeyType> Iterator for DbXxxValues<KT> | size_hint
@serves C04
@ensures
r.0 == self.iter.remaining_item_count as usize, r.1 == Some(self.iter.remaining_item_count as usize)
@end
@fn src/filedb/inner/dbxxx.rs | impl<KT: DbMapKeyType> Iterator for DbXxxValues<KT> | next
@opts mapopt
@serves C04 C15
@requires
old(self).iter.db_map.inv(), old(self).iter.db_map.healthy(), old(self).iter.buckets_size == old(self).iter.db_map.htx_file.0.buckets_size,
exists|w: MapW, k: nat| #[trigger] map_ok(old(self).iter.db_map.mb(), w) && #[trigger] iter_inv(w, old(self).iter.db_map.mb().n, old(self).iter.key_offset.val as nat, old(self).iter.buckets_idx as int, old(self).iter.remaining_item_count as nat, k)
@ensures
final(self).iter.db_map.same_files(&old(self).iter.db_map), final(self).iter.buckets_size == old(self).iter.buckets_size,
forall|w: MapW, k: nat| #[trigger] map_ok(old(self).iter.db_map.mb(), w) && #[trigger] iter_inv(w, old(self).iter.db_map.mb().n, old(self).iter.key_offset.val as nat, old(self).iter.buckets_idx as int, old(self).iter.remaining_item_count as nat, k) ==>
    iter_inv(w, old(self).iter.db_map.mb().n, final(self).iter.key_offset.val as nat, final(self).iter.buckets_idx as int, final(self).iter.remaining_item_count as nat, if k < total(w.cs) { (k + 1) as nat } else { k })
    && ({
        &&& k < total(w.cs) ==> r is Some && is_key(w.kw, final(self).iter.key_offset.val as nat) && r->Some_0@ == vval(w.vw, kvoff(w.kw, final(self).iter.key_offset.val as nat))
        &&& k == total(w.cs) ==> r is None
    })
@end
@endmod
