# key.rs — unit U5: key records.
@raw
verus! {
/// R12: the crate's key-type trait with its real method set; supertraits (Ord, Clone, Default, Debug, Hash) are
/// dropped from the bound, `clone` and `hash_value` (supertrait / HashValue provided method) are listed here instead.
/// The per-type obligations behind these contracts are discharged on the five real key types by Kani (kani_keys.rs).
pub trait DbMapKeyType: Sized {
    /// the bytes stored for this key
    spec fn bytes(&self) -> Seq<u8>;
    fn from_bytes(bytes: &[u8]) -> (r: Self)
        ensures r.bytes() == bytes@;
    fn signature() -> (r: [u8; 8])
        ensures r@ == Self::sig_spec();
    spec fn sig_spec() -> Seq<u8>;
    fn as_bytes(&self) -> (r: &[u8])
        ensures r@ == self.bytes();
    /// kani: u8_*_cmp_u8_iff_equal — Equal exactly when the stored bytes are this key's bytes
    fn cmp_u8(&self, other: &[u8]) -> (r: Ordering)
        ensures (r == Ordering::Equal) <==> (self.bytes() == other@);
    /// kani: u9_hash_value_* — the placement hash is a function of the key bytes only
    fn hash_value(&self) -> (r: u64)
        ensures r == key_hash(self.bytes());
    fn clone(&self) -> (r: Self)
        ensures r.bytes() == self.bytes();
}
/// the placement hash (lib.rs:331-395) as a function of the key bytes; anchored to the release by Kani U9
pub uninterp spec fn key_hash(key: Seq<u8>) -> u64;
} // verus!
@end

@mod key
@type src/filedb/inner/key.rs | HeaderSignature
@type src/filedb/inner/key.rs | CHUNK_SIZE
@type src/filedb/inner/key.rs | DAT_HEADER_SZ
@type src/filedb/inner/key.rs | DAT_HEADER_SIGNATURE
@type src/filedb/inner/key.rs | REC_SIZE_FREE_OFFSET_1ST
@type src/filedb/inner/key.rs | REC_SIZE_FREE_OFFSET
@type src/filedb/inner/key.rs | REC_SIZE_ARY
@type src/filedb/inner/key.rs | VarFileKeyCache
@type src/filedb/inner/key.rs | KeyFile
@type src/filedb/inner/key.rs | KeyPiece

@raw
verus! {
pub open spec fn sig_k() -> Seq<u8> { seq![97u8, 98, 121, 115, 100, 98, 75, 0] }
/// documented key-file header (key.rs:178-204): signature1, type signature, 176 zero bytes
pub open spec fn hdr_key(sig2: Seq<u8>) -> Seq<u8> { sig_k() + sig2 + zeros(176) }
} // verus!
@end

@fn src/filedb/inner/key.rs | - | write_keyrecf_init_header
@serves C12 C18
@requires
old(file)@.bytes.len() == 0
@ensures
okh(old(file)@, final(file)@, r), final(file).piece_mgr == old(file).piece_mgr,
r is Ok ==> final(file)@.bytes == hdr_key(signature2@),
r is Ok ==> final(file)@.unflushed && final(file)@.unsynced
@exit
proof {
    if r__ is Ok {
        reveal_with_fuel(le_bytes, 9);
        assert(le_bytes(0, 8) =~= zeros(8));
        assert(DAT_HEADER_SIGNATURE@ =~= sig_k());
        assert(final(file)@.bytes =~= hdr_key(signature2@));
    }
}
@end

@fn src/filedb/inner/key.rs | - | check_keyrecf_header
@opts refusal
@serves C13
@requires
old(file)@.bytes.len() >= 24
@ensures
okh(old(file)@, final(file)@, r), same_but_pos(old(file)@, final(file)@), final(file).piece_mgr == old(file).piece_mgr,
r is Ok ==> rd(old(file)@.bytes, 0, 8) == sig_k() && rd(old(file)@.bytes, 8, 8) == signature2@
@end

@fn src/filedb/inner/key.rs | impl<KT: DbMapKeyType> KeyPiece<KT> | encoded_piece_size
@serves C09
@requires
self.key.bytes().len() <= 0x1_0000
@ensures
r.2.val == self.key.bytes().len(),
r.1 == enc_len(self.key.bytes().len()) + self.key.bytes().len() + enc_len(self.value_offset.val as nat) + enc_len(self.bucket_next_offset.val as nat),
r.0 == enc_len(((r.1 + 7) / 8) as nat)
@end

@fn src/filedb/inner/key.rs | impl<KT: DbMapKeyType> KeyPiece<KT> | dat_write_piece_one
@opts rlimit=100
@serves C09 C05 C18
@requires
self.size.val % 8 == 0,
self.key.bytes().len() <= 0x1_0000,
self.value_offset.val % 8 == 0, self.bucket_next_offset.val % 8 == 0,
self.offset.val <= old(file)@.bytes.len(),
self.offset.val + self.size.val <= 0x7fff_ffff_ffff_ffff,
key_head(self.size.val as nat, self.key.bytes(), self.value_offset.val as nat, self.bucket_next_offset.val as nat).len() <= self.size.val
@ensures
okh(old(file)@, final(file)@, r), final(file).piece_mgr == old(file).piece_mgr,
r is Ok ==> key_used_at(final(file)@.bytes, self.offset.val as int, self.size.val as nat, self.key.bytes(), self.value_offset.val as nat, self.bucket_next_offset.val as nat),
r is Ok ==> frame_outside(old(file)@.bytes, final(file)@.bytes, self.offset.val as int, self.size.val as int),
r is Ok ==> final(file)@.unflushed && final(file)@.unsynced
@entry
let ghost b0 = old(file)@.bytes;
let ghost o = self.offset.val as int;
let ghost mut acc: Seq<u8> = Seq::empty();
let ghost mut bp = b0;
let ghost e1 = vu64_enc((self.size.val / 8) as nat);
let ghost e2 = vu64_enc(self.key.bytes().len());
let ghost e4 = vu64_enc((self.value_offset.val / 8) as nat);
let ghost e5 = vu64_enc((self.bucket_next_offset.val / 8) as nat);
proof {
    axiom_vu64((self.size.val / 8) as nat); axiom_vu64(self.key.bytes().len());
    axiom_vu64((self.value_offset.val / 8) as nat); axiom_vu64((self.bucket_next_offset.val / 8) as nat);
    assert(rd(b0, o, 0) =~= acc);
}
@after-call write_piece_size 1
proof { lemma_rec_write(b0, bp, o, acc, e1); acc = acc + e1; bp = file@.bytes; }
@after-call write_key_len 1
proof { lemma_rec_write(b0, bp, o, acc, e2); acc = acc + e2; bp = file@.bytes; }
@after-call write_all_small|write_all 1
proof { lemma_rec_write(b0, bp, o, acc, self.key.bytes()); acc = acc + self.key.bytes(); bp = file@.bytes; }
@after-call write_piece_offset 1
proof { lemma_rec_write(b0, bp, o, acc, e4); acc = acc + e4; bp = file@.bytes; }
@after-call write_piece_offset 2
proof { lemma_rec_write(b0, bp, o, acc, e5); acc = acc + e5; bp = file@.bytes;
        assert(acc =~= key_head(self.size.val as nat, self.key.bytes(), self.value_offset.val as nat, self.bucket_next_offset.val as nat)); }
@after-call write_zero_to_offset 1
proof {
    let z = zeros((self.size.val - acc.len()) as nat);
    if self.size.val > acc.len() { lemma_rec_write(b0, bp, o, acc, z); }
    assert(rd(file@.bytes, o, self.size.val as int) =~= acc + z);
}
@end
@endmod
