# key.rs — unit U5: key records.
@raw
verus! {
/// R12: the crate's key-type trait with its real method set; supertraits (Ord, Clone, Default, Debug, Hash) are
/// dropped from the bound, `clone` and `hash_value` (supertrait / HashValue provided method) are listed here instead.
/// The per-type obligations behind these contracts are discharged on the five real key types by Kani (kani_keys.rs).
pub trait DbMapKeyType: Sized + Default {
    /// the bytes stored for this key
    spec fn bytes(&self) -> Seq<u8>;
    fn from_bytes(bytes: &[u8]) -> (r: Self)
        ensures r.bytes() == bytes@;
    fn signature() -> (r: [u8; 8])
        ensures r@ == Self::sig_spec();
    spec fn sig_spec() -> Seq<u8>;
    fn as_bytes(&self) -> (r: &[u8])
        ensures r@ == self.bytes();
    /// kani: u8_*_cmp_u8_iff_equal — Equal exactly when the stored bytes are this key's bytes
    fn cmp_u8(&self, other: &[u8]) -> (r: Ordering)
        ensures (r == Ordering::Equal) <==> (self.bytes() == other@);
    /// kani: u9_hash_value_* — the placement hash is a function of the key bytes only
    fn hash_value(&self) -> (r: u64)
        ensures r == key_hash(self.bytes());
    fn clone(&self) -> (r: Self)
        ensures r.bytes() == self.bytes();
}
/// the placement hash (lib.rs:331-395) as a function of the key bytes; anchored to the release by Kani U9
pub uninterp spec fn key_hash(key: Seq<u8>) -> u64;
} // verus!
@end

@mod key
@type src/filedb/inner/key.rs | HeaderSignature
@type src/filedb/inner/key.rs | CHUNK_SIZE
@type src/filedb/inner/key.rs | DAT_HEADER_SZ
@type src/filedb/inner/key.rs | DAT_HEADER_SIGNATURE
@type src/filedb/inner/key.rs | REC_SIZE_FREE_OFFSET_1ST
@type src/filedb/inner/key.rs | REC_SIZE_FREE_OFFSET
@type src/filedb/inner/key.rs | REC_SIZE_ARY
@type src/filedb/inner/key.rs | VarFileKeyCache
@type src/filedb/inner/key.rs | KeyFile
@type src/filedb/inner/key.rs | KeyPiece

@raw root
verus! {
pub open spec fn sig_k() -> Seq<u8> { seq![97u8, 98, 121, 115, 100, 98, 75, 0] }
/// documented key-file header (key.rs:178-204): signature1, type signature, 176 zero bytes
pub open spec fn hdr_key(sig2: Seq<u8>) -> Seq<u8> { sig_k() + sig2 + zeros(176) }
} // verus!
@end

@fn src/filedb/inner/key.rs | - | write_keyrecf_init_header
@serves C12 C18
@requires
old(file)@.bytes.len() == 0
@ensures
okh(old(file)@, final(file)@, r), final(file).piece_mgr == old(file).piece_mgr,
r is Ok ==> final(file)@.bytes == hdr_key(signature2@),
r is Ok ==> final(file)@.unflushed && final(file)@.unsynced
@exit
proof {
    if r__ is Ok {
        reveal_with_fuel(le_bytes, 9);
        assert(le_bytes(0, 8) =~= zeros(8));
        assert(DAT_HEADER_SIGNATURE@ =~= sig_k());
        assert(final(file)@.bytes =~= hdr_key(signature2@));
    }
}
@end

@fn src/filedb/inner/key.rs | - | check_keyrecf_header
@opts refusal
@refusal-implies !(rd(old(file)@.bytes, 0, 8) == sig_k() && rd(old(file)@.bytes, 8, 8) == signature2@ && le64_at(old(file)@.bytes, 16) == 0)
@serves C13 C02
@requires
old(file)@.bytes.len() >= 24
@ensures
okh(old(file)@, final(file)@, r), same_but_pos(old(file)@, final(file)@), final(file).piece_mgr == old(file).piece_mgr,
r is Ok ==> rd(old(file)@.bytes, 0, 8) == sig_k() && rd(old(file)@.bytes, 8, 8) == signature2@
@end

@fn src/filedb/inner/key.rs | impl<KT: DbMapKeyType> KeyPiece<KT> | encoded_piece_size
@serves C09
@requires
self.key.bytes().len() <= 0x1_0000
@ensures
r.2.val == self.key.bytes().len(),
r.1 == enc_len(self.key.bytes().len()) + self.key.bytes().len() + enc_len(self.value_offset.val as nat) + enc_len(self.bucket_next_offset.val as nat),
r.0 == enc_len(((r.1 + 7) / 8) as nat)
@end

@fn src/filedb/inner/key.rs | impl<KT: DbMapKeyType> KeyPiece<KT> | dat_write_piece_one
@opts rlimit=100
@serves C09 C05 C18
@requires
self.size.val % 8 == 0,
self.key.bytes().len() <= 0x1_0000,
self.value_offset.val % 8 == 0, self.bucket_next_offset.val % 8 == 0,
self.offset.val <= old(file)@.bytes.len(),
self.offset.val + self.size.val <= 0x7fff_ffff_ffff_ffff,
key_head(self.size.val as nat, self.key.bytes(), self.value_offset.val as nat, self.bucket_next_offset.val as nat).len() <= self.size.val
@ensures
okh(old(file)@, final(file)@, r), final(file).piece_mgr == old(file).piece_mgr,
r is Ok ==> key_used_at(final(file)@.bytes, self.offset.val as int, self.size.val as nat, self.key.bytes(), self.value_offset.val as nat, self.bucket_next_offset.val as nat),
r is Ok ==> frame_outside(old(file)@.bytes, final(file)@.bytes, self.offset.val as int, self.size.val as int),
r is Ok ==> final(file)@.unflushed && final(file)@.unsynced
@entry
let ghost b0 = old(file)@.bytes;
let ghost o = self.offset.val as int;
let ghost mut acc: Seq<u8> = Seq::empty();
let ghost mut bp = b0;
let ghost e1 = vu64_enc((self.size.val / 8) as nat);
let ghost e2 = vu64_enc(self.key.bytes().len());
let ghost e4 = vu64_enc((self.value_offset.val / 8) as nat);
let ghost e5 = vu64_enc((self.bucket_next_offset.val / 8) as nat);
proof {
    axiom_vu64((self.size.val / 8) as nat); axiom_vu64(self.key.bytes().len());
    axiom_vu64((self.value_offset.val / 8) as nat); axiom_vu64((self.bucket_next_offset.val / 8) as nat);
    assert(rd(b0, o, 0) =~= acc);
}
@after-call write_piece_size 1
proof { lemma_rec_write(b0, bp, o, acc, e1); acc = acc + e1; bp = file@.bytes; }
@after-call write_key_len 1
proof { lemma_rec_write(b0, bp, o, acc, e2); acc = acc + e2; bp = file@.bytes; }
@after-call write_all_small|write_all 1
proof { lemma_rec_write(b0, bp, o, acc, self.key.bytes()); acc = acc + self.key.bytes(); bp = file@.bytes; }
@after-call write_piece_offset 1
proof { lemma_rec_write(b0, bp, o, acc, e4); acc = acc + e4; bp = file@.bytes; }
@after-call write_piece_offset 2
proof { lemma_rec_write(b0, bp, o, acc, e5); acc = acc + e5; bp = file@.bytes;
        assert(acc =~= key_head(self.size.val as nat, self.key.bytes(), self.value_offset.val as nat, self.bucket_next_offset.val as nat)); }
@after-call write_zero_to_offset 1
proof {
    let z = zeros((self.size.val - acc.len()) as nat);
    if self.size.val > acc.len() { lemma_rec_write(b0, bp, o, acc, z); }
    assert(rd(file@.bytes, o, self.size.val as int) =~= acc + z);
}
@end

@raw root
verus! {
/// slot size write_piece asks for when storing a key record (the estimate uses the un-scaled offsets)
pub open spec fn key_need(key: Seq<u8>, voff: nat, next: nat) -> nat {
    let p = enc_len(key.len()) + key.len() + enc_len(voff) + enc_len(next);
    roundup_spec(enc_len(((p + 7) / 8) as nat) + p)
}
pub open spec fn key_pre(b: Seq<u8>, pm: PieceMgr, w: HeapW, is_new: bool, off: nat) -> bool {
    heap_ok(b, pm, w) && (!is_new ==> w.slots.dom().contains(off) && w.slots[off].c is Key)
}
pub open spec fn key_at(b: Seq<u8>, pm: PieceMgr, w: HeapW, off: nat) -> bool {
    heap_ok(b, pm, w) && w.slots.dom().contains(off) && w.slots[off].c is Key
}
/// the written offset fields are never wider than the estimate's (offset/8 <= offset)
pub proof fn lemma_key_fits(klen: nat, voff: nat, next: nat, size: nat)
    requires klen <= 0x1_0000, voff <= u64::MAX, next <= u64::MAX, size % 8 == 0, size <= u32::MAX,
        size >= roundup_spec(enc_len(((enc_len(klen) + klen + enc_len(voff) + enc_len(next) + 7) / 8) as nat) + enc_len(klen) + klen + enc_len(voff) + enc_len(next)),
    ensures enc_len(size / 8) + enc_len(klen) + klen + enc_len(voff / 8) + enc_len(next / 8) <= size
{
    let p = enc_len(klen) + klen + enc_len(voff) + enc_len(next);
    lemma_fits(p, size);
    assert(enc_len(voff / 8) <= enc_len(voff));
    assert(enc_len(next / 8) <= enc_len(next));
}
} // verus!
@end

@fn src/filedb/inner/key.rs | impl KeyPieceSize | is_valid_key
@opts assumed proved_by=kani:u3_is_valid_key
@requires
is_slot_size(self.val as nat)
@ensures
r
@end

@fn src/filedb/inner/key.rs | impl<KT: DbMapKeyType> KeyPiece<KT> | with
@ensures
r.offset == offset, r.size == size, r.key == key, r.value_offset == value_offset, r.bucket_next_offset == bucket_next_offset
@end

@fn src/filedb/inner/vfile.rs | impl VarFile | seek_skip_to_piece_key
@requires
rec_size_ok(old(self)@.bytes, offset.val as int), offset.val <= old(self)@.bytes.len()
@ensures
okh(old(self)@, final(self)@, r), same_but_pos(old(self)@, final(self)@), final(self).piece_mgr == old(self).piece_mgr,
r is Ok ==> final(self)@.pos == rec_len_pos(old(self)@.bytes, offset.val as int) && r->Ok_0.val == final(self)@.pos
@entry
proof { axiom_vu64_dlen(old(self)@.bytes[offset.val as int]); }
@end

@fn src/filedb/inner/key.rs | impl<KT: DbMapKeyType> VarFileKeyCache<KT> | read_piece
@serves C01 C15
@requires
offset.val != 0, exists|w: HeapW| #[trigger] key_at(old(self).0@.bytes, old(self).0.piece_mgr, w, offset.val as nat)
@ensures
okh(old(self).0@, final(self).0@, r), same_but_pos(old(self).0@, final(self).0@), final(self).0.piece_mgr == old(self).0.piece_mgr,
r is Ok ==> forall|w: HeapW| #[trigger] key_at(old(self).0@.bytes, old(self).0.piece_mgr, w, offset.val as nat) ==> (r->Ok_0.offset == offset && r->Ok_0.size.val == w.slots[offset.val as nat].size && SlotC::Key(r->Ok_0.key.bytes(), r->Ok_0.value_offset.val as nat, r->Ok_0.bucket_next_offset.val as nat) == w.slots[offset.val as nat].c)
@entry
let ghost b0 = old(self).0@.bytes;
let ghost pm = old(self).0.piece_mgr;
let ghost o = offset.val as nat;
let ghost w0: HeapW = choose|w: HeapW| #[trigger] key_at(b0, pm, w, o);
proof {
    assert(slot_ok(b0, o, w0.slots[o]));
    lemma_slot_bounds(b0, o, w0.slots[o]); lemma_slot_elim(b0, o, w0.slots[o]);
    lemma_key_used_decodes(b0, o as int, w0.slots[o].size, w0.slots[o].c->Key_0, w0.slots[o].c->Key_1, w0.slots[o].c->Key_2);
}
@exit
proof {
    if r__ is Ok {
        assert forall|w: HeapW| #[trigger] key_at(b0, pm, w, o) implies (r__->Ok_0.offset == offset && r__->Ok_0.size.val == w.slots[offset.val as nat].size && SlotC::Key(r__->Ok_0.key.bytes(), r__->Ok_0.value_offset.val as nat, r__->Ok_0.bucket_next_offset.val as nat) == w.slots[offset.val as nat].c) by {
            assert(slot_ok(b0, o, w.slots[o]));
            lemma_slot_elim(b0, o, w.slots[o]);
            lemma_key_used_decodes(b0, o as int, w.slots[o].size, w.slots[o].c->Key_0, w.slots[o].c->Key_1, w.slots[o].c->Key_2);
        }
    }
}
@end

@fn src/filedb/inner/key.rs | impl<KT: DbMapKeyType> VarFileKeyCache<KT> | read_piece_only_key_length
@serves C17
@requires
offset.val != 0, exists|w: HeapW| #[trigger] key_at(old(self).0@.bytes, old(self).0.piece_mgr, w, offset.val as nat)
@ensures
okh(old(self).0@, final(self).0@, r), same_but_pos(old(self).0@, final(self).0@), final(self).0.piece_mgr == old(self).0.piece_mgr,
r is Ok ==> forall|w: HeapW| #[trigger] key_at(old(self).0@.bytes, old(self).0.piece_mgr, w, offset.val as nat) ==> r->Ok_0.val == w.slots[offset.val as nat].c->Key_0.len()
@entry
let ghost b0 = old(self).0@.bytes;
let ghost pm = old(self).0.piece_mgr;
let ghost o = offset.val as nat;
let ghost w0: HeapW = choose|w: HeapW| #[trigger] key_at(b0, pm, w, o);
proof {
    assert(slot_ok(b0, o, w0.slots[o]));
    lemma_slot_bounds(b0, o, w0.slots[o]); lemma_slot_elim(b0, o, w0.slots[o]);
    lemma_key_used_decodes(b0, o as int, w0.slots[o].size, w0.slots[o].c->Key_0, w0.slots[o].c->Key_1, w0.slots[o].c->Key_2);
}
@exit
proof {
    if r__ is Ok {
        assert forall|w: HeapW| #[trigger] key_at(b0, pm, w, o) implies r__->Ok_0.val == w.slots[offset.val as nat].c->Key_0.len() by {
            assert(slot_ok(b0, o, w.slots[o]));
            lemma_slot_elim(b0, o, w.slots[o]);
            lemma_key_used_decodes(b0, o as int, w.slots[o].size, w.slots[o].c->Key_0, w.slots[o].c->Key_1, w.slots[o].c->Key_2);
        }
    }
}
@end

@fn src/filedb/inner/key.rs | impl<KT: DbMapKeyType> VarFileKeyCache<KT> | read_piece_only_key_maybeslice
@serves C01 C15
@requires
offset.val != 0, exists|w: HeapW| #[trigger] key_at(old(self).0@.bytes, old(self).0.piece_mgr, w, offset.val as nat)
@ensures
okh(old(self).0@, final(self).0@, r), same_but_pos(old(self).0@, final(self).0@), final(self).0.piece_mgr == old(self).0.piece_mgr,
r is Ok ==> forall|w: HeapW| #[trigger] key_at(old(self).0@.bytes, old(self).0.piece_mgr, w, offset.val as nat) ==> r->Ok_0@ == w.slots[offset.val as nat].c->Key_0
@entry
let ghost b0 = old(self).0@.bytes;
let ghost pm = old(self).0.piece_mgr;
let ghost o = offset.val as nat;
let ghost w0: HeapW = choose|w: HeapW| #[trigger] key_at(b0, pm, w, o);
proof {
    assert(slot_ok(b0, o, w0.slots[o]));
    lemma_slot_bounds(b0, o, w0.slots[o]); lemma_slot_elim(b0, o, w0.slots[o]);
    lemma_key_used_decodes(b0, o as int, w0.slots[o].size, w0.slots[o].c->Key_0, w0.slots[o].c->Key_1, w0.slots[o].c->Key_2);
}
@exit
proof {
    if r__ is Ok {
        assert forall|w: HeapW| #[trigger] key_at(b0, pm, w, o) implies r__->Ok_0@ == w.slots[offset.val as nat].c->Key_0 by {
            assert(slot_ok(b0, o, w.slots[o]));
            lemma_slot_elim(b0, o, w.slots[o]);
            lemma_key_used_decodes(b0, o as int, w.slots[o].size, w.slots[o].c->Key_0, w.slots[o].c->Key_1, w.slots[o].c->Key_2);
        }
    }
}
@end

@fn src/filedb/inner/key.rs | impl<KT: DbMapKeyType> VarFileKeyCache<KT> | read_piece_only_key
@serves C01 C15
@requires
offset.val != 0, exists|w: HeapW| #[trigger] key_at(old(self).0@.bytes, old(self).0.piece_mgr, w, offset.val as nat)
@ensures
okh(old(self).0@, final(self).0@, r), same_but_pos(old(self).0@, final(self).0@), final(self).0.piece_mgr == old(self).0.piece_mgr,
r is Ok ==> forall|w: HeapW| #[trigger] key_at(old(self).0@.bytes, old(self).0.piece_mgr, w, offset.val as nat) ==> r->Ok_0.bytes() == w.slots[offset.val as nat].c->Key_0
@entry
let ghost b0 = old(self).0@.bytes;
let ghost pm = old(self).0.piece_mgr;
let ghost o = offset.val as nat;
let ghost w0: HeapW = choose|w: HeapW| #[trigger] key_at(b0, pm, w, o);
proof {
    assert(slot_ok(b0, o, w0.slots[o]));
    lemma_slot_bounds(b0, o, w0.slots[o]); lemma_slot_elim(b0, o, w0.slots[o]);
    lemma_key_used_decodes(b0, o as int, w0.slots[o].size, w0.slots[o].c->Key_0, w0.slots[o].c->Key_1, w0.slots[o].c->Key_2);
}
@exit
proof {
    if r__ is Ok {
        assert forall|w: HeapW| #[trigger] key_at(b0, pm, w, o) implies r__->Ok_0.bytes() == w.slots[offset.val as nat].c->Key_0 by {
            assert(slot_ok(b0, o, w.slots[o]));
            lemma_slot_elim(b0, o, w.slots[o]);
            lemma_key_used_decodes(b0, o as int, w.slots[o].size, w.slots[o].c->Key_0, w.slots[o].c->Key_1, w.slots[o].c->Key_2);
        }
    }
}
@end

@fn src/filedb/inner/key.rs | impl<KT: DbMapKeyType> VarFileKeyCache<KT> | read_piece_only_value_offset
@serves C01 C15
@requires
offset.val != 0, exists|w: HeapW| #[trigger] key_at(old(self).0@.bytes, old(self).0.piece_mgr, w, offset.val as nat)
@ensures
okh(old(self).0@, final(self).0@, r), same_but_pos(old(self).0@, final(self).0@), final(self).0.piece_mgr == old(self).0.piece_mgr,
r is Ok ==> forall|w: HeapW| #[trigger] key_at(old(self).0@.bytes, old(self).0.piece_mgr, w, offset.val as nat) ==> r->Ok_0.val == w.slots[offset.val as nat].c->Key_1
@entry
let ghost b0 = old(self).0@.bytes;
let ghost pm = old(self).0.piece_mgr;
let ghost o = offset.val as nat;
let ghost w0: HeapW = choose|w: HeapW| #[trigger] key_at(b0, pm, w, o);
proof {
    assert(slot_ok(b0, o, w0.slots[o]));
    lemma_slot_bounds(b0, o, w0.slots[o]); lemma_slot_elim(b0, o, w0.slots[o]);
    lemma_key_used_decodes(b0, o as int, w0.slots[o].size, w0.slots[o].c->Key_0, w0.slots[o].c->Key_1, w0.slots[o].c->Key_2);
}
@exit
proof {
    if r__ is Ok {
        assert forall|w: HeapW| #[trigger] key_at(b0, pm, w, o) implies r__->Ok_0.val == w.slots[offset.val as nat].c->Key_1 by {
            assert(slot_ok(b0, o, w.slots[o]));
            lemma_slot_elim(b0, o, w.slots[o]);
            lemma_key_used_decodes(b0, o as int, w.slots[o].size, w.slots[o].c->Key_0, w.slots[o].c->Key_1, w.slots[o].c->Key_2);
        }
    }
}
@end

@fn src/filedb/inner/key.rs | impl<KT: DbMapKeyType> VarFileKeyCache<KT> | read_piece_only_bucket_next_offset
@serves C01 C15
@requires
offset.val != 0, exists|w: HeapW| #[trigger] key_at(old(self).0@.bytes, old(self).0.piece_mgr, w, offset.val as nat)
@ensures
okh(old(self).0@, final(self).0@, r), same_but_pos(old(self).0@, final(self).0@), final(self).0.piece_mgr == old(self).0.piece_mgr,
r is Ok ==> forall|w: HeapW| #[trigger] key_at(old(self).0@.bytes, old(self).0.piece_mgr, w, offset.val as nat) ==> r->Ok_0.val == w.slots[offset.val as nat].c->Key_2
@entry
let ghost b0 = old(self).0@.bytes;
let ghost pm = old(self).0.piece_mgr;
let ghost o = offset.val as nat;
let ghost w0: HeapW = choose|w: HeapW| #[trigger] key_at(b0, pm, w, o);
proof {
    assert(slot_ok(b0, o, w0.slots[o]));
    lemma_slot_bounds(b0, o, w0.slots[o]); lemma_slot_elim(b0, o, w0.slots[o]);
    lemma_key_used_decodes(b0, o as int, w0.slots[o].size, w0.slots[o].c->Key_0, w0.slots[o].c->Key_1, w0.slots[o].c->Key_2);
}
@exit
proof {
    if r__ is Ok {
        assert forall|w: HeapW| #[trigger] key_at(b0, pm, w, o) implies r__->Ok_0.val == w.slots[offset.val as nat].c->Key_2 by {
            assert(slot_ok(b0, o, w.slots[o]));
            lemma_slot_elim(b0, o, w.slots[o]);
            lemma_key_used_decodes(b0, o as int, w.slots[o].size, w.slots[o].c->Key_0, w.slots[o].c->Key_1, w.slots[o].c->Key_2);
        }
    }
}
@end

@fn src/filedb/inner/key.rs | impl<KT: DbMapKeyType> VarFileKeyCache<KT> | read_piece_only_size
@serves C17
@requires
offset.val != 0, exists|w: HeapW| #[trigger] heap_ok(old(self).0@.bytes, old(self).0.piece_mgr, w) && w.slots.dom().contains(offset.val as nat)
@ensures
okh(old(self).0@, final(self).0@, r), same_but_pos(old(self).0@, final(self).0@), final(self).0.piece_mgr == old(self).0.piece_mgr,
r is Ok ==> forall|w: HeapW| #[trigger] heap_ok(old(self).0@.bytes, old(self).0.piece_mgr, w) && w.slots.dom().contains(offset.val as nat) ==> r->Ok_0.val == w.slots[offset.val as nat].size
@entry
let ghost b0 = old(self).0@.bytes;
let ghost pm = old(self).0.piece_mgr;
let ghost o = offset.val as nat;
let ghost w0: HeapW = choose|w: HeapW| #[trigger] heap_ok(b0, pm, w) && w.slots.dom().contains(o);
proof {
    assert(slot_ok(b0, o, w0.slots[o]));
    lemma_slot_bounds(b0, o, w0.slots[o]); lemma_slot_size_decodes(b0, o, w0.slots[o]);
}
@exit
proof {
    if r__ is Ok {
        assert forall|w: HeapW| #[trigger] heap_ok(b0, pm, w) && w.slots.dom().contains(o) implies r__->Ok_0.val == w.slots[o].size by {
            assert(slot_ok(b0, o, w.slots[o]));
            lemma_slot_size_decodes(b0, o, w.slots[o]);
        }
    }
}
@end

@fn src/filedb/inner/key.rs | impl<KT: DbMapKeyType> VarFileKeyCache<KT> | delete_piece
@serves C06
@requires
exists|w: HeapW| #[trigger] key_at(old(self).0@.bytes, old(self).0.piece_mgr, w, offset.val as nat)
@ensures
okh(old(self).0@, final(self).0@, r), final(self).0.piece_mgr == old(self).0.piece_mgr,
r is Ok ==> forall|w: HeapW| #[trigger] key_at(old(self).0@.bytes, old(self).0.piece_mgr, w, offset.val as nat) ==>
    heap_ok(final(self).0@.bytes, old(self).0.piece_mgr, w_push(w, offset.val as nat)) && r->Ok_0.val == w.slots[offset.val as nat].size,
r is Ok ==> final(self).0@.unflushed && final(self).0@.unsynced
@entry
let ghost b0 = old(self).0@.bytes;
let ghost pm = old(self).0.piece_mgr;
let ghost o = offset.val as nat;
let ghost w0: HeapW = choose|w: HeapW| #[trigger] key_at(b0, pm, w, o);
proof {
    assert(slot_ok(b0, o, w0.slots[o]));
    lemma_slot_bounds(b0, o, w0.slots[o]); lemma_slot_size_decodes(b0, o, w0.slots[o]);
}
@before-call push_free_piece_list 1
proof { assert(can_push(self.0@.bytes, pm, w0, o, old_piece_size.val as nat)); }
@exit
proof {
    if r__ is Ok {
        assert forall|w: HeapW| #[trigger] key_at(b0, pm, w, o) implies
            heap_ok(self.0@.bytes, pm, w_push(w, o)) && r__->Ok_0.val == w.slots[o].size by {
            assert(slot_ok(b0, o, w.slots[o]));
            lemma_slot_size_decodes(b0, o, w.slots[o]);
            assert(can_push(b0, pm, w, o, r__->Ok_0.val as nat));
        }
    }
}
@end

@fn src/filedb/inner/key.rs | impl<KT: DbMapKeyType> KeyPiece<KT> | with_key_value_next
@ensures
r.key == key, r.value_offset == value_offset, r.bucket_next_offset == bucket_next_offset
@end

@fn src/filedb/inner/key.rs | impl<KT: DbMapKeyType> VarFileKeyCache<KT> | write_piece
@opts rlimit=150
@serves C06 C09 C08 C01
@requires
piece.key.bytes().len() <= 0x1_0000,
piece.value_offset.val % 8 == 0, piece.bucket_next_offset.val % 8 == 0,
is_new || piece.offset.val != 0,
old(self).0@.bytes.len() <= 0x2000_0000_0000_0000,
exists|w: HeapW| #[trigger] heap_ok(old(self).0@.bytes, old(self).0.piece_mgr, w) && key_pre(old(self).0@.bytes, old(self).0.piece_mgr, w, is_new, piece.offset.val as nat)
@ensures
okh(old(self).0@, final(self).0@, r), final(self).0.piece_mgr == old(self).0.piece_mgr,
r is Ok ==> r->Ok_0.key.bytes() == piece.key.bytes() && r->Ok_0.value_offset == piece.value_offset && r->Ok_0.bucket_next_offset == piece.bucket_next_offset,
r is Ok ==> forall|w: HeapW| #[trigger] heap_ok(old(self).0@.bytes, old(self).0.piece_mgr, w) && key_pre(old(self).0@.bytes, old(self).0.piece_mgr, w, is_new, piece.offset.val as nat) ==> ({
    let t = w_write(w, old(self).0@.bytes.len(), is_new, piece.offset.val as nat, key_need(piece.key.bytes(), piece.value_offset.val as nat, piece.bucket_next_offset.val as nat),
        SlotC::Key(piece.key.bytes(), piece.value_offset.val as nat, piece.bucket_next_offset.val as nat));
    heap_ok(final(self).0@.bytes, old(self).0.piece_mgr, t.0) && r->Ok_0.offset.val == t.1 && r->Ok_0.size.val == t.2
        && (!is_new && key_need(piece.key.bytes(), piece.value_offset.val as nat, piece.bucket_next_offset.val as nat) > w.slots[piece.offset.val as nat].size ==> exists|ba: Seq<u8>| #[trigger] heap_ok(ba, old(self).0.piece_mgr, w_push(w, piece.offset.val as nat)) && ba.len() == old(self).0@.bytes.len())
}),
r is Ok ==> final(self).0@.unflushed && final(self).0@.unsynced
@entry
let ghost b0 = old(self).0@.bytes;
let ghost pm = old(self).0.piece_mgr;
let ghost off = piece.offset.val as nat;
let ghost kb = piece.key.bytes();
let ghost vo = piece.value_offset.val as nat;
let ghost nx = piece.bucket_next_offset.val as nat;
let ghost cont = SlotC::Key(kb, vo, nx);
let ghost need = key_need(kb, vo, nx);
let ghost p = enc_len(kb.len()) + kb.len() + enc_len(vo) + enc_len(nx);
let ghost w0: HeapW = choose|w: HeapW| #[trigger] heap_ok(b0, pm, w) && key_pre(b0, pm, w, is_new, off);
let ghost w10: HeapW = if is_new { w0 } else { w_push(w0, off) };
let ghost mut ba = b0;
let ghost mut bb = b0;
let ghost mut fo: nat = 0;
proof {
    lemma_roundup_slot(enc_len(((p + 7) / 8) as nat) + p);
    lemma_tiling_len(b0.len(), w0.slots);
    axiom_vu64(kb.len()); axiom_vu64(vo / 8); axiom_vu64(nx / 8);
    if !is_new {
        assert(slot_ok(b0, off, w0.slots[off]));
        lemma_slot_bounds(b0, off, w0.slots[off]); lemma_slot_size_decodes(b0, off, w0.slots[off]);
    }
}
@before-call dat_write_piece_one 1
proof { lemma_key_fits(kb.len(), vo, nx, old_piece_size.val as nat); axiom_vu64((old_piece_size.val / 8) as nat); }
@before-return 1
proof {
    let b1 = self.0@.bytes;
    assert forall|w: HeapW| #[trigger] heap_ok(b0, pm, w) && key_pre(b0, pm, w, is_new, off) implies ({
        let t = w_write(w, b0.len(), is_new, off, need, cont);
        heap_ok(b1, pm, t.0) && piece.offset.val == t.1 && piece.size.val == t.2
    }) by {
        assert(slot_ok(b0, off, w.slots[off]));
        lemma_slot_size_decodes(b0, off, w.slots[off]);
        lemma_write_inplace(b0, b1, pm, w, off, cont, need);
    }
}
@before-call push_free_piece_list 1
proof { assert(can_push(self.0@.bytes, pm, w0, off, old_piece_size.val as nat)); }
@after-call push_free_piece_list 1
proof { ba = self.0@.bytes; assert(heap_ok(ba, pm, w10)); }
@before-call pop_free_piece_list 1
proof { ba = self.0@.bytes; assert(heap_ok(ba, pm, w10)); }
@after-call pop_free_piece_list 1
proof {
    bb = self.0@.bytes; fo = free_piece_offset.val as nat;
    assert(pop_post(ba, bb, pm, w10, need, fo));
    let cl = class_idx(need); let k = pop_idx(w10, need);
    if k < w10.lists[cl].len() {
        let w2 = w_unlink(w10, cl, k);
        assert(heap_ok(bb, pm, w2));
        assert(w2.slots.dom().contains(fo));
        assert(slot_ok(bb, fo, w2.slots[fo]));
        lemma_slot_size_decodes(bb, fo, w2.slots[fo]);
        lemma_slot_bounds(bb, fo, w2.slots[fo]);
        lemma_key_fits(kb.len(), vo, nx, w2.slots[fo].size);
        axiom_vu64(w2.slots[fo].size / 8);
    } else {
        lemma_key_fits(kb.len(), vo, nx, need);
        axiom_vu64(need / 8);
    }
}
@exit
proof {
    if r__ is Ok {
        let b1 = self.0@.bytes;
        let rp = r__->Ok_0;
        assert forall|w: HeapW| #[trigger] heap_ok(b0, pm, w) && key_pre(b0, pm, w, is_new, off) implies ({
            let t = w_write(w, b0.len(), is_new, off, need, cont);
            heap_ok(b1, pm, t.0) && rp.offset.val == t.1 && rp.size.val == t.2
                && (!is_new && need > w.slots[off].size ==> exists|ba2: Seq<u8>| #[trigger] heap_ok(ba2, pm, w_push(w, off)) && ba2.len() == b0.len())
        }) by {
            if !is_new {
                assert(slot_ok(b0, off, w.slots[off]));
                lemma_slot_size_decodes(b0, off, w.slots[off]);
                assert(can_push(b0, pm, w, off, w.slots[off].size));
                assert(heap_ok(ba, pm, w_push(w, off)));
            }
            let w1 = if is_new { w } else { w_push(w, off) };
            assert(heap_ok(ba, pm, w1));
            assert(pop_post(ba, bb, pm, w1, need, fo));
            lemma_write_post(b0, ba, bb, b1, pm, w, is_new, off, cont, need, fo, rp.offset.val as nat, rp.size.val as nat);
        }
    }
}
@end

@fn src/filedb/inner/key.rs | impl<KT: DbMapKeyType> VarFileKeyCache<KT> | add_key_piece
@serves C01 C06
@requires
key.bytes().len() <= 0x1_0000, value_offset.val % 8 == 0, bucket_next_offset.val % 8 == 0,
old(self).0@.bytes.len() <= 0x2000_0000_0000_0000,
exists|w: HeapW| #[trigger] heap_ok(old(self).0@.bytes, old(self).0.piece_mgr, w)
@ensures
okh(old(self).0@, final(self).0@, r), final(self).0.piece_mgr == old(self).0.piece_mgr,
r is Ok ==> r->Ok_0.key.bytes() == key.bytes() && r->Ok_0.value_offset == value_offset && r->Ok_0.bucket_next_offset == bucket_next_offset,
r is Ok ==> forall|w: HeapW| #[trigger] heap_ok(old(self).0@.bytes, old(self).0.piece_mgr, w) ==> ({
    let t = w_alloc(w, old(self).0@.bytes.len(), key_need(key.bytes(), value_offset.val as nat, bucket_next_offset.val as nat), SlotC::Key(key.bytes(), value_offset.val as nat, bucket_next_offset.val as nat));
    heap_ok(final(self).0@.bytes, old(self).0.piece_mgr, t.0) && r->Ok_0.offset.val == t.1 && r->Ok_0.size.val == t.2
}),
r is Ok ==> final(self).0@.unflushed && final(self).0@.unsynced
@end
@endmod
