#!/usr/bin/env python3
"""Writes MANIFEST.json from the table below (kept in one place so that the file stays valid)."""
import json, os
ROOT = os.path.dirname(os.path.dirname(os.path.abspath(__file__)))
TB = 'Trusted (listed verbatim in evidence.coverage.trusted_base): rabuf BufFile byte-array model T1, vu64 codec T2 (itself discharged by Kani U0 on the dependency), std pieces T3 (to_vec, Result::map, write_all/read_exact, OpenOptions, next_power_of_two), derived comparisons T4, 64-bit LE target T5, extraction rules R1-R15 and `verus --no-lifetime` T6. Machine-arithmetic hypotheses are explicit requires (files < 2^60 bytes, < 2^64-2 entries, keys <= 2^16, values <= 2^24 bytes).'
T = 'contract-based deductive verification: Verus requires/ensures/invariants on functions extracted verbatim from /repo (tools/vx.py), Kani harnesses for idioms Verus rejects'
def C(cat, text, ref, note=TB, technique=T):
    return dict(cat=cat, text=text, ref=ref, note=note, technique=technique)
CLAIMED = {
 "C01": C("proof", "put_kt / get_kt / del_kt / includes_key_kt / len of the real FileDbXxxInner are verified (Verus) to refine an ideal map: under the representation invariant map_ok (some witness makes the three files a well-formed map) every call preserves the invariant and its result / effect is lookup, insert, remove on the abstract map, for every witness, every key <= 64 KiB, every value <= 16 MiB, every table size; all loops carry decreases clauses (no hang); every panic/assert site in the call closure is an obligation (no panic). The per-key-type obligations behind the DbMapKeyType contract (cmp_u8 <=> equal bytes, conversions) are discharged by Kani on the five real key types. Known findings K1a/K1b (relocation panics) are reported as KNOWN-FINDING.", "DESIGN.md §5 C01, §10"),
 "C02": C("proof", "Code-level part: the three open_with_params functions are verified to write nothing into a non-empty file (bytes == disk content, !unflushed), to check both signatures, to adopt the stored bucket count whatever the parameters say, and to create exactly the documented fresh images otherwise; the OpenOptions shim records truncate(false). map_ok and the abstract lookup are functions of the bytes and the stored bucket count, so a reopened map has the view it had at the drop. rabuf Drop/flush, the OS and a second process are assumed (T1).", "DESIGN.md §5 C02"),
 "C03": C("proof", "flush / sync_all / sync_data of the map are verified: Ok implies all three files flushed (and OS-synced for sync_*), dirty_ok (buffered updates ==> dirty flag) is established by open and preserved by put_kt / del_kt, so a flush after any history writes every update; three freshly created files are proved to be a valid empty map. The database-level fan-out (FileDb::sync_* over Rc<RefCell> registries) is outside both verifiers; a bounded stand-in (scenario dbsync: ten maps of all five key types, snapshot after every database-level sync) runs with every check and is labelled bounded.", "DESIGN.md §5 C03"),
 "C04": C("proof", "next_key_piece_offset is verified for every table size n >= 8 (symbolic n): it returns the next non-empty bucket, skipping only empty ones, never reads outside the file; DbXxxIterMut::next_piece_offset / next and the four wrappers are verified against the iteration order (bucket ascending, chain order): the k-th call yields the k-th entry with its current value, remaining == len - k before every step (size_hint), None forever after the end; distinct positions are distinct entries (lemma_entry_unique).", "DESIGN.md §5 C04"),
 "C05": C("proof", "map_ok is the property's list (acyclic chains of keys hashing to their bucket, no key twice, count == number of chained keys, bitmap, every key record owns an in-bounds value record, no orphan records) and is proved to be preserved by put_kt and del_kt and established by creation; record writers are proved at byte level against the documented layout (images incl. zero padding), readers are proved inverse to writers.", "DESIGN.md §5 C05"),
 "C06": C("proof", "heap_ok (slots tile [192,len) without gaps/overlaps, every slot is used or on exactly the free list of its size class, list heads in the header) is proved preserved by push_free_piece_list, pop_free_piece_list(+large, first fit with unlink from the middle), write_piece, delete_piece for both files; a file grows only when the pop found no slot (w_alloc); a positive slot size makes the statistics walk advance (Kani one-step harness). The quantitative bound on file size is a corollary that is argued, not mechanised.", "DESIGN.md §5 C06"),
 "C07": C("proof", "Every contract is parametric in the bucket count n >= 8 and in the chunk geometry of the buffers; open_with_params is verified for every HashBucketsParam / FileBufSizeParam value (bounded only by explicit machine-arithmetic requires) incl. the call-site preconditions of the buffered file constructors, and ignores the parameters on reopen; capacity_to_buckets_size is proved by Kani for all capacities <= 2^40. Known finding K3 (PerMille < 1000) is reported as KNOWN-FINDING.", "DESIGN.md §5 C07"),
 "C08": C("proof", "The put_kt / del_kt / store_value_on_insert proofs hold for every chain position (the chain witness and the member index are arbitrary) and every offset width (offsets are symbolic, the slot estimate uses enc_len): a value that moves is re-linked from its key record, a key record that stays keeps its chain; the two sites where a key record would have to move are the recorded findings K1a/K1b.", "DESIGN.md §5 C08"),
 "C09": C("proof", "For every key length <= 64 KiB and value length <= 16 MiB: the size estimate, roundup (Kani, all u32, real tables) and lemma_fits give the precondition of the record writers at both call sites of write_piece (fresh slot, reused slot, overwrite in place); the writers are proved to produce exactly the record image inside the slot and to change no byte outside it; read_piece is proved inverse (byte-for-byte round trip).", "DESIGN.md §5 C09"),
 "C10": C("proof", "Kani on the real conversions, complete over all 2^64 values: integer -> key -> integer round trips (u64, i64, vu64), by-value == by-reference, stored-key comparison Equal <=> integers equal, hash == reference for every integer key; byte/string keys: comparison and from_bytes/as_bytes for the listed length pairs (bounded part, reported separately).", "DESIGN.md §5 C10"),
 "C12": C("proof", "Header writers are proved to produce the documented images (constants spelled out in the spec, not imported), offset/size codecs are proved (x/8 in vu64, readers inverse), bucket placement is hash % n; Kani proves the mixer, one hasher chunk, and the whole-key hash of every integer key against a reference that is anchored to golden vectors computed from the pinned release; string keys for the listed lengths (bounded part).", "DESIGN.md §5 C12"),
 "C13": C("proof", "check_*_header are proved: Ok implies both 8-byte signatures equal the expected ones (so every single-byte mutation is refused) and no byte is written; open_with_params calls them for every non-empty file before a handle exists. Kani evaluates the five real signature() functions: pairwise distinct except the recorded finding K2 (DbU64 / DbVu64).", "DESIGN.md §5 C13"),
 "C14": C("other", "Bounded only (never counted as proved): the real default methods bulk_get / bulk_delete / bulk_put / put_from_iter run under CBMC on an array-backed ideal map with batches of two and three one-byte keys (every order); the scenario `bulk` of the replay binary runs bulk_get / bulk_get_string / bulk_put / bulk_delete on the file-backed map for every permutation of 3..5 keys (one absent) against the element-wise calls. Larger batches are not covered.", "DESIGN.md §5 C14, §11", technique="Kani bounded harnesses on the real trait default methods + concrete scenarios on the real crate (bounded stand-in, labelled bounded)"),
 "C15": C("proof", "Frame postconditions same_files (nothing but the cursors of the three files moved; bytes, flags and dirty unchanged) are proved for get_kt, includes_key_kt, len, find_in_hash_buckets_kt, load_*, iterator steps, count_of_free_piece_list, htx_filling_rate_per_mill, read_fill_buffer, and same_bytes for flush/sync; every seek/read target is proved inside the file (a seek beyond the end would extend it).", "DESIGN.md §5 C15"),
 "C16": C("proof", "The shims let flush/sync of a buffered file fail (healthy is unconstrained): flush/sync_* of the map are proved to return Ok only if all three files were flushed, to keep the dirty flag on Err, and never to change a byte; a later successful call gives C03's postcondition.", "DESIGN.md §5 C16"),
 "C17": C("proof", "count_of_free_piece_list is proved to return the length of the free list (with termination), htx_filling_rate_per_mill the number of non-empty buckets and count*1000/n; one step of the slot walk is proved by Kani; the histogram accumulators are bounded harnesses. The KeyFile/ValueFile count_of_free_*_piece loops and the *_stats walkers (dyn PieceA, iterator adapters) are argued from these, not proved.", "DESIGN.md §5 C17"),
 "C18": C("proof", "Derived: every leaf writer's postcondition fixes all bytes it may touch (payload, encodings, zero padding to the slot/header end), placement is a spec function of key bytes and n (hash proved by Kani for the mixer/one chunk), read-only calls write nothing (C15). The composition step is a meta-argument about deterministic exec functions, stated in DESIGN.md.", "DESIGN.md §5 C18"),
}
NOT_YET = {
}
NA = {
 "C11": "not applicable to this technique: the property is about Rc<RefCell<..>> aliasing between handles, the BTreeMap registries and file-name derivation; rule R7 erases exactly that aliasing and neither verifier models it (DESIGN.md §5 C11)",
}
ALL = ["C%02d" % i for i in range(1, 19)]
checks = []
for pid, c in CLAIMED.items():
    checks.append({
        "property_id": pid,
        "quick_cmd": "./check %s --tier quick" % pid,
        "thorough_cmd": "./check %s --tier thorough" % pid,
        "evidence_file": "/verif/evidence/%s.json" % pid,
        "replay_cmd_template": "./check %s --replay {path}" % pid,
        "engine": "vx+verus+kani",
        "level_claimed": {"category": c["cat"], "text": c["text"], "design_ref": c["ref"]},
        "level_note": c["note"],
        "technique": c["technique"],
    })
na = []
for pid in ALL:
    if pid in CLAIMED: continue
    na.append({"property_id": pid, "reason": NA.get(pid) or NOT_YET.get(pid) or "verification unit for this property is not completed yet; not claimed rather than claimed on partial machinery (DESIGN.md §8)"})
m = {
 "version": 1,
 "setup_cmd": "cd /verif/replay && CARGO_NET_OFFLINE=true CARGO_TARGET_DIR=/verif/out/replay-target cargo build --offline -q",
 "hooks": {"guard": "kani", "enable": "no source hooks: Verus reads functions extracted from /repo's working tree; Kani harness modules are appended (add-only, #[cfg(kani)]) to a scratch copy of the working tree", "baseline_off_cmd": "cd /repo && cargo test --workspace --no-fail-fast --offline", "source_commits": [], "add_only": True},
 "engines": [{"name": "vx+verus+kani", "path": "/verif/tools", "serves_properties": sorted(CLAIMED), "kind_free_text": "mechanical extractor/contract splicer (tools/vx.py) -> Verus (z3) on the real function bodies; Kani (CBMC) harnesses on a scratch copy of the crate for idioms Verus rejects"}],
 "checks": checks,
 "not_applicable": na,
 "notes": "Exit codes of ./check: 0 all obligations discharged (or listed known finding), 1 VIOLATION, 2 UNDECIDED (lost anchor / unsupported construct / resource limit; never on the unchanged tree). Every check also runs the property's bounded stand-in scenarios of /verif/replay on the real crate (evidence.coverage.bounded_parts, never counted as proved); a failing scenario or a Kani counterexample replayed natively is the failing input attached to a VIOLATION, otherwise the line ends with no-failing-input-found. Mutation testing of the checks: /verif/seeded/, DESIGN.md §11.",
}
json.dump(m, open(os.path.join(ROOT, "MANIFEST.json"), "w"), indent=1)
print("claimed:", sorted(CLAIMED))
