#!/usr/bin/env python3
"""Writes MANIFEST.json from the table below (kept in one place so that the file stays valid)."""
import json, os
ROOT = os.path.dirname(os.path.dirname(os.path.abspath(__file__)))
CLAIMED = {
 "C09": dict(cat="proof",
    text="Deductive proof (Verus/z3) on the functions extracted verbatim from /repo: the value-record writer's postcondition is the byte image of the record inside its slot plus the frame 'no byte outside the slot changes', for every value length <= 2^24, every slot offset, and every slot size satisfying the fit inequality; the size estimate and the slot arithmetic lemma (all lengths, all size classes incl. the width steps of the size field) are proved; PieceMgr::roundup is proved equal to the spec on the real tables for every u32 by Kani (complete, unwinding-asserted).",
    note="Trusted: rabuf BufFile model (T1), vu64 codec (T2, itself discharged by Kani U0 on the dependency), derived comparisons (T4), extraction rules R1-R14 (T6). Listed verbatim in evidence.coverage.trusted_base.",
    technique="contract-based deductive verification (Verus requires/ensures on extracted real functions) + Kani full-domain harnesses", ref="§5 C09"),
}
NOT_YET = {
}
NA = {
 "C11": "not applicable to this technique: the property is about Rc<RefCell<..>> aliasing between handles, the BTreeMap registries and file-name derivation; rule R7 erases exactly that aliasing and neither verifier models it (DESIGN.md §5 C11)",
}
ALL = ["C%02d" % i for i in range(1, 19)]
checks = []
for pid, c in CLAIMED.items():
    checks.append({
        "property_id": pid,
        "quick_cmd": "./check %s --tier quick" % pid,
        "thorough_cmd": "./check %s --tier thorough" % pid,
        "evidence_file": "/verif/evidence/%s.json" % pid,
        "replay_cmd_template": "./check %s --replay {path}" % pid,
        "engine": "vx+verus+kani",
        "level_claimed": {"category": c["cat"], "text": c["text"], "design_ref": c["ref"]},
        "level_note": c["note"],
        "technique": c["technique"],
    })
na = []
for pid in ALL:
    if pid in CLAIMED: continue
    na.append({"property_id": pid, "reason": NA.get(pid) or NOT_YET.get(pid) or "verification unit for this property is not completed yet; not claimed rather than claimed on partial machinery (DESIGN.md §8)"})
m = {
 "version": 1,
 "setup_cmd": "true",
 "hooks": {"guard": "kani", "enable": "no source hooks: Verus reads functions extracted from /repo's working tree; Kani harness modules are appended (add-only, #[cfg(kani)]) to a scratch copy of the working tree", "baseline_off_cmd": "cd /repo && cargo test --workspace --no-fail-fast --offline", "source_commits": [], "add_only": True},
 "engines": [{"name": "vx+verus+kani", "path": "/verif/tools", "serves_properties": sorted(CLAIMED), "kind_free_text": "mechanical extractor/contract splicer (tools/vx.py) -> Verus (z3) on the real function bodies; Kani (CBMC) harnesses on a scratch copy of the crate for idioms Verus rejects"}],
 "checks": checks,
 "not_applicable": na,
 "notes": "Exit codes of ./check: 0 all obligations discharged (or listed known finding), 1 VIOLATION, 2 UNDECIDED (lost anchor / unsupported construct / resource limit; never on the unchanged tree).",
}
json.dump(m, open(os.path.join(ROOT, "MANIFEST.json"), "w"), indent=1)
print("claimed:", sorted(CLAIMED))
