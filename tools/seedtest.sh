#!/bin/sh
# usage: tools/seedtest.sh <patch.diff> <prop> [<prop>...]   — applies the patch to /repo, runs the checks, reverts
P="$1"; shift
cd /repo && git apply "$P" || { echo "patch does not apply"; exit 3; }
cd /verif
for prop in "$@"; do
  ./check $prop 2>&1 | grep -v conda | grep -E "^VIOLATION|^KNOWN|^UNDECIDED|^SUMMARY" | cut -c1-330
done
git -C /repo checkout -- . ; git -C /repo status --short | head -3
