#!/bin/sh
# usage: tools/seedtest.sh <patch.diff> <prop> [<prop>...]   — applies the patch to /repo, runs the checks (in parallel), reverts
P="$1"; shift
cd /repo && git apply "$P" || { echo "patch does not apply"; exit 3; }
cd /verif
for prop in "$@"; do
  ( ./check $prop > /tmp/seedtest_$prop.out 2>&1; echo "exit=$?" >> /tmp/seedtest_$prop.out ) &
done
wait
for prop in "$@"; do
  grep -v conda /tmp/seedtest_$prop.out | grep -E "^VIOLATION|^KNOWN|^UNDECIDED|^SUMMARY|^exit=" | cut -c1-330; rm -f /tmp/seedtest_$prop.out
done
git -C /repo checkout -- . ; git -C /repo status --short | head -3
