#!/usr/bin/env python3
"""Regenerates seeded/INDEX.md from the meta.json files (header text kept from the current file)."""
import json, os, re
R = os.path.join(os.path.dirname(os.path.abspath(__file__)), "..", "seeded")
hdr = open(os.path.join(R, "INDEX.md")).read().split('| id | property |')[0]
def c(s, n=None):
    s = str(s).replace('|', '\\|').replace('\n', ' ')
    return s if n is None or len(s) <= n else s[:n - 3] + '...'
ids = sorted(d for d in os.listdir(R) if re.match(r'C\d\d[a-z]?$', d))
rows = []
for i in ids:
    m = json.load(open(os.path.join(R, i, "meta.json")))
    rows.append(f"| {i} | {m['property']} | {c(m['summary'], 260)} | {c(m.get('needs', ''), 200)} | {c(m.get('caught_by', ''))} |")
open(os.path.join(R, "INDEX.md"), "w").write(hdr + '| id | property | what the change does | needs | caught by |\n|---|---|---|---|---|\n' + '\n'.join(rows) + '\n')
print(len(ids), "seeded changes")
