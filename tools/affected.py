#!/usr/bin/env python3
"""prints the properties whose generated Verus unit differs between two trees, plus those whose Kani harness target files differ.
usage: affected.py <baseline_tree> <changed_tree>"""
import sys, os, filecmp
sys.path.insert(0, os.path.dirname(os.path.abspath(__file__)))
import vx, kanileg, props
base, chg = sys.argv[1], sys.argv[2]
ov = vx.parse_overlay(os.path.join(os.path.dirname(os.path.dirname(os.path.abspath(__file__))), "contracts", "all.vs"))
out = []
allp = ["C%02d" % i for i in range(1, 19) if i != 11]
changed_files = set()
for root, _, files in os.walk(os.path.join(base, "src")):
    for f in files:
        a = os.path.join(root, f); b = a.replace(base, chg, 1)
        if not os.path.exists(b) or not filecmp.cmp(a, b, shallow=False): changed_files.add(os.path.relpath(a, base))
h2target = {}
for hp, rel in kanileg.harness_files():
    for h in kanileg.harness_names(hp): h2target[h] = rel
for p in allp:
    hit = False
    if any(p in fs.serves or (vx.DERIVED_FROM.get(p, set()) & set(fs.serves)) for fs in ov.fns.values()):
        try:
            ua = vx.generate(vx.Repo(base), ov, p).text
            ub = vx.generate(vx.Repo(chg), ov, p).text
            hit = ua != ub
        except Exception:
            hit = True
    if not hit and props.KANI.get(p):
        hs = list(props.KANI[p]["complete"]) + list(props.KANI[p]["bounded"].keys())
        if any(h2target.get(h) in changed_files for h in hs): hit = True
    if not hit and p == "C14" and "src/lib.rs" in changed_files: hit = True
    if hit: out.append(p)
print(" ".join(out))
