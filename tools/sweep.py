#!/usr/bin/env python3
"""stability sweep: every property unit x several z3 seeds; prints the functions that fail anywhere."""
import sys, os, json, subprocess, collections
sys.path.insert(0, os.path.dirname(os.path.abspath(__file__)))
import vx, run
props = sys.argv[1].split(",") if len(sys.argv) > 1 else ["C%02d" % i for i in range(1, 19)]
seeds = (sys.argv[2].split(",") if len(sys.argv) > 2 else ["0", "1", "2", "s3"])     # "s3" = seed 3 with -V spinoff-all (as the thorough tier does)
out = os.environ.get("SWEEP_OUT", "/root/scratch/vsweep"); os.makedirs(out, exist_ok=True)
bad = collections.Counter()
for p in props:
    repo = vx.Repo(os.environ.get("VERIF_REPO", "/repo")); ov = vx.parse_overlay("/verif/contracts/all.vs")
    if not any(p in fs.serves or (vx.DERIVED_FROM.get(p, set()) & set(fs.serves)) for fs in ov.fns.values()): continue
    u = vx.generate(repo, ov, p)
    path = os.path.join(out, "unit_%s.rs" % p); open(path, "w").write(u.text)
    for sd in seeds:
        spin = str(sd).startswith("s"); sdi = int(str(sd).lstrip("s"))
        r = run.run_verus(path, u, rlimit=60 if spin else 30, seed=sdi, spinoff=spin)
        fails = sorted(set([run_oid for run_oid in ["%s/%s" % (f["fn"], f["kind"]) for f in r.failures]] + ["RLIMIT:" + q for q in r.fn_rlimit] + ["UNDEC:" + x[:120] for x in r.undecided] + ["LIB:" + x[:140] for x in r.library_failures]))
        fails = [f for f in fails if f not in ("FileDbXxxInner::del_kt/pre", "FileDbXxxInner::put_kt/pre", "HtxFile::open_with_params/pre", "KeyFile::open_with_params/pre", "ValueFile::open_with_params/pre")]
        print(p, sd, r.raw_summary.get("verified"), r.raw_summary.get("errors"), fails, flush=True)
        for f in fails: bad[f] += 1
print("SUMMARY", dict(bad))
