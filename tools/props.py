"""Per-property configuration and the check procedure."""
import hashlib, json, os, re, shutil, sys, time
HERE = os.path.dirname(os.path.abspath(__file__))
ROOT = os.path.dirname(HERE)
sys.path.insert(0, HERE)
import vx, run, kanileg

# property -> kani harnesses (complete = loop-free / unwinding-asserted full-domain proofs; bounded = stated bound)
_ROUNDUP = ["u3_roundup_key_table", "u3_roundup_val_table", "u3_tables_are_the_documented_ones", "u3_is_valid_value", "u3_is_valid_key"]
_VU64 = ["u0_encoded_len_is_spec", "u0_decoded_len_range", "u0_axiom_vu64"]
_KEYTRAIT = ["u8_bytes_string_from_u64_value_eq_ref", "u8_u64_cmp_u8_iff_equal", "u8_i64_cmp_u8_iff_equal", "u8_vu64_cmp_u8_iff_equal", "u8_u64_roundtrip", "u8_i64_roundtrip", "u8_vu64_roundtrip"]
_HASH_INT = ["u9_hash_value_u64_all_values", "u9_hash_value_i64_all_values"] + ["u9_hash_value_vu64_len_%d" % i for i in range(1, 10)]
_BYTES_CMP = {h: "byte/string keys of lengths (%s)" % h[len("u8_bytes_cmp_"):].replace("_", ",") for h in
              ["u8_bytes_cmp_0_0", "u8_bytes_cmp_0_1", "u8_bytes_cmp_3_3", "u8_bytes_cmp_3_4", "u8_bytes_cmp_5_3", "u8_bytes_cmp_6_6"]}
_HASH_STR = {"u9_hash_value_string_len_%d" % n: "string/bytes key of length %d" % n for n in (0, 1, 7, 8, 9, 16, 17)}
# property -> kani harnesses (complete = loop-free / unwinding-asserted full-domain proofs; bounded = stated bound)
KANI = {
    "C01": {"complete": _KEYTRAIT + _VU64 + _ROUNDUP, "bounded": dict(_BYTES_CMP, c01_front_end_calls_are_their_kt_counterparts="generic front-end get/put/delete/includes_key/is_empty on an array-backed map of <= 2 entries, one-byte keys and values")},
    "C05": {"complete": _ROUNDUP + _VU64, "bounded": {}},
    "C06": {"complete": _ROUNDUP + ["u3_free_list_head_offset", "u3_slot_walk_one_step"], "bounded": {}},
    "C07": {"complete": ["u6_capacity_to_buckets_size", "u6_capacity_zero_is_refused"], "bounded": {}},
    "C08": {"complete": _ROUNDUP + _VU64, "bounded": {}},
    "C09": {"complete": _ROUNDUP + _VU64, "bounded": {}},
    "C10": {"complete": _KEYTRAIT + _VU64 + _HASH_INT, "bounded": dict(_BYTES_CMP)},
    "C12": {"complete": ["u9_xorshift_is_documented_mixer", "u9_hasher_one_chunk", "u9_reference_matches_release_vectors",
                         "c12_signatures_are_the_documented_ones", "u3_free_list_head_offset"] + _ROUNDUP + _HASH_INT + _VU64, "bounded": dict(_HASH_STR)},
    "C13": {"complete": ["c13_signatures_pairwise_distinct", "c13_signatures_distinct_except_k2", "c12_signatures_are_the_documented_ones"], "bounded": {}},
    "C14": {"complete": [], "bounded": {"c14_bulk_get_is_elementwise_batch_2": "map <= 1 entry before the call, batch of 2 one-byte keys",
                                         "c14_bulk_delete_is_elementwise_batch_2_distinct": "map <= 1 entry, batch of 2 distinct one-byte keys",
                                         "c14_bulk_put_is_elementwise_batch_2_distinct": "map <= 1 entry, batch of 2 distinct one-byte keys, one-byte values",
                                         "c14_put_from_iter_applies_in_order_batch_2": "map <= 1 entry, 2 pairs",
                                         "c01_front_end_calls_are_their_kt_counterparts": "generic front-end get/put/delete/includes_key/is_empty, map <= 2 entries, one-byte keys and values",
                                         "c14_bulk_get_is_elementwise_batch_3": "map <= 2 entries, batch of 3 one-byte keys (every order, repeats allowed)",
                                         "c14_bulk_delete_is_elementwise_batch_3_distinct": "map <= 2 entries, batch of 3 distinct one-byte keys (every order)"}},
    "C17": {"complete": ["u3_free_list_head_offset", "u3_slot_walk_one_step"], "bounded": {"c17_touch_size_counts_each_touch_bounded_3": "3 touches, sizes <= 4 (counts, one bucket per size, ascending order)",
                                                                                       "c17_touch_length_counts_each_touch_bounded_3": "3 touches, lengths <= 4"}},
    "C18": {"complete": ["u9_xorshift_is_documented_mixer", "u9_hasher_one_chunk"], "bounded": {}},
}
# (u9_hash_value_vu64_all_values — one harness over a symbolic-length key — needs > 24 GB and 19 min; the nine per-length harnesses
#  u9_hash_value_vu64_len_1..9 cover the same values completely, so it is not run)
KANI_THOROUGH_EXTRA = {}
KANI_THOROUGH_BOUNDED = {"C14": {"c14_bulk_get_is_elementwise_batch_4": "map <= 2 entries, batch of 4 one-byte keys (every order, repeats allowed)"}}
VERUS_PROPS = set()   # filled from the overlay (@serves)
# obligations that are verified in a property's closure but are not part of that property's statement
# (the panic sites are obligations of the properties that promise "never panics": C01, C07, C08)
_PM = r"/pre:with_per_mille#"      # K3 is a C07 finding
_VP = r"/pre:vpanic#"              # K1a/K1b are C01 / C08 findings
NOT_ATTRIBUTED = {p: [_PM, _VP] for p in ("C02", "C03", "C04", "C05", "C06", "C09", "C12", "C13", "C15", "C16", "C17", "C18")}
NOT_ATTRIBUTED["C01"] = [_PM]; NOT_ATTRIBUTED["C08"] = [_PM]; NOT_ATTRIBUTED["C07"] = [_VP]
NOT_ATTRIBUTED["C14"] = [_PM, _VP]; NOT_ATTRIBUTED["C10"] = [_PM, _VP]
LEVEL = {"C14": "other"}

# ---- witness search (secondary): scenario families of the replay binary tried when an obligation of a function fails ----
WITNESS = [
    (r"next_key_piece_offset|DbXxxIter|DbXxxKeys|DbXxxValues|DbXxxIntoIter|write_key_piece_offset|htx_filling|HtxFile::open",
     [["scan", "128", "k25", "k312", "k911", "k303"], ["scan", "8", "a", "b", "c", "d", "e", "f", "g", "h", "i", "j"], ["scan", "4", "a"],
      ["scan", "64", "k1", "k2", "k3", "k4", "k5", "k6", "k7", "k8", "k9", "k10", "k11", "k12"], ["scan", "256", "k25", "k312", "k911", "k303", "k7", "k8"],
      ["history", "1", "12", "300"], ["history", "7", "40", "600"]]),
    (r"dat_write_piece_one|encoded_piece_size|write_zero_to_offset|roundup|read_piece|write_piece_size|write_piece_offset|read_and_decode|kani:u3_roundup|kani:u0",
     [["putget", "5000"], ["putsweep"], ["history", "1", "12", "300"]]),
    (r"push_free|pop_free|delete_piece|write_piece|write_piece_clear|count_of_free|kani:u3_",
     [["reuse"], ["putsweep"], ["history", "1", "12", "300"], ["history", "5", "6", "800"], ["history", "9", "30", "800"]]),
    (r"put_kt|del_kt|get_kt|find_in_hash|store_value|includes_key|load_value|::len",
     [["history", "1", "12", "300"], ["history", "5", "6", "800"], ["history", "9", "30", "800"], ["history", "11", "3", "500"], ["durable"]]),
    (r"flush|sync_all|sync_data|dirty", [["flushdur"], ["durable"], ["history", "1", "12", "300"]]),
    (r"open_with_params|check_.*header|init_header|kani:c13|kani:c12", [["reopen"], ["bufsize", "131072"], ["bufsize", "1000"], ["scan", "4", "a"], ["sigmut"], ["durable"], ["history", "1", "12", "300"]]),
]
# ---- bounded stand-in (labelled BOUNDED, never counted as proved): scenario families per property, run on the real crate in every
# check (they take well under a second each). They stand in for code the deductive leg cannot reach (the FileDb registries and the
# DbXxx front-ends, see DESIGN 10.5) and for code a change has moved out of the verifier's reach (lost anchor, unsupported construct:
# the deductive leg is then UNDECIDED). A failing scenario is a real failing input -> VIOLATION; passing scenarios prove nothing.
_H = [["history", "1", "12", "300"], ["history", "5", "6", "800"], ["history", "9", "30", "800"], ["history", "11", "3", "500"]] + \
     [["history", str(sd), str(nk), str(no)] for sd, nk, no in ((21, 2, 400), (22, 4, 600), (23, 8, 600), (24, 16, 900), (25, 5, 1500), (26, 10, 1500), (27, 60, 1200), (28, 7, 2500))]
_SC = [["scan", "128", "k25", "k312", "k911", "k303"], ["scan", "8", "a", "b", "c", "d", "e", "f", "g", "h", "i", "j"], ["scan", "4", "a"],
       ["scan", "64", "k1", "k2", "k3", "k4", "k5", "k6", "k7", "k8", "k9", "k10", "k11", "k12"]]
BOUNDED_SCEN = {
    "C01": _H + [["putget", "5000"], ["putsweep"], ["keys"], ["pertype"]], "C10": [["keys"], ["pertype"]], "C02": [["reopen"], ["durable"], ["dbsync"], ["names"]] + _H[:4], "C03": [["flushdur"], ["durable"], ["dbsync"], ["syncfail"]],
    "C04": _SC + _H[:2] + [["pertype"], ["keys"]], "C05": _H + [["reuse"]], "C06": [["reuse"], ["putsweep"], ["grow"]] + _H, "C07": [["bufsize", "131072"], ["bufsize", "1000"], ["reopen"], ["dbsync"], ["scan", "4", "a"], ["tablesizes"]] + _H[:1],
    "C08": _H, "C09": [["putget", "5000"], ["putget", "70000"], ["putsweep"], ["values"]], "C12": [["reopen"], ["sigmut"]], "C13": [["sigmut"]], "C15": [["readonly"]],
    "C14": [["bulk"]], "C16": [["flushdur"], ["syncfail"]], "C17": [["stats"]], "C18": [["determ"]],
}
_replay_built = [False]
WORK = os.environ.get("VERIF_WORK", ROOT)     # where out/ and evidence/ go (a regression run over seeded changes uses its own)
def _replay_exe():
    """builds /verif/replay against the tree under check; None if it does not build (never a stale binary)"""
    import subprocess, hashlib as _h
    rdir = os.path.join(ROOT, "replay"); tdir = os.path.join(WORK, "out", "replay-target")
    if os.path.realpath(run.REPO) != "/repo":
        # a tree other than /repo (regression runs on scratch copies): same sources, path dependency rewritten
        tag = _h.md5(os.path.realpath(run.REPO).encode()).hexdigest()[:10]
        rdir2 = os.path.join(WORK, "out", "replay-src-" + tag)
        os.makedirs(os.path.join(rdir2, "src"), exist_ok=True)
        open(os.path.join(rdir2, "Cargo.toml"), "w").write(open(os.path.join(rdir, "Cargo.toml")).read().replace('path = "/repo"', 'path = "%s"' % os.path.realpath(run.REPO)))
        shutil.copy(os.path.join(rdir, "src", "main.rs"), os.path.join(rdir2, "src", "main.rs"))
        if os.path.exists(os.path.join(rdir, "Cargo.lock")): shutil.copy(os.path.join(rdir, "Cargo.lock"), os.path.join(rdir2, "Cargo.lock"))
        rdir = rdir2; tdir = os.path.join(WORK, "out", "replay-target-" + tag)
    exe = os.path.join(tdir, "debug", "abyss-replay")
    if not _replay_built[0]:
        try:
            p_ = subprocess.run(["cargo", "build", "--offline", "-q"], cwd=rdir, env=dict(os.environ, CARGO_TARGET_DIR=tdir, CARGO_NET_OFFLINE="true"),
                                stdout=subprocess.DEVNULL, stderr=subprocess.DEVNULL, timeout=600)
        except Exception:
            return None
        if p_.returncode != 0:
            return None
        _replay_built[0] = True
    return exe if os.path.exists(exe) else None

def thorough_extra_scenarios(prop):
    """thorough tier: 60 more pseudo-random histories (seeds 100..159, 2..64 keys, 300..3000 operations) for the properties that use histories"""
    if not any(a[0] == "history" for a in BOUNDED_SCEN.get(prop, [])): return []
    return [["history", str(100 + i), str([2, 3, 5, 8, 13, 21, 34, 64][i % 8]), str(300 + 45 * i)] for i in range(60)]

def bounded_scenarios(prop, budget=240, tier="quick"):
    """runs every scenario of the property; returns list of dicts {argv, ok, output}"""
    import subprocess
    exe = _replay_exe()
    out = []
    if not exe: return out
    t_end = time.time() + budget
    for argv in BOUNDED_SCEN.get(prop, []) + (thorough_extra_scenarios(prop) if tier == "thorough" else []):
        if time.time() > t_end and len(out) > 0: break
        # a scenario normally takes well under a second; fsync-heavy ones can stall on a busy disk, so a timeout is only believed
        # (reported as a hang) when it repeats with a four times longer limit
        done_ = False
        for lim in (120, 480):
            try:
                p = subprocess.run([exe] + argv, stdout=subprocess.PIPE, stderr=subprocess.STDOUT, text=True, timeout=lim, env=dict(os.environ, RUST_BACKTRACE="0"))
                tail = "\n".join(l for l in p.stdout.strip().split("\n") if "auto_activate_base" not in l)[-600:]
                out.append({"argv": argv, "ok": p.returncode == 0, "output": tail}); done_ = True
                break
            except subprocess.TimeoutExpired:
                continue
        if not done_:
            out.append({"argv": argv, "ok": False, "output": "scenario did not terminate within 120 s, nor within 480 s when repeated (hang)"})
    return out

def witness_search(oid_):
    """returns (argv, output) of the first scenario that fails on the real crate, or None. Time-boxed."""
    import subprocess
    exe = _replay_exe()
    if not exe: return None
    t_end = time.time() + 60
    for rx, scen in WITNESS:
        if not re.search(rx, oid_): continue
        for argv in scen:
            if time.time() > t_end: return None
            try:
                p = subprocess.run([exe] + argv, stdout=subprocess.PIPE, stderr=subprocess.STDOUT, text=True, timeout=40, env=dict(os.environ, RUST_BACKTRACE="0"))
            except subprocess.TimeoutExpired:
                return (argv, "scenario did not terminate within 40 s (hang)")
            if p.returncode != 0:
                tail = "\n".join(l for l in p.stdout.strip().split("\n") if "auto_activate_base" not in l)[-600:]
                return (argv, tail)
    return None

def sanitize(s):
    return re.sub(r"[^A-Za-z0-9_.#-]+", "_", s)[:120]

def oid(f):
    return "%s/%s%s" % (f["fn"], f["kind"], (":" + f["detail"]) if f.get("detail") else "")

def fkey(f):
    # stable key across re-runs (ignore rendered text)
    return (f["fn"], f["kind"], re.sub(r"\s+", " ", f.get("detail", "")))

def do_replay(prop, path):
    """replay a recorded violation against /repo's current tree"""
    import subprocess
    d = json.load(open(path))
    print("obligation: %s (%s)" % (d.get("obligation"), d.get("backend")))
    print("source: %s" % d.get("source"))
    print("verifier output:\n%s" % (d.get("verifier_output") or "")[:3000])
    w = d.get("witness")
    if w and w.get("kani_playback_test"):
        print("counterexample: %s" % w.get("counterexample_values"))
        rc, out = kanileg.replay_test(run.REPO, w.get("module_file"), w["kani_playback_test"])
        print("native replay of the counterexample against the current tree:\n%s" % out)
        print("REPLAY %s" % ("reproduces" if rc == 1 else "does not reproduce on this tree" if rc == 0 else "could not run"))
        return rc
    if w and w.get("replay_scenario"):
        exe = _replay_exe()
        if not exe: print("replay binary could not be built"); return 2
        argv = w["replay_scenario"].split()[1:]
        p = subprocess.run([exe] + argv, stdout=subprocess.PIPE, stderr=subprocess.STDOUT, text=True, env=dict(os.environ, RUST_BACKTRACE="0"))
        print("replay on the real crate: %s\n%s" % (w["replay_scenario"], p.stdout[-1500:]))
        print("REPLAY %s" % ("reproduces" if p.returncode != 0 else "does not reproduce on this tree"))
        return 1 if p.returncode != 0 else 0
    print("no failing input was found for this obligation (no-failing-input-found); re-run ./check %s to see whether the obligation still fails" % prop)
    return 0

def kani_leg(prop, tier):
    kcfg = KANI.get(prop)
    if not kcfg: return {}
    hs = list(kcfg["complete"]) + (KANI_THOROUGH_EXTRA.get(prop, []) if tier == "thorough" else []) + list(kcfg["bounded"].keys()) \
         + (list(KANI_THOROUGH_BOUNDED.get(prop, {}).keys()) if tier == "thorough" else [])
    known = run.load_known()
    return kanileg.run(run.REPO, hs, want_playback=lambda h: run.match_known(known, prop, "kani:%s/check" % h) is None,
                       timeout=1800 if tier == "quick" else 7200, harness_timeout=None if tier == "quick" else "3600s",
                       jobs=8 if tier == "quick" else 3, mem_kb=None if tier == "quick" else 20 * 1024 * 1024)

def check(prop, tier, args):
    t0 = time.time()
    import concurrent.futures
    pool = concurrent.futures.ThreadPoolExecutor(max_workers=4)
    # Kani leg and the bounded stand-in scenarios are independent of the Verus leg: start them now, join later
    fut_kani = pool.submit(kani_leg, prop, tier)
    fut_scen = pool.submit(bounded_scenarios, prop, 240 if tier == "quick" else 900, tier) if prop in BOUNDED_SCEN else None
    if getattr(args, "replay", None):
        return do_replay(prop, args.replay)
    seed = int(os.environ.get("VERIF_SEED", "0") or 0)
    outdir = os.path.join(WORK, "out", prop)
    shutil.rmtree(outdir, ignore_errors=True)
    os.makedirs(outdir, exist_ok=True)
    os.makedirs(os.path.join(WORK, "evidence"), exist_ok=True)
    evpath = os.path.join(WORK, "evidence", prop + ".json")
    known = run.load_known()
    undecided = []
    failures = []          # dicts with 'oid', 'backend', ...
    ev = {"property_id": prop, "tier": tier, "seed": seed, "level": LEVEL.get(prop, "proof"), "coverage": {}, "assumptions": list(run.TRUSTED)}
    cov = ev["coverage"]
    obligations = 0; discharged = 0
    samples = []
    fn_rows = []
    checker_cmds = []
    bounded_parts = []
    # ------------------------------------------------------------------ Verus leg
    repo = vx.Repo(run.REPO)
    ov = vx.parse_overlay(args.overlay)
    has_verus = any(prop in fs.serves or (vx.DERIVED_FROM.get(prop, set()) & set(fs.serves)) for fs in ov.fns.values())
    unit = None
    if has_verus:
        try:
            unit = vx.generate(repo, ov, prop)
        except vx.LostAnchor as e:
            undecided.append("lost anchor: %s" % e)
        except rslex_error() as e:
            undecided.append("extraction failed: %s" % e)
    if unit is not None:
        upath = os.path.join(outdir, "unit_%s.rs" % prop)
        open(upath, "w").write(unit.text)
        rl = 30 if tier == "quick" else 60
        # the canary run and the Kani leg do not depend on the main run: start them now, join later
        def _canary():
            cunit_ = vx.generate(vx.Repo(run.REPO), ov, prop, canary=True)
            cpath_ = os.path.join(outdir, "canary_%s.rs" % prop)
            open(cpath_, "w").write(cunit_.text)
            return cunit_, run.run_verus(cpath_, cunit_, rlimit=rl, seed=seed)
        fut_canary = pool.submit(_canary)
        r1 = run.run_verus(upath, unit, rlimit=rl, seed=seed)
        checker_cmds.append(r1.cmd)
        undecided += r1.undecided
        fails = r1.failures
        rlim = set(r1.fn_rlimit)
        libfail = list(r1.library_failures)
        def expected(f):
            o = oid(f)
            return any(re.search(rx, o) for rx in NOT_ATTRIBUTED.get(prop, [])) or run.match_known(known, prop, o) is not None
        unexpected = [f for f in fails if not expected(f)]
        if (unexpected or rlim or libfail) and not r1.undecided:
            # second opinion: one z3 process per function (query independent of what was verified before it), 4x resources,
            # another seed. Only failures that persist count; a proof-library failure that persists is UNDECIDED.
            r2 = run.run_verus(upath, unit, rlimit=rl * 4, seed=seed + 7919, spinoff=True)
            checker_cmds.append(r2.cmd)
            undecided += r2.undecided
            k2 = {fkey(f) for f in r2.failures}
            k1 = {fkey(f) for f in fails}
            # a function that ran out of resources in the first run may not have reported all its failing obligations there: for those
            # functions the second run's failures count in full
            fails = [f for f in fails if fkey(f) in k2 or expected(f)] + [f for f in r2.failures if f["fn"] in rlim and fkey(f) not in k1]
            rlim = set(r2.fn_rlimit)
            libfail = list(r2.library_failures)
            r1.fn_time.update(r2.fn_time)
        undecided += libfail
        if tier == "thorough" and not [f for f in fails if not expected(f)] and not rlim and not undecided:
            # stability: two more seeds, and one run with a z3 process per function
            for sd, so in ((seed + 1, False), (seed + 2, False), (seed + 3, True)):
                r3 = run.run_verus(upath, unit, rlimit=rl, seed=sd, spinoff=so)
                checker_cmds.append(r3.cmd)
                bad3 = [run_oid(f) for f in r3.failures if not expected(f)]
                # a proof found once is a proof: what fails only under another seed is reported as instability (maintenance risk), it
                # does not un-prove anything and does not change the exit status
                cov.setdefault("stability_runs", []).append({"seed": sd, "spinoff_all": so, "verified": r3.raw_summary.get("verified"),
                    "not_reproved_under_this_seed": bad3 + sorted(r3.fn_rlimit) + [x[:160] for x in r3.library_failures], "tool_errors": [u[:200] for u in r3.undecided]})
        for q in rlim:
            undecided.append("resource limit exceeded in %s" % q)
        failed_fns = {f["fn"] for f in fails}
        with_req = {i["qname"].split("::")[-1] for i in unit.fn_table.values() if i["has_requires"]} | shim_requires(unit.text)
        for q, info in unit.fn_table.items():
            if info["mode"] != "body": continue
            n = run.obligation_count(info, with_req)
            nf = len([f for f in fails if f["fn"] == q])
            obligations += n
            discharged += max(n - nf, 0) if q not in rlim else 0
            vt = [t for name, t in r1.fn_time.items() if name.split("::")[-len(q.split("::")):] == q.split("::")]
            fn_rows.append({"fn": q, "file": info["file"], "line": info["srcline"], "sha256": info["sha256"][:16],
                            "obligations": n, "failed": nf, "smt_ms": sum(vt) if vt else None, "backend": "z3 via verus"})
        for f in fails:
            f["oid"] = oid(f); f["backend"] = "verus"
            failures.append(f)
        # vacuity guard: every verified function must reach its normal exit
        try:
            cunit, rc_ = fut_canary.result()
        except Exception as e:
            cunit, rc_ = None, None
            if not undecided: undecided.append("canary generation failed: %s" % e)
        if not undecided and rc_ is not None:
            can_ok = 0; can_bad = []
            hit = {f["fn"] for f in rc_.failures if f["kind"] == "assert" and "assert(false)" in f["detail"]}
            cbody = [q for q, info in cunit.fn_table.items() if info["mode"] == "body" and not info["opts"].get("no-canary")]
            out_of_res = set(rc_.fn_rlimit)
            if [q for q in cbody if q not in hit and q not in failed_fns] and not rc_.undecided:
                # a canary that was not reported as failing may simply have run out of resources (the query with assert(false) is a
                # different one, and its cost depends on what z3 did before it): second run, one z3 process per function, 4x resources
                rc2_ = run.run_verus(os.path.join(outdir, "canary_%s.rs" % prop), cunit, rlimit=rl * 4, seed=seed + 7919, spinoff=True)
                checker_cmds.append(rc2_.cmd)
                hit |= {f["fn"] for f in rc2_.failures if f["kind"] == "assert" and "assert(false)" in f["detail"]}
                out_of_res = set(rc2_.fn_rlimit)
                if rc2_.undecided: rc_.undecided.extend(rc2_.undecided)
            for q in cbody:
                if q in hit or q in failed_fns: can_ok += 1
                else: can_bad.append(q)
            cov["canaries_failed_as_required"] = can_ok
            inconcl = [q for q in can_bad if q in out_of_res]
            can_bad = [q for q in can_bad if q not in out_of_res]
            if inconcl:
                undecided.append("vacuity guard inconclusive (resource limit in the canary query, twice) for %s" % inconcl)
            if can_bad and not rc_.undecided:
                undecided.append("vacuity: assert(false) at the normal exit verifies in %s" % can_bad)
            elif rc_.undecided and can_bad:
                undecided.append("canary run undecided: %s" % rc_.undecided[:2])
        cov["extraction"] = {"rules": dict(unit.rules.count), "items": len(unit.extracted),
                             "dropped_cfg_branches": len(unit.dropped_cfg),
                             "stubs_assumed_in_this_run": sorted(q for q, i in unit.fn_table.items() if i["mode"] == "stub")}
        cov["roots"] = unit.roots
    # ------------------------------------------------------------------ Kani leg
    kcfg = KANI.get(prop)
    if kcfg:
        if tier == "thorough":
            kcfg = dict(kcfg); kcfg["complete"] = list(kcfg["complete"]) + KANI_THOROUGH_EXTRA.get(prop, [])
            kcfg["bounded"] = dict(kcfg["bounded"]); kcfg["bounded"].update(KANI_THOROUGH_BOUNDED.get(prop, {}))
        hs = list(kcfg["complete"]) + list(kcfg["bounded"].keys())
        kr = fut_kani.result()
        if kr.get("_undecided"):
            undecided.append("kani: " + kr["_undecided"])
        else:
            checker_cmds.append(kr.get("_cmd", "cargo kani"))
            open(os.path.join(outdir, "kani.log"), "w").write(kr.get("_log", ""))
            for h in hs:
                st = kr.get(h, {"status": "MISSING"})
                bounded = h in kcfg["bounded"]
                nchk = st.get("checks", 1)
                if st["status"] == "SUCCESSFUL":
                    if bounded:
                        bounded_parts.append({"harness": h, "bound": kcfg["bounded"][h], "checks": nchk, "status": "ok"})
                    else:
                        obligations += nchk; discharged += nchk
                    fn_rows.append({"fn": "kani:" + h, "obligations": nchk, "failed": 0, "smt_ms": int(1000 * st.get("time_s", 0)),
                                    "backend": "cbmc via kani" + (" (BOUNDED: %s)" % kcfg["bounded"][h] if bounded else " (complete)")})
                elif st["status"] == "FAILED":
                    if not bounded: obligations += nchk; discharged += nchk - st.get("failed_checks", 1)
                    pb = st.get("playback") or {}
                    wit = None
                    if pb.get("reproduces"):
                        wit = {"counterexample_values": pb.get("values"), "kani_playback_test": pb.get("test"), "module_file": pb.get("module_file"),
                               "real_code_output": pb.get("replay_output"),
                               "how": "CBMC's counterexample, turned by Kani into a #[test] in the (add-only) harness module and run natively against the crate's real code"}
                    failures.append({"fn": "kani:" + h, "kind": "harness", "detail": "; ".join(st.get("failed", []))[:300],
                                     "oid": "kani:%s/check" % h, "backend": "kani", "message": "kani harness FAILED",
                                     "rendered": kani_excerpt(kr.get("_log", ""), h) + ("\n[counterexample extraction: %s]" % pb["error"] if pb.get("error") else ""),
                                     "src": None, "witness": wit, "cost": 0 if bounded else st.get("failed_checks", 1)})
                elif st["status"] == "ABORTED":
                    undecided.append("kani harness %s did not finish (address-space limit / timeout / tool crash; no failed check)" % h)
                else:
                    undecided.append("kani harness %s did not run" % h)
    # ------------------------------------------------------------------ bounded stand-in
    if fut_scen is not None:
        scen_res = fut_scen.result()
        if not scen_res: undecided.append("the replay binary could not be built against the working tree (bounded stand-in scenarios did not run)")
        for r_ in scen_res:
            sc = "abyss-replay " + " ".join(r_["argv"])
            bounded_parts.append({"scenario": sc, "bound": "one concrete history on the real crate (public API)", "status": "ok" if r_["ok"] else "FAILED"})
            if not r_["ok"]:
                failures.append({"fn": "bounded:" + "_".join(r_["argv"]), "kind": "scenario", "detail": "", "oid": "bounded:%s/scenario" % "_".join(r_["argv"]),
                                 "backend": "replay binary on the real crate (BOUNDED stand-in)", "message": "scenario failed on the real code",
                                 "rendered": r_["output"], "src": None, "witness": {"replay_scenario": sc, "real_code_output": r_["output"]}})
    # ------------------------------------------------------------------ classify
    violations = []; knowns = []
    not_attr = []
    keep = []
    for f in failures:
        if any(re.search(rx, f["oid"]) for rx in NOT_ATTRIBUTED.get(prop, [])):
            not_attr.append(f["oid"])
        else:
            keep.append(f)
    failures = keep
    cov["failed_obligations_of_other_properties"] = not_attr
    for f in failures:
        k = run.match_known(known, prop, f["oid"])
        if k: knowns.append((f, k))
        else: violations.append(f)
    lines = []
    for f, k in knowns:
        lines.append("KNOWN-FINDING: property=%s %s — %s [witness: %s]" % (prop, f["oid"], k.get("note", ""), k.get("witness", "")))
    for f in violations:
        os.makedirs(os.path.join(WORK, "out", "replay", prop), exist_ok=True)
        rp = os.path.join(WORK, "out", "replay", prop, sanitize(f["oid"]) + ".json")
        witness = f.get("witness")
        ws = None if witness else witness_search(f["oid"])
        if ws: witness = {"replay_scenario": "abyss-replay " + " ".join(ws[0]), "real_code_output": ws[1]}
        json.dump({"property": prop, "obligation": f["oid"], "backend": f["backend"], "message": f.get("message"),
                   "source": f.get("src"), "verifier_output": f.get("rendered"), "witness": witness,
                   "replay": "./check %s --replay %s" % (prop, rp)}, open(rp, "w"), indent=1)
        lines.append("VIOLATION property=%s replay=%s obligation=%s%s" % (prop, rp, f["oid"], "" if witness else " no-failing-input-found"))
    for u in undecided:
        lines.append("UNDECIDED property=%s %s" % (prop, u[:600]))
    # ------------------------------------------------------------------ evidence
    # obligations that are recorded findings, or that belong to the statement of another property, are reported apart:
    # `obligations` counts what this property claims, so that obligations == discharged exactly when nothing is open
    n_apart = sum(f.get("cost", 1) for f, k in knowns) + len(not_attr)
    cov["obligations_generated"] = obligations
    cov["obligations_reported_apart"] = {"known_findings": [f["oid"] for f, k in knowns], "of_other_properties": not_attr}
    obligations_claimed = max(obligations - n_apart, 0)
    cov["obligations"] = obligations_claimed
    cov["discharged"] = min(discharged, obligations_claimed)
    cov["checker_cmd"] = " ; ".join(checker_cmds) if checker_cmds else "none"
    cov["trusted_base"] = list(run.TRUSTED) + scan_assumptions(unit.text if unit else "")
    cov["functions_under_contract"] = fn_rows
    cov["bounded_parts"] = bounded_parts
    cov["known_findings_reported"] = [f["oid"] for f, k in knowns]
    cov["undecided"] = undecided
    cov["samples"] = [oid_sample(r, ov) for r in sorted(fn_rows, key=lambda r_: -r_["obligations"])[:8]]
    cov["explanation"] = "obligations = postcondition clauses + call-site preconditions + 2 x loop-invariant clauses + termination measures + panic/assert sites of every function verified in this run (syntactic count from the generated unit) + CBMC checks of the complete Kani harnesses; bounded harnesses are listed separately and never counted"
    ev["violations"] = len(violations)
    ev["wall_s"] = round(time.time() - t0, 2)
    if obligations == 0 and not undecided and not [b for b in bounded_parts if b.get("status") == "ok"]:
        undecided.append("no obligations generated"); lines.append("UNDECIDED property=%s no obligations generated" % prop)
    json.dump(ev, open(evpath, "w"), indent=1)
    for l in lines: print(l)
    print("SUMMARY property=%s tier=%s obligations=%d discharged=%d known=%d violations=%d undecided=%d wall=%.1fs" % (
        prop, tier, cov["obligations"], cov["discharged"], len(knowns), len(violations), len(undecided), time.time() - t0))
    if violations: return 1
    if undecided: return 2
    return 0

def run_oid(f): return oid(f)

def rslex_error():
    import rslex
    return rslex.LexError

def oid_sample(r, ov=None):
    d = {"function": r["fn"], "obligations": r["obligations"], "failed": r["failed"], "backend": r["backend"]}
    fs = ov.fns.get(r["fn"]) if ov is not None else None
    if fs is not None:
        d["requires"] = " ".join(fs.requires.split())[:500]
        d["ensures"] = " ".join(fs.ensures.split())[:900]
    return d

def shim_requires(text):
    """names of hand-written (trusted) functions that carry a `requires` — their call sites are obligations"""
    names = set()
    for m in re.finditer(r"pub fn (\w+)\s*(?:<[^>]*>)?\([^{;]*?\)\s*(?:->\s*\([^{]*?\))?\s*requires", text, re.S):
        names.add(m.group(1))
    return names

def scan_assumptions(text):
    """mechanical scan for everything that is assumed rather than proved in the generated unit"""
    out = []
    n_ext = len(re.findall(r"#\[verifier::external_body\]", text))
    n_assume = len(re.findall(r"\bassume\s*\(", text))
    n_admit = len(re.findall(r"\badmit\s*\(", text))
    ax = sorted(set(re.findall(r"#\[verifier::external_body\]\s*pub (?:broadcast )?proof fn (\w+)", text)))
    shims = sorted(set(re.findall(r"#\[verifier::external_body\]\s*pub fn (\w+)", text)))
    out.append("scan: %d external_body items, %d assume(), %d admit()" % (n_ext, n_assume, n_admit))
    if ax: out.append("axioms (external_body proof fns): " + ", ".join(ax))
    if shims: out.append("trusted exec shims / stubs: " + ", ".join(shims))
    return out

def kani_excerpt(log, h):
    i = log.find("Checking harness")
    j = log.find(h)
    return log[max(0, j - 200): j + 2500] if j >= 0 else log[-2500:]
