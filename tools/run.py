#!/usr/bin/env python3
"""check driver: extract -> verus (+ canaries) -> kani -> classify -> evidence.

Exit status: 0 = every obligation discharged (or listed as a known finding), 1 = VIOLATION,
2 = UNDECIDED (lost anchor, unsupported construct, resource limit, tool crash) — never on the
unchanged tree.
"""
import argparse, hashlib, json, os, re, shutil, signal, subprocess, sys, time
HERE = os.path.dirname(os.path.abspath(__file__))
ROOT = os.path.dirname(HERE)
sys.path.insert(0, HERE)
import vx

REPO = os.environ.get("VERIF_REPO", "/repo")
OUT = os.path.join(ROOT, "out")
TRUSTED = [
    "T1 rabuf::BufFile behaves as the flat byte array + cursor of contracts/prelude_base.rs (Appendix B of DESIGN.md); its chunk cache, eviction, unsafe code and Drop are not examined",
    "T2 vu64 encode/decode/encoded_len/decoded_len equal the spec codec (axiom_vu64*) — discharged on the real dependency by Kani unit U0, assumed on the Verus side",
    "T3 std: Vec/slice equality and to_vec, Result::map, write_all/read_exact/stream_position provided methods, to_le_bytes/from_le_bytes",
    "T4 #[derive(PartialEq, PartialOrd)] on the semtype newtypes compares the wrapped integer",
    "T5 64-bit little-endian target",
    "T6 the extraction rewrite rules R1..R14 preserve meaning; Verus, z3, Kani, CBMC are correct",
]

def sh(cmd, cwd=None, timeout=None, env=None):
    e = dict(os.environ)
    if env: e.update(env)
    # own process group, so that a timeout kills the solver processes too
    p = subprocess.Popen(cmd, cwd=cwd, stdout=subprocess.PIPE, stderr=subprocess.PIPE, text=True, env=e, start_new_session=True)
    try:
        so, se = p.communicate(timeout=timeout)
    except subprocess.TimeoutExpired:
        try: os.killpg(p.pid, signal.SIGKILL)
        except ProcessLookupError: pass
        try: p.communicate(timeout=30)
        except Exception: pass
        raise
    return p.returncode, so, se

def strip_noise(s):
    return "\n".join(l for l in s.split("\n") if "auto_activate_base" not in l and not l.startswith("WARNING: overwriting environment"))

# ---------------------------------------------------------------------------------------------
# verus leg

class VerusResult:
    def __init__(self):
        self.fn_ok = {}          # qname -> bool (verified)
        self.fn_time = {}        # qname -> ms
        self.fn_rlimit = set()
        self.failures = []       # dicts: fn, kind, detail, message, gen_line, src, rendered
        self.undecided = []      # strings
        self.library_failures = []   # failures located in the hand-written proof library
        self.raw_summary = {}
        self.total_ms = 0
        self.cmd = ""

def verus_name_to_q(name):
    # "unit::val::ValuePiece::dat_write_piece_one" -> "ValuePiece::dat_write_piece_one"
    parts = name.split("::")
    return parts

def run_verus(path, unit, rlimit=None, seed=None, timeout=1500, spinoff=False):
    cmd = ["verus", path, "--output-json", "--time", "--error-format=json", "--multiple-errors", "8", "--no-report-long-running", "--no-lifetime"]
    if spinoff: cmd += ["-V", "spinoff-all"]      # one z3 process per function: the query no longer depends on what was verified before it
    if rlimit: cmd += ["--rlimit", str(rlimit)]
    if seed is not None: cmd += ["--smt-option", "smt.random_seed=%d" % seed]
    res = VerusResult(); res.cmd = " ".join(cmd)
    try:
        rc, so, se = sh(cmd, cwd=os.path.dirname(path), timeout=timeout)
    except subprocess.TimeoutExpired:
        res.undecided.append("verus timed out after %ds" % timeout); return res
    so = strip_noise(so); se = strip_noise(se)
    try:
        j = json.loads(so[so.index("{"):])
    except Exception:
        res.undecided.append("verus produced no JSON (rc=%d): %s" % (rc, (se or so)[-2000:])); return res
    vr = j.get("verification-results", {})
    res.raw_summary = vr
    res.total_ms = j.get("times-ms", {}).get("total", 0)
    # per-function results
    mods = j.get("times-ms", {}).get("smt", {}).get("smt-run-module-times", [])
    for m in mods:
        for f in m.get("function-breakdown", []):
            res.fn_time[f["function"]] = res.fn_time.get(f["function"], 0) + f.get("time", 0)
            ok = f.get("success", False)
            res.fn_ok[f["function"]] = res.fn_ok.get(f["function"], True) and ok
    # diagnostics
    # rustc spans are BYTE offsets: index the generated text as bytes
    text = unit.text.encode("utf-8")
    line_off = [0]
    for l in text.split(b"\n"): line_off.append(line_off[-1] + len(l) + 1)
    for ln in se.split("\n"):
        ln = ln.strip()
        if not ln.startswith("{"): continue
        try: d = json.loads(ln)
        except Exception: continue
        if d.get("level") not in ("error",): continue
        msg = d.get("message", "")
        if msg.startswith("aborting due to"): continue
        spans = d.get("spans", [])
        prim = [s for s in spans if s.get("is_primary")] or spans
        if not prim:
            res.undecided.append("verus error without span: %s" % msg); continue
        sp = prim[0]
        gl = sp["line_start"]
        fn = vx.fn_at_line(unit, gl)
        kind, detail = classify_msg(msg, d, unit, fn, text, line_off)
        if kind is None:
            res.undecided.append("%s (line %d%s)" % (msg, gl, (", in " + fn) if fn else "")); continue
        if fn is None:
            # failure inside the hand-written prelude (a lemma): a broken proof script, not a code defect
            res.library_failures.append("proof-library failure: %s at generated line %d: %s" % (msg, gl, sp["text"][0]["text"].strip() if sp.get("text") else ""))
            continue
        src = None
        # real source line of the primary span (or of the first secondary span inside the body)
        for s_ in [sp] + [x for x in spans if x is not sp]:
            for L in range(s_["line_start"], s_["line_end"] + 1):
                if L - 1 < len(unit.linemap) and unit.linemap[L - 1]:
                    src = unit.linemap[L - 1]; break
            if src: break
        if kind == "rlimit":
            res.fn_rlimit.add(fn); continue
        res.failures.append({"fn": fn, "kind": kind, "detail": detail, "message": msg, "gen_line": gl,
                             "src": "%s:%d" % src if src else None, "rendered": d.get("rendered", "")})
    if vr.get("encountered-vir-error") or (rc != 0 and not res.failures and not res.fn_rlimit and not vr.get("errors")):
        if not res.undecided:
            res.undecided.append("verus failed without verification diagnostics (rc=%d): %s" % (rc, se[-1500:]))
    return res

def classify_msg(msg, d, unit, fn, text, line_off):
    spans = d.get("spans", [])
    prim = [s for s in spans if s.get("is_primary")] or spans
    sp = prim[0]
    m = msg.lower()
    if "rlimit" in m or "resource limit" in m:
        return "rlimit", ""
    if "postcondition not satisfied" in m:
        # which ensures clause
        k = None
        if fn:
            e0 = unit.marks.get("fn:%s:ensures" % fn)
            if e0: k = sp["line_start"] - e0
        return "post", "#%s" % k if k is not None else ""
    if "precondition not satisfied" in m:
        callee = "?"
        ordinal = 1
        call_txt = sp["text"][0]["text"][sp["text"][0]["highlight_start"] - 1:sp["text"][0]["highlight_end"] - 1] if sp.get("text") else ""
        ids = re.findall(r"([A-Za-z_][A-Za-z0-9_]*)\s*(?:::<[^>]*>)?\s*\(", call_txt)
        if ids: callee = ids[-1] if not call_txt.rstrip().endswith(")") or True else ids[-1]
        # method-call chains: the failing call is the outermost = last identifier before the final '('
        if fn:
            s0 = unit.marks.get("fn:%s:body" % fn, 1)
            a = line_off[s0 - 1]; b = sp["byte_start"]
            rx = re.compile((r"\b%s\s*(?:::<[^>]*>)?\s*\(" % re.escape(callee)).encode())
            ordinal = len(rx.findall(text[a:b])) + 1
            # the failing call itself may start at byte_start with a receiver; count inside the span too
            inner = text[b:sp["byte_end"]]
            pos = [m_.start() for m_ in rx.finditer(inner)]
            if len(pos) > 1: ordinal += len(pos) - 1
        # failed clause text (secondary span)
        clause = ""
        for s_ in spans:
            if s_.get("label") == "failed precondition" and s_.get("text"):
                clause = s_["text"][0]["text"].strip()
        return "pre", "%s#%d%s" % (callee, ordinal, (" [" + clause + "]") if clause else "")
    if "invariant not satisfied" in m:
        when = "entry" if "before loop" in m else "body"
        clause = sp["text"][0]["text"].strip() if sp.get("text") else ""
        return "inv", "%s [%s]" % (when, clause)
    if "assertion failed" in m or "assert" in m and "failed" in m:
        clause = sp["text"][0]["text"].strip() if sp.get("text") else ""
        return "assert", "[%s]" % clause
    if "underflow/overflow" in m or "division by zero" in m or "arithmetic" in m or "bit shift" in m:
        clause = sp["text"][0]["text"].strip() if sp.get("text") else ""
        return "arith", "[%s]" % clause
    if "must have a decreases clause" in m or "decreases clause is required" in m:
        return None, None      # a loop the proof script gives no measure for (e.g. a `for` rewritten as `while`): a gap in the script, UNDECIDED
    if "decreases" in m or "termination" in m:
        return "term", ""
    if "recommendation not met" in m:
        return None, None
    if "index out of bounds" in m or "possible" in m:
        return "safety", "[%s]" % (sp["text"][0]["text"].strip() if sp.get("text") else "")
    return None, None

def q_of_verus_fn(vname, unit):
    """map verus function path to overlay qname"""
    segs = vname.split("::")
    for q in unit.fn_table:
        qs = q.split("::")
        # trait impls keep-trait have verus names like `unit::impl&%3::add`; match by `as=` is impossible -> use last segment + type
        if segs[-len(qs):] == qs:
            return q
    return None

# ---------------------------------------------------------------------------------------------
# known findings

def load_known():
    p = os.path.join(ROOT, "known_findings.json")
    if not os.path.exists(p): return []
    return json.load(open(p)).get("findings", [])

def match_known(known, prop, oid):
    for k in known:
        if k.get("status", "open") != "open": continue
        if prop not in k.get("properties", [k.get("property")]): continue
        if re.search(k["obligation"], oid):
            return k
    return None

# ---------------------------------------------------------------------------------------------

def obligation_count(info, with_req):
    n = info["n_post"] + 2 * info["n_inv"] + info["n_term"] + info["n_vassert"] + info["n_vpanic"]
    n += sum(1 for c in info.get("call_sites", []) if c in with_req)
    return max(n, 1)

def main():
    ap = argparse.ArgumentParser()
    ap.add_argument("prop")
    ap.add_argument("--tier", default=os.environ.get("VERIF_TIER", "quick"))
    ap.add_argument("--replay")
    ap.add_argument("--overlay", default=os.path.join(ROOT, "contracts", "all.vs"))
    ap.add_argument("--keep", action="store_true")
    a = ap.parse_args()
    import props
    sys.exit(props.check(a.prop, a.tier, a))

if __name__ == "__main__":
    main()
