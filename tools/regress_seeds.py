#!/usr/bin/env python3
"""regression over the seeded changes: every seeded/<id>/patch.diff, applied to a scratch copy of /repo's HEAD, must make the check of its
property exit 1 (VIOLATION). Runs N at a time on separate copies (VERIF_REPO / VERIF_WORK), never touches /repo or /verif/evidence.
usage: regress_seeds.py [N=4] [id ...]"""
import os, sys, subprocess, shutil, glob, json, concurrent.futures, re
ROOT = os.path.dirname(os.path.dirname(os.path.abspath(__file__)))
SCR = os.environ.get("REGRESS_SCRATCH", "/root/scratch/reg")
def one(sid):
    prop = sid[:3]
    d = os.path.join(SCR, sid); shutil.rmtree(d, ignore_errors=True); os.makedirs(os.path.join(d, "tree"))
    subprocess.run("git -C /repo archive HEAD | tar -x -C %s/tree" % d, shell=True, check=True)
    r = subprocess.run(["patch", "-p1", "-s", "-i", os.path.join(ROOT, "seeded", sid, "patch.diff")], cwd=os.path.join(d, "tree"))
    if r.returncode != 0: return sid, prop, "PATCH-FAILED", ""
    env = dict(os.environ, VERIF_REPO=os.path.join(d, "tree"), VERIF_WORK=os.path.join(d, "work"))
    p = subprocess.run([os.path.join(ROOT, "check"), prop], cwd=ROOT, env=env, stdout=subprocess.PIPE, stderr=subprocess.STDOUT, text=True)
    lines = [l for l in p.stdout.split("\n") if re.match(r"VIOLATION|UNDECIDED|SUMMARY", l)]
    kinds = sorted(set(("witness" if "no-failing-input-found" not in l else "no-input") + ":" + re.search(r"obligation=(\S+?)[/ ]", l + " ").group(1).split("::")[0][:40] for l in lines if l.startswith("VIOLATION")))
    shutil.rmtree(d, ignore_errors=True)
    return sid, prop, p.returncode, "; ".join(kinds)[:200] + (" | " + [l for l in lines if l.startswith("UNDECIDED")][0][:120] if any(l.startswith("UNDECIDED") for l in lines) else "")
if __name__ == "__main__":
    n = int(sys.argv[1]) if len(sys.argv) > 1 and sys.argv[1].isdigit() else 4
    ids = [a for a in sys.argv[1:] if not a.isdigit()] or sorted(os.path.basename(os.path.dirname(p)) for p in glob.glob(os.path.join(ROOT, "seeded", "C*", "patch.diff")))
    bad = 0
    with concurrent.futures.ThreadPoolExecutor(max_workers=n) as ex:
        for sid, prop, rc, info in ex.map(one, ids):
            print("%-5s %s exit=%s %s" % (sid, prop, rc, info), flush=True)
            if rc != 1: bad += 1
    print("NOT CAUGHT: %d of %d" % (bad, len(ids)))
    sys.exit(1 if bad else 0)
