#!/bin/sh
# usage: tools/harmless.sh <patch.diff>  — a behaviour-preserving change must give exit 0 (or 2 = undecided), never a VIOLATION
P="$1"
cd /repo && git apply "$P" || { echo "patch does not apply"; exit 3; }
cd /verif
AFF=$(python3 tools/affected.py /root/scratch/kx /repo 2>/dev/null | tail -1)
echo "affected: $AFF"
for prop in $AFF; do
  ( ./check $prop > /root/scratch/harmless_$prop.out 2>&1; echo "exit=$?" >> /root/scratch/harmless_$prop.out ) &
  # at most 4 at a time
  while [ $(jobs -r | wc -l) -ge 4 ]; do sleep 2; done
done
wait
for prop in $AFF; do
  grep -v conda /root/scratch/harmless_$prop.out | grep -E "^VIOLATION|^UNDECIDED|^SUMMARY|^exit=" | cut -c1-260; rm -f /root/scratch/harmless_$prop.out
done
git -C /repo checkout -- . ; git -C /repo status --short | head -3
