#!/bin/bash
# usage: tools/harmless.sh <patch.diff>  — a behaviour-preserving change must give exit 0 (or 2 = undecided), never a VIOLATION.
# Runs a covering subset of the affected properties (the same function is verified identically in every unit that contains it).
P="$1"
cd /repo && git apply "$P" || { echo "patch does not apply"; exit 3; }
cd /verif
AFF=$(python3 tools/affected.py /root/scratch/kx /repo 2>/dev/null | tail -1)
SEL=""
for p in C01 C04 C07 C10 C12 C13 C14 C17; do case " $AFF " in *" $p "*) SEL="$SEL $p";; esac; done
echo "affected: $AFF ; running:$SEL"
for prop in $SEL; do
  ( ./check $prop > /root/scratch/harmless_$prop.out 2>&1; echo "exit=$?" >> /root/scratch/harmless_$prop.out ) &
  while [ $(jobs -rp | wc -l) -ge 4 ]; do sleep 2; done
done
wait
for prop in $SEL; do
  grep -v conda /root/scratch/harmless_$prop.out | grep -E "^VIOLATION|^UNDECIDED|^SUMMARY|^exit=" | cut -c1-260; rm -f /root/scratch/harmless_$prop.out
done
git -C /repo checkout -- . ; git -C /repo status --short | head -3
