"""vx — mechanical extraction of real functions from /repo + contract splicing for Verus.

Reads overlay files (contracts/*.vs), copies the named items verbatim from the repository's
working tree, applies the documented rewrite rules (DESIGN.md §2.2; every application is
counted), splices `requires/ensures/invariant/decreases` and proof blocks at structural
anchors, and writes one self-contained Verus input file plus a line map.

Nothing in here decides anything: it only produces text for the verifier and the tables the
classifier needs to name obligations.
"""
import hashlib, json, os, re, sys
from collections import OrderedDict, defaultdict
sys.path.insert(0, os.path.dirname(os.path.abspath(__file__)))
import rslex
from rslex import Tok, lex, text, norm, next_sig, prev_sig, match_close, attr_at

DEFAULT_FEATURES = {"vf_vu64", "rabuf_default", "htx_bitmap", "rabuf_auto_buf_size",
                    "rabuf_overf_rem_all", "rabuf_pin_zero", "rabuf_hash_turbo"}

class LostAnchor(Exception):
    """an item / loop / call / return named by the overlay does not exist (exit 2, never a violation)"""

# ---------------------------------------------------------------------------------------------
# repository index

class Repo:
    def __init__(self, root, features=None):
        self.root = root
        self.cfg = rslex.Cfg(features or DEFAULT_FEATURES)
        self.files = {}

    def load(self, rel):
        if rel not in self.files:
            p = os.path.join(self.root, rel)
            if not os.path.exists(p):
                raise LostAnchor("source file missing: %s" % rel)
            src = open(p).read()
            toks = lex(src)
            items = rslex.index_items(toks, self.cfg, rel)
            self.files[rel] = (src, toks, items)
        return self.files[rel]

    def find(self, rel, kind, impl_pat, name):
        src, toks, items = self.load(rel)
        c = []
        for it in items:
            if it.kind != kind or it.name != name: continue
            if kind == "fn":
                if impl_pat in ("-", ""):
                    if it.impl_header: continue
                else:
                    if norm(impl_pat) != it.impl_header and norm(impl_pat) not in it.impl_header: continue
                    # prefer exact match when several contain the pattern
            c.append(it)
        if kind == "fn" and len(c) > 1:
            exact = [it for it in c if it.impl_header == norm(impl_pat)]
            if len(exact) == 1: c = exact
        if len(c) != 1:
            raise LostAnchor("%s %s | %s | %s: %d candidates" % (kind, rel, impl_pat, name, len(c)))
        return c[0]

# ---------------------------------------------------------------------------------------------
# overlay

class FnSpec:
    def __init__(self):
        self.file = self.impl = self.name = None
        self.serves = []
        self.ret = "r"
        self.opts = {}
        self.requires = ""
        self.ensures = ""
        self.decreases = ""
        self.loops = defaultdict(dict)      # k -> {invariant, decreases, body-start, body-end, before, after}
        self.entry = ""
        self.exit = ""
        self.before_return = {}
        self.after_call = {}                # (name,k) -> text
        self.before_call = {}
        self.lineno = 0
    @property
    def qname(self):
        return self.opts.get("as") or ((self.type_name() + "::" if self.impl not in ("-", "") else "") + self.name)
    def type_name(self):
        h = self.impl
        m = re.search(r"\bfor\s+(.*)$", h)
        t = m.group(1) if m else re.sub(r"^impl(<[^>]*>)?\s*", "", h)
        return re.sub(r"<.*$", "", t).strip()

class Overlay:
    def __init__(self):
        self.parts = []     # ('raw', text, origin) | ('type', file, name, opts) | ('fn', FnSpec)
        self.fns = OrderedDict()

def parse_overlay(path, ov=None):
    ov = ov or Overlay()
    base = os.path.dirname(path)
    lines = open(path).read().split("\n")
    i = 0
    cur = None      # current FnSpec
    field = None    # (obj, key) receiving text lines
    def setfield(obj, key, sub=None):
        nonlocal field
        field = (obj, key, sub)
    def addline(s):
        obj, key, sub = field
        if sub is None:
            setattr(obj, key, getattr(obj, key) + s + "\n")
        else:
            d = getattr(obj, key)
            if isinstance(sub, tuple) and sub[0] == "loop":
                d[sub[1]][sub[2]] = d[sub[1]].get(sub[2], "") + s + "\n"
            else:
                d[sub] = d.get(sub, "") + s + "\n"
    raw = None
    raw_root = False
    while i < len(lines):
        ln = lines[i]; i += 1
        if raw is not None:
            if ln.strip() == "@end":
                ov.parts.append(("rawroot" if raw_root else "raw", "\n".join(raw) + "\n", "%s:%d" % (path, i))); raw = None
            else:
                raw.append(ln)
            continue
        if not ln.startswith("@"):
            if cur is not None and field is not None:
                addline(ln)
            elif ln.strip() and not ln.strip().startswith("#"):
                raise SystemExit("%s:%d: text outside a stanza: %r" % (path, i, ln))
            continue
        w = ln.split()
        d = w[0]
        if d == "@include":
            p = os.path.join(base, w[1])
            if p.endswith(".vs"):
                parse_overlay(p, ov)
            else:
                ov.parts.append(("raw", open(p).read(), p))
        elif d == "@raw":
            raw = []
            raw_root = (len(w) > 1 and w[1] == "root")
        elif d == "@mod":
            ov.parts.append(("modopen", w[1]))
        elif d == "@endmod":
            ov.parts.append(("modclose",))
        elif d == "@type":
            a = [x.strip() for x in ln[len("@type"):].split("|")]
            ov.parts.append(("type", a[0], a[1], a[2] if len(a) > 2 else ""))
        elif d == "@fn":
            a = [x.strip() for x in ln[len("@fn"):].split("|")]
            cur = FnSpec(); cur.file, cur.impl, cur.name = a[0], a[1], a[2]; cur.lineno = i
            cur.ovfile = path
            field = None
        elif d == "@end":
            if cur is None: raise SystemExit("%s:%d: stray @end" % (path, i))
            if cur.qname in ov.fns: raise SystemExit("%s:%d: duplicate stanza %s" % (path, i, cur.qname))
            ov.fns[cur.qname] = cur
            ov.parts.append(("fn", cur))
            cur = None; field = None
        elif cur is None:
            raise SystemExit("%s:%d: directive outside @fn: %s" % (path, i, ln))
        elif d == "@serves":
            cur.serves = w[1:]; field = None
        elif d == "@ret":
            cur.ret = w[1]; field = None
        elif d == "@refusal-implies":
            # every intended refusal (allow-listed assert! turned into `if !(c) { vabort() }`) must prove this first:
            # the function may refuse only inputs for which EXPR holds (e.g. "the signatures do not match")
            cur.opts["refusal_implies"] = ln[len("@refusal-implies"):].strip(); field = None
        elif d == "@opts":
            for o in w[1:]:
                k, _, v = o.partition("=")
                cur.opts[k] = v or True
            field = None
        elif d in ("@requires", "@ensures", "@decreases", "@entry", "@exit"):
            setfield(cur, d[1:])
        elif d == "@loop":
            setfield(cur, "loops", ("loop", int(w[1]), w[2]))
        elif d == "@before-return":
            setfield(cur, "before_return", int(w[1]))
        elif d == "@after-call":
            setfield(cur, "after_call", (w[1], int(w[2]) if len(w) > 2 else 1))
        elif d == "@before-call":
            setfield(cur, "before_call", (w[1], int(w[2]) if len(w) > 2 else 1))
        else:
            raise SystemExit("%s:%d: unknown directive %s" % (path, i, d))
    if cur is not None or raw is not None:
        raise SystemExit("%s: unterminated stanza" % path)
    return ov

# ---------------------------------------------------------------------------------------------
# rewriting

def gen(s):
    return Tok("gen", s, None, None)

class Rules:
    def __init__(self):
        self.count = defaultdict(int)
    def hit(self, r, n=1):
        self.count[r] += n

def split_args(toks):
    """split a token list at depth-0 commas"""
    args, cur, depth = [], [], 0
    for t in toks:
        if t.kind == "punct":
            if t.text in rslex.OPEN: depth += 1
            elif t.text in rslex.CLOSE: depth -= 1
            elif t.text == "," and depth == 0:
                args.append(cur); cur = []; continue
        cur.append(t)
    if any(x.kind not in ("ws", "comment") for x in cur):
        args.append(cur)
    return args

KEEP_DERIVES = ("Clone", "Copy", "PartialEq", "Eq", "PartialOrd", "Ord", "Default")
DROP_ATTRS = ("inline", "cold", "allow", "rustfmt", "doc", "must_use")

def is_sig(t):
    return t.kind not in ("ws", "comment")

def rewrite(toks, rules, opts, panic_counter):
    """Apply the global rewrite rules to a token list; returns a new token list."""
    # pass 0: comments
    out = []
    for t in toks:
        if t.kind == "comment":
            rules.hit("R2.comment"); continue
        out.append(t)
    toks = out
    # pass 1: attributes
    out = []; i = 0
    while i < len(toks):
        t = toks[i]
        a = attr_at(toks, i) if (t.kind == "punct" and t.text == "#") else None
        if a:
            end, name, inner = a
            if name in DROP_ATTRS:
                rules.hit("R2.attr"); i = end; continue
            if name == "derive":
                names = [x.text for x in inner[2:-1] if x.kind == "ident"]
                keep = [x for x in names if x in KEEP_DERIVES]
                if len(keep) != len(names): rules.hit("R2.derive")
                if keep:
                    out.append(gen("#[derive(%s)]" % ", ".join(keep)))
                i = end; continue
        out.append(t); i += 1
    toks = out
    # pass 2: macros, _cold, PhantomData<fn() -> T>, pub(crate), RefCell / Rc idioms
    refusal = bool(opts.get("refusal"))
    out = []; i = 0
    n = len(toks)
    while i < n:
        t = toks[i]
        if t.kind == "ident":
            j = next_sig(toks, i + 1)
            nxt = toks[j] if j < n else None
            # macros
            if nxt is not None and nxt.text == "!" and t.text in (
                    "assert", "debug_assert", "panic", "unimplemented", "unreachable", "format", "eprintln", "assert_eq", "debug_assert_eq"):
                k = next_sig(toks, j + 1)
                if toks[k].text in ("(", "[", "{"):
                    e = match_close(toks, k)
                    args = split_args(toks[k + 1:e])
                    if t.text in ("assert", "debug_assert"):
                        cond = rewrite(args[0], rules, opts, panic_counter)
                        ctext = text(cond).strip()
                        if refusal and t.text == "assert":
                            ri = opts.get("refusal_implies")
                            out.append(gen("if !(%s) { %svabort() }" % (ctext, ("proof { assert(%s); } " % ri) if ri else ""))); rules.hit("R5.refusal")
                        else:
                            out.append(gen("vassert(%s)" % ctext)); rules.hit("R5.assert")
                    elif t.text in ("panic", "unimplemented", "unreachable"):
                        out.append(gen("vpanic()")); rules.hit("R5.panic")
                    elif t.text == "format":
                        out.append(gen("vformat()")); rules.hit("R10.format")
                    elif t.text == "eprintln":
                        out.append(gen("()")); rules.hit("R10.eprintln")
                    else:
                        raise LostAnchor("unsupported macro %s!" % t.text)
                    i = e + 1; continue
            # std::io::Error::new(ErrorKind::Other, M) -> io_error_other(M)   (R10)
            if t.text == "std" and text(toks[i:i + 40]).replace(" ", "").startswith("std::io::Error::new("):
                k = i
                while toks[k].text != "(": k += 1
                e = match_close(toks, k)
                args = split_args(toks[k + 1:e])
                if len(args) == 2 and "ErrorKind::Other" in text(args[0]):
                    msg = text(rewrite(args[1], rules, opts, panic_counter)).strip()
                    out.append(gen("io_error_other(%s)" % msg)); rules.hit("R10.ioerror"); i = e + 1; continue
            # R16: `for X in A {` over a fixed-size array A (by value, elements in index order) -> explicit index loop (opt-in `forarray`)
            if t.text == "for" and opts.get("forarray") and nxt is not None and nxt.kind == "ident":
                j2 = next_sig(toks, j + 1)
                j3 = next_sig(toks, j2 + 1) if j2 < n else n
                j4 = next_sig(toks, j3 + 1) if j3 < n else n
                if j4 < n and toks[j2].text == "in" and toks[j3].kind == "ident" and toks[j4].text == "{":
                    pat = nxt.text; arr = toks[j3].text
                    out.extend(lex("let mut i__%s: usize = 0; while i__%s < %s.len() { let %s = %s[i__%s]; i__%s = i__%s + 1;" % (pat, pat, arr, pat, arr, pat, pat, pat)))
                    rules.hit("R16.forarray"); i = j4 + 1; continue
            # _cold();
            if t.text == "_cold" and nxt is not None and nxt.text == "(":
                e = match_close(toks, j)
                k = next_sig(toks, e + 1)
                if toks[k].text == ";":
                    rules.hit("R6"); i = k + 1; continue
            # PhantomData<fn() -> T>
            if t.text == "PhantomData" and nxt is not None and nxt.text == "<":
                k = next_sig(toks, j + 1)
                if toks[k].text == "fn":
                    # fn ( ) - > T >
                    k2 = next_sig(toks, k + 1)      # (
                    k3 = match_close(toks, k2)
                    k4 = next_sig(toks, k3 + 1)     # -
                    k5 = next_sig(toks, k4 + 1)     # >
                    k6 = next_sig(toks, k5 + 1)     # T ...
                    out.append(t); out.append(toks[j])
                    rules.hit("R3"); i = k6; continue
            # pub(crate) / pub(super)
            if t.text == "pub" and nxt is not None and nxt.text == "(":
                e = match_close(toks, j)
                inner = [x.text for x in toks[j + 1:e] if is_sig(x)]
                if inner and inner[0] in ("crate", "super", "in"):
                    out.append(t); rules.hit("R4.pubcrate"); i = e + 1; continue
            # RefCell::borrow_mut(&X) / RefCell::borrow(&X)
            if t.text == "RefCell" and nxt is not None and nxt.text == ":":
                k = next_sig(toks, j + 1)          # second ':'
                k = next_sig(toks, k + 1)          # method
                if toks[k].kind == "ident" and toks[k].text in ("borrow_mut", "borrow"):
                    p = next_sig(toks, k + 1)
                    if toks[p].text == "(":
                        e = match_close(toks, p)
                        inner = toks[p + 1:e]
                        s = next_sig(inner, 0)
                        if inner[s].text == "&":
                            body = rewrite(inner[s + 1:], rules, opts, panic_counter)
                            out.append(gen("(&mut %s)" % text(body).strip()))
                            rules.hit("R7.borrow"); i = e + 1; continue
                if toks[k].kind == "ident" and toks[k].text == "new":
                    p = next_sig(toks, k + 1)
                    e = match_close(toks, p)
                    body = rewrite(toks[p + 1:e], rules, opts, panic_counter)
                    out.append(gen("(%s)" % text(body).strip()))
                    rules.hit("R7.new"); i = e + 1; continue
            # Rc::new(X) -> (X)
            if t.text == "Rc" and nxt is not None and nxt.text == ":":
                k = next_sig(toks, j + 1)
                k = next_sig(toks, k + 1)
                if toks[k].kind == "ident" and toks[k].text == "new":
                    p = next_sig(toks, k + 1)
                    e = match_close(toks, p)
                    body = rewrite(toks[p + 1:e], rules, opts, panic_counter)
                    out.append(gen("(%s)" % text(body).strip()))
                    rules.hit("R7.new"); i = e + 1; continue
            # Rc<RefCell<X>> -> X   (type position)
            if t.text == "Rc" and nxt is not None and nxt.text == "<":
                k = next_sig(toks, j + 1)
                if toks[k].text == "RefCell":
                    k2 = next_sig(toks, k + 1)      # '<'
                    depth = 0; p = k2
                    while True:
                        if toks[p].text == "<": depth += 1
                        elif toks[p].text == ">": depth -= 1
                        if depth == 0: break
                        p += 1
                    inner = toks[k2 + 1:p]
                    p2 = next_sig(toks, p + 1)      # closing '>' of Rc
                    out.extend(rewrite(inner, rules, opts, panic_counter))
                    rules.hit("R7.type"); i = p2 + 1; continue
        # R14b: X.map(|pat| body) on an Option receiver (opts mapopt) -> match X { Some(pat) => Some(body), None => None }
        if t.kind == "punct" and t.text == "." and opts.get("mapopt"):
            j = next_sig(toks, i + 1)
            if j < n and toks[j].kind == "ident" and toks[j].text == "map":
                p = next_sig(toks, j + 1)
                if toks[p].text == "(":
                    e = match_close(toks, p)
                    q = next_sig(toks, p + 1)
                    if toks[q].text == "|":
                        q2 = q + 1
                        while toks[q2].text != "|": q2 += 1
                        pat = text(toks[q + 1:q2]).strip()
                        cbody = text(rewrite(toks[q2 + 1:e], rules, opts, panic_counter)).strip()
                        r = recv_start(out)
                        recv = text(out[r:]).strip()
                        del out[r:]
                        out.append(gen("(match %s { Some(%s) => Some(%s), None => None })" % (recv, pat, cbody)))
                        rules.hit("R14.mapopt"); i = e + 1; continue
        # R14: X.map(|pat| body) on a Result receiver (opts mapres) -> match X { Ok(pat) => Ok(body), Err(e__) => Err(e__) }
        if t.kind == "punct" and t.text == "." and opts.get("mapres"):
            j = next_sig(toks, i + 1)
            if j < n and toks[j].kind == "ident" and toks[j].text == "map":
                p = next_sig(toks, j + 1)
                if toks[p].text == "(":
                    e = match_close(toks, p)
                    q = next_sig(toks, p + 1)
                    if toks[q].kind == "ident" and toks[q].text == "Some" and next_sig(toks, q + 1) == e:
                        # datatype constructor as a function value: X.map(Some)
                        r = recv_start(out)
                        recv = text(out[r:]).strip()
                        del out[r:]
                        out.append(gen("(match %s { Ok(v__) => Ok(Some(v__)), Err(e__) => Err(e__) })" % recv))
                        rules.hit("R14.mapres"); i = e + 1; continue
                    if toks[q].text == "|":
                        q2 = q + 1
                        while toks[q2].text != "|": q2 += 1
                        pat = text(toks[q + 1:q2]).strip()
                        cbody = text(rewrite(toks[q2 + 1:e], rules, opts, panic_counter)).strip()
                        r = recv_start(out)
                        recv = text(out[r:]).strip()
                        del out[r:]
                        out.append(gen("(match %s { Ok(%s) => Ok(%s), Err(e__) => Err(e__) })" % (recv, pat, cbody)))
                        rules.hit("R14.mapres"); i = e + 1; continue
        # X.borrow_mut() / X.borrow()  -> (&mut X)
        if t.kind == "punct" and t.text == ".":
            j = next_sig(toks, i + 1)
            if j < n and toks[j].kind == "ident" and toks[j].text in ("borrow_mut", "borrow"):
                p = next_sig(toks, j + 1)
                if toks[p].text == "(" and next_sig(toks, p + 1) == match_close(toks, p):
                    # receiver: walk back over `ident`/`num`/`.` in out
                    r = len(out)
                    while r > 0 and (out[r - 1].kind in ("ident", "num") or (out[r - 1].kind == "punct" and out[r - 1].text == ".")):
                        r -= 1
                    recv = text(out[r:])
                    del out[r:]
                    out.append(gen("(&mut %s)" % recv))
                    rules.hit("R7.borrow"); i = match_close(toks, p) + 1; continue
        out.append(t); i += 1
    return out

def recv_start(out):
    """index in `out` where the postfix-expression ending at out[-1] starts (receiver of a method call)."""
    k = len(out)
    def prev(k):
        k -= 1
        while k >= 0 and out[k].kind in ("ws", "comment"): k -= 1
        return k
    def match_open(k):
        depth = 0
        while k >= 0:
            t = out[k]
            if t.kind == "punct":
                if t.text in rslex.CLOSE: depth += 1
                elif t.text in rslex.OPEN:
                    depth -= 1
                    if depth == 0: return k
            elif t.kind == "gen" and depth == 0 and k != None:
                pass
            k -= 1
        raise LostAnchor("unbalanced receiver")
    j = prev(k)
    start = j
    while True:
        t = out[j]
        if t.kind == "gen":
            start = j
        elif t.kind == "punct" and t.text in (")", "]"):
            j = match_open(j); start = j
            pj = prev(j)
            if pj >= 0 and out[pj].kind == "ident" and out[pj].text not in ("if", "while", "match", "return", "in"):
                j = pj; start = j
            elif pj >= 0 and out[pj].text == ">":
                # turbofish ::<...>
                d = 0
                while True:
                    if out[pj].text == ">": d += 1
                    elif out[pj].text == "<": d -= 1
                    if d == 0: break
                    pj -= 1
                pj = prev(pj); pj = prev(pj)      # '::'
                pj = prev(pj)                     # ident
                j = pj; start = j
        elif t.kind == "punct" and t.text == "?":
            j = prev(j); continue
        elif t.kind in ("ident", "num"):
            start = j
        else:
            raise LostAnchor("cannot find receiver")
        pj = prev(j)
        if pj >= 0 and out[pj].kind == "punct" and out[pj].text == ".":
            j = prev(pj); continue
        if pj >= 1 and out[pj].text == ":" and out[prev(pj)].text == ":":
            j = prev(prev(pj)); continue
        return start

def add_pub_fields(toks, rules):
    """R4: make struct fields pub (toks = a struct item)."""
    out = list(toks)
    # find body
    i = 0
    while i < len(out) and not (out[i].kind == "punct" and out[i].text in ("{", "(", ";")): i += 1
    if i >= len(out) or out[i].text == ";": return out
    e = match_close(out, i)
    res = out[:i + 1]
    k = i + 1
    expect_field = True
    depth = 0
    while k < e:
        t = out[k]
        if expect_field and is_sig(t):
            a = attr_at(out, k) if t.text == "#" else None
            if a:
                res.extend(out[k:a[0]]); k = a[0]; continue
            if not (t.kind == "ident" and t.text == "pub"):
                res.append(gen("pub ")); rules.hit("R4.field")
            expect_field = False
        if t.kind == "punct":
            if t.text in rslex.OPEN or t.text == "<": depth += 1
            elif t.text in rslex.CLOSE or t.text == ">": depth -= 1
            elif t.text == "," and depth == 0: expect_field = True
        res.append(t); k += 1
    res.extend(out[e:])
    return res

# ---------------------------------------------------------------------------------------------
# structural anchors inside a function body

def find_loops(toks, lo, hi):
    """indices of `while`/`for`/`loop` keywords in toks[lo:hi] in source order, each with (kw, open_brace, close_brace)."""
    res = []
    i = lo
    while i < hi:
        t = toks[i]
        if t.kind == "ident" and t.text in ("while", "for", "loop"):
            # `for` in `impl X for Y` cannot occur inside a body; `for<'a>` HRTB neither in our set
            k = i + 1
            while toks[k].text != "{":
                if toks[k].kind == "punct" and toks[k].text in ("(", "["): k = match_close(toks, k)
                k += 1
            res.append((i, k, match_close(toks, k)))
        i += 1
    return res

def find_returns(toks, lo, hi):
    return [i for i in range(lo, hi) if toks[i].kind == "ident" and toks[i].text == "return"]

def find_calls(toks, lo, hi, name):
    res = []
    names = set(name.split("|"))        # alternatives: `a|b` matches a call to either
    for i in range(lo, hi):
        if toks[i].kind == "ident" and toks[i].text in names:
            j = next_sig(toks, i + 1)
            if toks[j].text == "(" or (toks[j].text == ":" and toks[next_sig(toks, j + 1)].text == ":"):
                res.append(i)
    return res

def stmt_end_after(toks, i, hi):
    """index just after the `;` ending the statement that contains token i (first `;` at relative depth 0)."""
    depth = 0; k = i
    while k < hi:
        t = toks[k]
        if t.kind == "punct":
            if t.text == "{" and depth == 0:
                # the call is in the head of an `if` / `if let` / `while` / `match`: the first position after it is the block start
                return k + 1
            if t.text in rslex.OPEN: depth += 1
            elif t.text in rslex.CLOSE:
                depth -= 1
                if depth < 0:
                    e_ = LostAnchor("call is in tail position; no statement end"); e_.tail_end = k; raise e_
            elif t.text == ";" and depth == 0:
                return k + 1
        k += 1
    e_ = LostAnchor("no statement end"); e_.tail_end = hi; raise e_

def stmt_start_before(toks, i, lo):
    """index of the first token of the statement containing token i (after previous `;`, `{` or `}` at relative depth 0)."""
    depth = 0; k = i - 1
    while k >= lo:
        t = toks[k]
        if t.kind == "punct":
            if t.text == "}" and depth == 0:
                # a block statement (if / while / match ... {}) that ended before this statement
                return next_sig(toks, k + 1)
            if t.text in rslex.CLOSE: depth += 1
            elif t.text in rslex.OPEN:
                if depth == 0: return next_sig(toks, k + 1)
                depth -= 1
            elif t.text == ";" and depth == 0:
                return next_sig(toks, k + 1)
        k -= 1
    return lo

# ---------------------------------------------------------------------------------------------
# generation

def indent(s, n=4):
    pad = " " * n
    return "".join(pad + l + "\n" if l.strip() else "\n" for l in s.rstrip("\n").split("\n")) if s.strip() else ""

def clauses(s):
    """count comma-separated top-level clauses of a requires/ensures/invariant block (for obligation counting)."""
    toks = lex(s)
    return len(split_args(toks))

class Unit:
    def __init__(self):
        self.roots = []
        self.text = ""
        self.fn_table = OrderedDict()   # qname -> info
        self.linemap = []               # generated line (1-based index-1) -> (file, srcline) or None
        self.rules = Rules()
        self.extracted = []             # (kind, file, name, sha256, srcline)
        self.dropped_cfg = []

class Emitter:
    def __init__(self):
        self.chunks = []    # (text, origin)  origin = None | (file, offset->line function)
        self.marks = {}     # label -> chunk index
    def raw(self, s):
        self.chunks.append((s, None))
    def toks(self, toks, file, src):
        for t in toks:
            if t.start is None:
                self.chunks.append((t.text, None))
            else:
                self.chunks.append((t.text, (file, src.count("\n", 0, t.start) + 1)))
    def mark(self, label):
        self.marks[label] = len(self.chunks)
    def finish(self):
        out = []; linemap = [None]; marks_line = {}
        line = 1
        inv = defaultdict(list)
        for k, v in self.marks.items(): inv[v].append(k)
        for idx, (s, org) in enumerate(self.chunks):
            for k in inv.get(idx, []): marks_line[k] = line
            if org is not None and s.strip() and linemap[line - 1] is None:
                linemap[line - 1] = org
            nl = s.count("\n")
            out.append(s)
            for _ in range(nl):
                linemap.append(None); line += 1
        for k in inv.get(len(self.chunks), []): marks_line[k] = line
        return "".join(out), linemap, marks_line

def gen_fn(repo, fs, unit, em, mode, canary=False):
    """emit one function. mode: 'body' (verify) | 'stub' (external_body, contract assumed in this unit)"""
    it = repo.find(fs.file, "fn", fs.impl, fs.name)
    src, ftoks, _ = repo.load(fs.file)
    raw_text = text(ftoks[it.start:it.end])
    sha = hashlib.sha256(raw_text.encode()).hexdigest()
    unit.extracted.append(("fn", fs.file, fs.qname, sha, it.line(src)))
    # 1. cfg resolution on the item
    ndrop = len(repo.cfg.dropped)
    toks = rslex.resolve_cfg(ftoks[it.start:it.end], repo.cfg, "%s:%s" % (fs.file, fs.qname))
    unit.rules.hit("R1.cfg", len(repo.cfg.dropped) - ndrop)
    # 2. rewrite
    toks = rewrite(toks, unit.rules, fs.opts, None)
    # locate signature / body
    bo = None
    k = 0
    while k < len(toks):
        t = toks[k]
        if t.kind == "punct" and t.text in ("(", "["): k = match_close(toks, k) + 1; continue
        if t.kind == "punct" and t.text == "{": bo = k; break
        k += 1
    if bo is None: raise LostAnchor("%s: no body" % fs.qname)
    be = match_close(toks, bo)
    sig_t = toks[:bo]
    body = toks[bo + 1:be]
    # signature: visibility, &self -> &mut self, named return
    sig_txt = text(sig_t).rstrip()
    keep_trait = bool(fs.opts.get("keep-trait"))
    sig_txt = re.sub(r"^\s*(pub\s+)?", "" if keep_trait else "pub ", sig_txt, count=1)
    if keep_trait is False and not sig_txt.startswith("pub "): sig_txt = "pub " + sig_txt
    if fs.opts.get("mutparam"):
        for pn in str(fs.opts["mutparam"]).split(","):
            new = re.sub(r"([(,]\s*)%s\s*:" % re.escape(pn), r"\1mut %s:" % pn, sig_txt, count=1)
            if new == sig_txt: raise LostAnchor("%s: mutparam %s not found" % (fs.qname, pn))
            sig_txt = new; unit.rules.hit("R7.mutparam")
    if fs.opts.get("mutself"):
        new = re.sub(r"\(\s*&\s*self\b", "(&mut self", sig_txt, count=1)
        if new == sig_txt: raise LostAnchor("%s: mutself but no &self receiver" % fs.qname)
        sig_txt = new; unit.rules.hit("R7.mutself")
    # return type
    m = None
    depth = 0; arrow = None
    st = lex(sig_txt)
    # find param list close
    p = 0
    while st[p].text != "fn": p += 1
    p = next_sig(st, p + 1)     # name
    p = next_sig(st, p + 1)
    if st[p].text == "<":
        d = 0
        while True:
            if st[p].text == "<": d += 1
            elif st[p].text == ">" and st[prev_sig(st, p - 1)].text != "-": d -= 1
            if d == 0: break
            p += 1
        p = next_sig(st, p + 1)
    if st[p].text != "(": raise LostAnchor("%s: cannot parse signature" % fs.qname)
    pc = match_close(st, p)
    params_txt = text(st[p + 1:pc])
    q = next_sig(st, pc + 1)
    has_ret = q < len(st) and st[q].text == "-"
    if has_ret:
        q2 = next_sig(st, q + 1)     # '>'
        rt = text(st[q2 + 1:]).strip()
        sig_txt = text(st[:q]) + "-> (%s: %s)" % (fs.ret, rt)
        ret_type = rt
    else:
        ret_type = None
    # 3. anchors in body
    ins = defaultdict(list)   # token index in body -> list of text to insert BEFORE that token
    def ins_before(idx, s): ins[idx].append(s)
    loops = find_loops(body, 0, len(body))
    nobl = 0
    for k_, ld in fs.loops.items():
        if k_ < 1 or k_ > len(loops):
            raise LostAnchor("%s: loop#%d does not exist (%d loops)" % (fs.qname, k_, len(loops)))
        kw, lo_, lc_ = loops[k_ - 1]
        spec = ""
        if ld.get("invariant"):
            spec += "\n    invariant\n" + indent(ld["invariant"], 8)
            nobl += 2 * clauses(ld["invariant"])
        if ld.get("decreases"):
            spec += "    decreases " + ld["decreases"].strip() + "\n"
            nobl += 1
        if spec: ins_before(lo_, spec)
        if ld.get("body-start"): ins_before(lo_ + 1, "\n" + ld["body-start"])
        if ld.get("body-end"): ins_before(lc_, ld["body-end"])
        if ld.get("before"): ins_before(stmt_start_before(body, kw, 0), ld["before"])
        if ld.get("after"): ins_before(lc_ + 1, "\n" + ld["after"])
    rets = find_returns(body, 0, len(body))
    for k_, s in fs.before_return.items():
        if k_ < 1 or k_ > len(rets): raise LostAnchor("%s: return#%d does not exist" % (fs.qname, k_))
        ins_before(stmt_start_before(body, rets[k_ - 1], 0), s)
    tail_wraps = []
    for (nm, k_), s in fs.after_call.items():
        cs = find_calls(body, 0, len(body), nm)
        if k_ < 1 or k_ > len(cs): raise LostAnchor("%s: call %s#%d does not exist" % (fs.qname, nm, k_))
        try:
            ins_before(stmt_end_after(body, cs[k_ - 1], len(body)), "\n" + s)
        except LostAnchor as e_:
            # the call is the tail expression of its block: bind the value, run the proof block, yield the value (rule wrap.tail)
            te = getattr(e_, "tail_end", None)
            if te is None: raise
            st_ = stmt_start_before(body, cs[k_ - 1], 0)
            nm_ = "r__t%d" % (len(tail_wraps) + 1)
            tail_wraps.append((st_, te, nm_, s))
            unit.rules.hit("wrap.tail")
    for (nm, k_), s in fs.before_call.items():
        cs = find_calls(body, 0, len(body), nm)
        if k_ < 1 or k_ > len(cs): raise LostAnchor("%s: call %s#%d does not exist" % (fs.qname, nm, k_))
        ins_before(stmt_start_before(body, cs[k_ - 1], 0), s)
    for st_, te, nm_, s in tail_wraps:
        ins[st_].append("let %s = " % nm_)                       # last at that position: directly in front of the expression
        ins[te].insert(0, ";\n" + s + "\n" + nm_ + "\n")          # first at the block end
    # 4. emit
    info = {"qname": fs.qname, "file": fs.file, "srcline": it.line(src), "sha256": sha, "mode": mode,
            "serves": fs.serves, "opts": dict(fs.opts)}
    header = fs.impl
    if header not in ("-", ""):
        h = it.impl_header
        if not keep_trait:
            m_ = re.match(r"^(impl(?:<.*?>)?)\s+(.*?)\s+for\s+(.*)$", h)
            if m_:
                h = "%s %s" % (m_.group(1), m_.group(3)); unit.rules.hit("R9.rehome")
        em.raw(h + " {\n")
        if keep_trait:
            # copy non-fn items of the impl block (associated types/consts)
            imp = it.impl_item
            inner = imp.toks[imp.body_open + 1:imp.end - 1]
            # drop fn items
            _src, _t, items = repo.load(fs.file)
            fnr = [(x.attrs_start, x.end) for x in items if x.kind == "fn" and x.impl_item is imp]
            keep = []
            for idx in range(imp.body_open + 1, imp.end - 1):
                if any(a <= idx < b for a, b in fnr): continue
                keep.append(imp.toks[idx])
            kt = rewrite(rslex.resolve_cfg(keep, repo.cfg, fs.file), unit.rules, {}, None)
            if text(kt).strip(): em.raw("    " + text(kt).strip() + "\n")
    if mode == "stub":
        em.raw("#[verifier::external_body]\n")
    if fs.opts.get("rlimit"):
        em.raw("#[verifier::rlimit(%s)]\n" % fs.opts["rlimit"])
    if n_loops_total(body) > 0 and not fs.opts.get("iso") and mode != "stub":
        em.raw("#[verifier::loop_isolation(false)]\n")
    if fs.opts.get("spinoff"):
        em.raw("#[verifier::spinoff_prover]\n")
    em.mark("fn:%s:start" % fs.qname)
    em.raw(sig_txt + "\n")
    if fs.requires.strip():
        em.mark("fn:%s:requires" % fs.qname)
        em.raw("    requires\n" + indent(fs.requires, 8))
    if fs.ensures.strip():
        em.mark("fn:%s:ensures" % fs.qname)
        em.raw("    ensures\n" + indent(fs.ensures, 8))
        nobl += clauses(fs.ensures)
    if fs.decreases.strip():
        em.raw("    decreases " + fs.decreases.strip() + "\n")
    em.raw("{\n")
    wrap = bool(fs.exit.strip()) or canary
    if fs.entry.strip():
        em.raw(fs.entry)
    if wrap:
        unit.rules.hit("wrap.exit")
        em.raw("let r__ = {\n")
    em.mark("fn:%s:body" % fs.qname)
    # body tokens with insertions
    for idx, t in enumerate(body):
        for s in ins.get(idx, []): em.raw(s)
        em.toks([t], fs.file, src)
    for s in ins.get(len(body), []): em.raw(s)
    if wrap:
        em.raw("\n};\n")
        if fs.exit.strip(): em.raw(fs.exit)
        if canary:
            em.mark("fn:%s:canary" % fs.qname)
            em.raw("proof { assert(false); } // canary: must FAIL\n")
        em.raw("r__\n")
    em.raw("}\n")
    em.mark("fn:%s:end" % fs.qname)
    if header not in ("-", ""):
        em.raw("}\n")
    em.raw("\n")
    # obligations: call-site preconditions and panic sites are counted from the emitted body text
    btxt = text(body)
    info["n_vassert"] = len(re.findall(r"\bvassert\(", btxt))
    info["n_vpanic"] = len(re.findall(r"\bvpanic\(", btxt))
    info["n_post"] = clauses(fs.ensures) if fs.ensures.strip() else 0
    info["n_inv"] = sum(clauses(l["invariant"]) for l in fs.loops.values() if l.get("invariant"))
    info["n_loops"] = len(loops)
    info["n_term"] = sum(1 for l in fs.loops.values() if l.get("decreases"))
    info["calls"] = sorted(set(re.findall(r"\b([a-z_][a-z0-9_]*)\s*(?:::<[^>]*>)?\(", btxt)) - {"if", "while", "match", "for", "return", "Some", "Ok", "Err"})
    info["has_requires"] = bool(fs.requires.strip())
    info["call_sites"] = [m.group(1) for m in re.finditer(r"\b([A-Za-z_][A-Za-z0-9_]*)\s*(?:::<[^>]*>)?\s*\(", btxt)]
    unit.fn_table[fs.qname] = info
    return info

def n_loops_total(body):
    return len(find_loops(body, 0, len(body)))

def gen_type(repo, file, name, opts, unit, em):
    src, ftoks, items = repo.load(file)
    c = [it for it in items if it.kind in ("struct", "enum", "const", "static", "type") and it.name == name and not it.impl_header]
    if len(c) != 1: raise LostAnchor("type %s | %s: %d candidates" % (file, name, len(c)))
    it = c[0]
    raw_text = text(ftoks[it.attrs_start:it.end])
    unit.extracted.append((it.kind, file, name, hashlib.sha256(raw_text.encode()).hexdigest(), it.line(src)))
    ndrop = len(repo.cfg.dropped)
    toks = rslex.resolve_cfg(ftoks[it.attrs_start:it.end], repo.cfg, "%s:%s" % (file, name))
    unit.rules.hit("R1.cfg", len(repo.cfg.dropped) - ndrop)
    n7 = unit.rules.count["R7.type"]
    toks = rewrite(toks, unit.rules, {}, None)
    if unit.rules.count["R7.type"] > n7:
        # a handle type: its derived Clone clones the Rc (aliasing), which R7 erases
        for k_, t_ in enumerate(toks):
            if t_.kind == "gen" and t_.text.startswith("#[derive("):
                names = [x.strip() for x in t_.text[len("#[derive("):-2].split(",") if x.strip() not in ("Clone", "Copy")]
                toks[k_] = gen("#[derive(%s)]" % ", ".join(names)) if names else gen("")
                unit.rules.hit("R7.noclone")
    if it.kind in ("struct",):
        # split attributes from the item before field rewriting
        toks = add_pub_fields(toks, unit.rules)
    s = text(toks).strip()
    # visibility of the item itself
    s2 = re.sub(r"(^|\n)(\s*)(pub\s+)?(struct|enum|const|static|type)\b", lambda m: "%s%spub %s" % (m.group(1), m.group(2), m.group(4)), s, count=1)
    if s2 != s and not re.search(r"(^|\n)\s*pub\s+(struct|enum|const|static|type)\b", s): unit.rules.hit("R4.item")
    for o in opts.split():
        if o.startswith("attr="):
            em.raw("#[%s]\n" % o[5:])
    em.toks([gen(s2 + "\n\n")], file, src)

# A property whose contracts presuppose a fact that another property's functions establish takes those roots too, so that its check fails
# when the supporting fact does: C18 ("... with extra read-only calls interleaved") rests on C15; C16's "a later successful flush makes
# every update durable" rests on C03; the statistics (C17), the iterators (C04) and the frame proofs of the read-only calls (C15) are
# stated for well-formed files (heap_ok / map_ok), which every update (the roots of C05: put_kt, del_kt and what they call) must preserve.
# C14: the bulk calls run the element-wise calls in key order; that this leaves the map the element-wise calls in input order would leave
# holds because the file-backed map is an ideal map (C01), in which updates of distinct keys commute.
# C07: "the same call history produces the same results for every table size and buffer setting" holds because the results are those of
# the ideal map (C01) and of the iterators (C04), both proved for every bucket count and with no assumption on buffer sizes.
# C10: "keys returned by iteration convert back to what was put" rests on the iterators returning the stored key bytes (C04).
# C02: a reopened map has the view it had at the drop because the view is a function of the file bytes - which holds only if every
# update puts its whole effect into the bytes (C01's postconditions are stated over the bytes). C09: "neighbours are never overwritten"
# also concerns the in-place rewrites done by del_kt (roots of C05).
# C03: "flush writes every preceding update" needs dirty_ok to survive every call between the update and the flush, the read-only ones
# included (their frame, C15, says the dirty flag is unchanged); the same for C16.
DERIVED_FROM = {"C18": {"C15"}, "C16": {"C03", "C15"}, "C17": {"C05"}, "C04": {"C05"}, "C15": {"C05"}, "C14": {"C01"}, "C07": {"C01", "C04"}, "C10": {"C04"},
                "C02": {"C01"}, "C09": {"C05"}, "C03": {"C15"}}

def generate(repo, ov, prop=None, canary=False, only=None):
    """prop: property id -> functions serving it are verified, the others become stubs.
    only: explicit set of qnames to verify (overrides prop)."""
    unit = Unit()
    em = Emitter()
    # transitive closure of the property's root functions over the (over-approximated) call graph
    if prop is not None and only is None:
        byname = defaultdict(list)
        for q, fs in ov.fns.items(): byname[fs.name].append(q)
        calls = {}
        for q, fs in ov.fns.items():
            it = repo.find(fs.file, "fn", fs.impl, fs.name)
            body = text(it.toks[it.body_open:it.end]) if it.body_open is not None else ""
            names = set(re.findall(r"\b([A-Za-z_][A-Za-z0-9_]*)\s*(?:::<[^>]*>)?\s*\(", body))
            if re.search(r"[^=!<>]=[^=]|\+|-", body): pass
            if re.search(r"\.into\(\)|::from\(", body): names |= {"from"}
            if re.search(r"[^-]>|<|==|\+|-", body): names |= {"add", "sub"}
            calls[q] = set(x for n_ in names for x in byname.get(n_, []))
        # a property that is derived from another one (C18: "... or with extra read-only calls interleaved" rests on C15) takes its roots too
        roots = [q for q, fs in ov.fns.items() if prop in fs.serves or (DERIVED_FROM.get(prop, set()) & set(fs.serves))]
        only = set(); work = list(roots)
        while work:
            q = work.pop()
            if q in only: continue
            only.add(q)
            if ov.fns[q].opts.get("assumed"): continue
            work.extend(calls[q] - only)
        unit.roots = roots
    em.raw("// GENERATED by tools/vx.py from the working tree of the repository — do not edit\n")
    em.raw("#![allow(unused_imports, unused_variables, unused_mut, dead_code, unused_parens, unused_braces, non_snake_case, unused_assignments)]\n")
    em.raw("use vstd::prelude::*;\n")
    # modules may be opened several times in the overlay; emit each once, at its first occurrence, with all its parts
    ordered = []; cur = None; mods = OrderedDict()
    for part in ov.parts:
        if part[0] == "modopen":
            cur = part[1]
            if cur not in mods:
                mods[cur] = []
                ordered.append(("modopen", cur))
            continue
        if part[0] == "modclose":
            cur = None; continue
        if part[0] == "rawroot":
            ordered.append(("raw", part[1], part[2])); continue
        if cur is None: ordered.append(part)
        else: mods[cur].append(part)
    flat = []
    for part in ordered:
        if part[0] == "modopen":
            flat.append(part); flat.extend(mods[part[1]]); flat.append(("modclose",))
        else:
            flat.append(part)
    # R15: top-level `const` items of a file that the overlay does not list are extracted too (after the last listed item of that file
    # in the module), so that a refactor which introduces a named constant stays inside the verified text
    flat2 = []; curmod = None; modfiles = OrderedDict()
    for idx_, part in enumerate(flat):
        if part[0] == "modopen": curmod = part[1]
        elif part[0] == "modclose": curmod = None
        elif part[0] == "type":
            modfiles.setdefault((curmod, part[1]), {"names": set(), "last": idx_})
            modfiles[(curmod, part[1])]["names"].add(part[2]); modfiles[(curmod, part[1])]["last"] = idx_
    auto_after = defaultdict(list)
    for (m_, f_), d_ in modfiles.items():
        src_, ftoks_, items_ = repo.load(f_)
        for it_ in items_:
            if it_.kind == "const" and not it_.impl_header and it_.name not in d_["names"] and it_.name != "_":
                auto_after[d_["last"]].append(("type", f_, it_.name, ""))
                unit.rules.hit("R15.autoconst")
    for idx_, part in enumerate(flat):
        flat2.append(part); flat2.extend(auto_after.get(idx_, []))
    flat = flat2
    for part in flat:
        if part[0] == "raw":
            em.raw(part[1])
        elif part[0] == "modopen":
            em.raw("pub mod %s {\nuse super::*;\n" % part[1])
        elif part[0] == "modclose":
            em.raw("} // mod\n")
        elif part[0] == "type":
            em.raw("verus! {\n")
            gen_type(repo, part[1], part[2], part[3], unit, em)
            em.raw("} // verus!\n")
        else:
            fs = part[1]
            if fs.opts.get("assumed"):
                mode = "stub"
            elif only is not None:
                mode = "body" if fs.qname in only else "stub"
            elif prop is not None:
                mode = "body" if prop in fs.serves else "stub"
            else:
                mode = "body"
            em.raw("verus! {\n")
            gen_fn(repo, fs, unit, em, mode, canary=(canary and mode == "body" and not fs.opts.get("no-canary")))
            em.raw("} // verus!\n")
    em.raw("fn main() {}\n")
    txt, linemap, marks = em.finish()
    unit.text = txt; unit.linemap = linemap; unit.marks = marks
    unit.dropped_cfg = list(repo.cfg.dropped)
    return unit

def fn_at_line(unit, line):
    best = None
    for q in unit.fn_table:
        s = unit.marks.get("fn:%s:start" % q); e = unit.marks.get("fn:%s:end" % q)
        if s is not None and e is not None and s <= line <= e:
            best = q
    return best

if __name__ == "__main__":
    import argparse
    ap = argparse.ArgumentParser()
    ap.add_argument("overlay")
    ap.add_argument("--repo", default="/repo")
    ap.add_argument("--prop")
    ap.add_argument("--canary", action="store_true")
    ap.add_argument("-o", "--out", default="-")
    a = ap.parse_args()
    repo = Repo(a.repo)
    ov = parse_overlay(a.overlay)
    try:
        u = generate(repo, ov, a.prop, a.canary)
    except LostAnchor as e:
        print("UNDECIDED lost-anchor: %s" % e); sys.exit(2)
    if a.out == "-": sys.stdout.write(u.text)
    else: open(a.out, "w").write(u.text)
    sys.stderr.write(json.dumps({"rules": u.rules.count, "fns": list(u.fn_table)}, indent=1) + "\n")
