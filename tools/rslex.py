"""Minimal Rust lexer + item index used by the extractor (tools/vx.py).

It is *not* a parser: it tokenises (comments, strings, raw strings, chars vs lifetimes,
identifiers, numbers, single-character punctuation) and matches brackets, which is all the
extractor needs to copy items verbatim and to splice contract text at structural anchors.
"""
import re

class Tok:
    __slots__ = ("kind", "text", "start", "end")
    def __init__(self, kind, text, start, end):
        self.kind, self.text, self.start, self.end = kind, text, start, end
    def __repr__(self):
        return "Tok(%s,%r)" % (self.kind, self.text)

_ident_re = re.compile(r"[A-Za-z_][A-Za-z0-9_]*")
_num_re = re.compile(r"[0-9][A-Za-z0-9_]*(\.[0-9][A-Za-z0-9_]*)?")
_ws_re = re.compile(r"\s+")

class LexError(Exception):
    pass

def lex(src):
    toks = []
    i, n = 0, len(src)
    while i < n:
        c = src[i]
        m = _ws_re.match(src, i)
        if m:
            toks.append(Tok("ws", m.group(0), i, m.end())); i = m.end(); continue
        if src.startswith("//", i):
            j = src.find("\n", i)
            j = n if j < 0 else j
            toks.append(Tok("comment", src[i:j], i, j)); i = j; continue
        if src.startswith("/*", i):
            depth, j = 1, i + 2
            while j < n and depth > 0:
                if src.startswith("/*", j): depth += 1; j += 2
                elif src.startswith("*/", j): depth -= 1; j += 2
                else: j += 1
            if depth: raise LexError("unterminated block comment at %d" % i)
            toks.append(Tok("comment", src[i:j], i, j)); i = j; continue
        # raw strings r"..", r#".."#, br#".."#
        m = re.match(r"(b?r)(#*)\"", src[i:i + 40])
        if m:
            hashes = m.group(2)
            close = "\"" + hashes
            j = src.find(close, i + len(m.group(0)))
            if j < 0: raise LexError("unterminated raw string at %d" % i)
            j += len(close)
            toks.append(Tok("str", src[i:j], i, j)); i = j; continue
        if c == '"' or (c == 'b' and i + 1 < n and src[i + 1] == '"'):
            j = i + (2 if c == 'b' else 1)
            while j < n and src[j] != '"':
                j += 2 if src[j] == "\\" else 1
            if j >= n: raise LexError("unterminated string at %d" % i)
            j += 1
            toks.append(Tok("str", src[i:j], i, j)); i = j; continue
        if c == "'" or (c == 'b' and i + 1 < n and src[i + 1] == "'"):
            k = i + (1 if c == 'b' else 0)
            # char literal: '\x', 'x' ; lifetime: 'ident (no closing quote right after one char)
            if src[k + 1] == "\\":
                j = src.find("'", k + 3 if src[k + 2] != "'" else k + 3)
                # handle '\'' : escaped quote
                if src[k + 2] == "'":
                    j = k + 3
                toks.append(Tok("char", src[i:j + 1], i, j + 1)); i = j + 1; continue
            if k + 2 < n and src[k + 2] == "'":
                toks.append(Tok("char", src[i:k + 3], i, k + 3)); i = k + 3; continue
            m = _ident_re.match(src, k + 1)
            if m and c == "'":
                toks.append(Tok("lifetime", src[i:m.end()], i, m.end())); i = m.end(); continue
            raise LexError("bad quote at %d: %r" % (i, src[i:i + 10]))
        m = _ident_re.match(src, i)
        if m:
            toks.append(Tok("ident", m.group(0), i, m.end())); i = m.end(); continue
        m = _num_re.match(src, i)
        if m:
            # do not swallow `..` range after an integer: "0..n"
            txt = m.group(0)
            if "." in txt and src[m.start() + txt.index(".") + 1:m.start() + txt.index(".") + 2] == ".":
                txt = txt[:txt.index(".")]
            toks.append(Tok("num", txt, i, i + len(txt))); i += len(txt); continue
        toks.append(Tok("punct", c, i, i + 1)); i += 1
    return toks

OPEN = {"(": ")", "[": "]", "{": "}"}
CLOSE = {v: k for k, v in OPEN.items()}

def sig(toks):
    """indices of significant (non-ws, non-comment) tokens"""
    return [i for i, t in enumerate(toks) if t.kind not in ("ws", "comment")]

def match_close(toks, i):
    """toks[i] is an opening bracket; return index of its matching closer."""
    depth = 0
    for j in range(i, len(toks)):
        t = toks[j]
        if t.kind == "punct":
            if t.text in OPEN: depth += 1
            elif t.text in CLOSE:
                depth -= 1
                if depth == 0:
                    return j
    raise LexError("unbalanced bracket at token %d (%r)" % (i, toks[i].text))

def next_sig(toks, i):
    j = i
    while j < len(toks) and toks[j].kind in ("ws", "comment"):
        j += 1
    return j

def prev_sig(toks, i):
    j = i
    while j >= 0 and toks[j].kind in ("ws", "comment"):
        j -= 1
    return j

def text(toks):
    return "".join(t.text for t in toks)

def norm(s):
    return re.sub(r"\s+", " ", s).strip()

# ---------------------------------------------------------------------------------------------
# cfg predicate evaluation

class Cfg:
    def __init__(self, features, flags=("debug_assertions",), kv=None):
        self.features = set(features)
        self.flags = set(flags)
        self.kv = dict(kv or {"target_pointer_width": "64", "target_endian": "little"})
        self.dropped = []   # (file, description) of dropped branches
        self.kept = 0

    def eval(self, toks):
        """toks: significant tokens of the predicate (inside `cfg( ... )`)."""
        val, rest = self._expr(toks)
        if rest:
            raise LexError("trailing tokens in cfg: %r" % text(rest))
        return val

    def _expr(self, ts):
        t = ts[0]
        if t.kind == "ident" and t.text in ("not", "any", "all") and len(ts) > 1 and ts[1].text == "(":
            j = match_close(ts, 1)
            inner = ts[2:j]
            args, cur, depth = [], [], 0
            for x in inner:
                if x.kind == "punct" and x.text in OPEN: depth += 1
                if x.kind == "punct" and x.text in CLOSE: depth -= 1
                if x.kind == "punct" and x.text == "," and depth == 0:
                    if cur: args.append(cur)
                    cur = []
                else:
                    cur.append(x)
            if cur: args.append(cur)
            vals = [self.eval(a) for a in args]
            if t.text == "not": v = not vals[0]
            elif t.text == "any": v = any(vals)
            else: v = all(vals)
            return v, ts[j + 1:]
        if t.kind == "ident":
            if len(ts) >= 3 and ts[1].text == "=" and ts[2].kind == "str":
                s = ts[2].text.strip('"')
                if t.text == "feature":
                    return (s in self.features), ts[3:]
                return (self.kv.get(t.text) == s), ts[3:]
            return (t.text in self.flags), ts[1:]
        raise LexError("cannot evaluate cfg: %r" % text(ts))

def attr_at(toks, i):
    """if toks[i] starts an attribute `#[...]` / `#![...]`, return (end_index_exclusive, name, inner_sig_tokens)."""
    if toks[i].kind == "punct" and toks[i].text == "#":
        j = next_sig(toks, i + 1)
        if j < len(toks) and toks[j].text == "!":
            j = next_sig(toks, j + 1)
        if j < len(toks) and toks[j].text == "[":
            k = match_close(toks, j)
            inner = [t for t in toks[j + 1:k] if t.kind not in ("ws", "comment")]
            name = inner[0].text if inner else ""
            return k + 1, name, inner
    return None

def stmt_end(toks, i, limit):
    """toks[i] is the first significant token of an item / statement / field / expression that
    follows an attribute. Return the exclusive end index of that syntactic unit (including a
    trailing `;` or `,`). `limit` = exclusive end of the enclosing region."""
    j = i
    # skip further attributes
    while True:
        a = attr_at(toks, j)
        if not a: break
        j = next_sig(toks, a[0])
    first = toks[j]
    if first.kind == "punct" and first.text == "{":
        k = match_close(toks, j)
        k2 = next_sig(toks, k + 1)
        if k2 < limit and toks[k2].text == ";":
            return k2 + 1
        return k + 1
    blocky = {"fn", "impl", "mod", "struct", "enum", "trait", "unsafe", "if", "match", "while", "for", "loop", "pub"}
    # scan
    k = j
    is_blocky = first.kind == "ident" and first.text in blocky
    while k < limit:
        t = toks[k]
        if t.kind == "punct":
            if t.text in ("(", "["):
                k = match_close(toks, k) + 1; continue
            if t.text == "{":
                e = match_close(toks, k)
                if is_blocky:
                    # `if .. {} else {}` chains
                    k2 = next_sig(toks, e + 1)
                    if k2 < limit and toks[k2].kind == "ident" and toks[k2].text == "else":
                        k = k2 + 1; continue
                    # struct Foo {...}  / fn .. {...} end here ; `pub struct X(..);` handled by ';'
                    return e + 1
                k = e + 1; continue
            if t.text == ";":
                return k + 1
            if t.text == ",":
                return k + 1
            if t.text in CLOSE:
                return k
        k += 1
    return limit

def resolve_cfg(toks, cfg, where=""):
    """Return a new token list with every #[cfg(..)] attribute resolved: inactive units removed,
    active ones kept without the attribute."""
    out = []
    i, n = 0, len(toks)
    while i < n:
        a = attr_at(toks, i) if toks[i].kind == "punct" and toks[i].text == "#" else None
        if a and a[1] == "cfg":
            end_attr, _, inner = a
            pred = inner[2:-1] if inner[1].text == "(" else inner[1:]
            val = cfg.eval(pred)
            j = next_sig(toks, end_attr)
            if val:
                cfg.kept += 1
                i = j
                continue
            e = stmt_end(toks, j, n)
            cfg.dropped.append((where, norm(text(inner)) + " :: " + norm(text(toks[j:e]))[:80]))
            i = e
            # swallow one following newline's worth of whitespace to keep output tidy
            continue
        out.append(toks[i]); i += 1
    return out

# ---------------------------------------------------------------------------------------------
# item index

class Item:
    def __init__(self, kind, name, impl_header, toks, attrs_start, start, body_open, end, file):
        self.kind = kind              # fn | struct | enum | const | static | type | impl | trait
        self.name = name
        self.impl_header = impl_header  # normalised text of enclosing impl header ('' for free items)
        self.toks = toks              # the file's token list
        self.attrs_start = attrs_start
        self.start = start            # first token of the item proper (after attributes)
        self.body_open = body_open    # index of `{` opening the body (fn/impl/struct-with-braces) or None
        self.end = end                # exclusive
        self.file = file
        self.impl_item = None         # enclosing impl Item for fns inside an impl
    def src_text(self):
        return text(self.toks[self.start:self.end])
    def line(self, src):
        return src.count("\n", 0, self.toks[self.start].start) + 1

ITEM_KW = {"fn", "struct", "enum", "const", "static", "type", "impl", "trait", "mod", "use", "macro_rules"}

def index_items(toks, cfg, file, lo=0, hi=None, impl_header="", impl_item=None, out=None):
    """Index items in toks[lo:hi] (cfg-inactive items are skipped)."""
    if out is None: out = []
    hi = len(toks) if hi is None else hi
    i = lo
    while i < hi:
        i = next_sig(toks, i)
        if i >= hi: break
        attrs_start = i
        active = True
        while True:
            a = attr_at(toks, i)
            if not a: break
            if a[1] == "cfg":
                inner = a[2]
                pred = inner[2:-1]
                if not cfg.eval(pred): active = False
            i = next_sig(toks, a[0])
        start = i
        # qualifiers
        j = i
        while j < hi and toks[j].kind == "ident" and toks[j].text in ("pub", "unsafe", "async", "extern", "default"):
            j = next_sig(toks, j + 1)
            if toks[j].text == "(" and toks[prev_sig(toks, j - 1)].text == "pub":
                j = next_sig(toks, match_close(toks, j) + 1)
            if toks[j].kind == "str":  # extern "C"
                j = next_sig(toks, j + 1)
        t = toks[j]
        if not (t.kind == "ident" and (t.text in ITEM_KW)):
            # not an item (e.g. stray token) -> skip to next ';' or matching brace
            e = stmt_end(toks, i, hi)
            i = max(e, i + 1)
            continue
        kw = t.text
        if kw == "const" and toks[next_sig(toks, j + 1)].text == "fn":
            j = next_sig(toks, j + 1); kw = "fn"
        if kw in ("use", "mod", "macro_rules"):
            e = stmt_end(toks, j, hi)
            i = e; continue
        if kw == "impl":
            # header runs to the '{'
            k = j
            while toks[k].text != "{":
                if toks[k].text in ("(", "["): k = match_close(toks, k)
                k += 1
            e = match_close(toks, k)
            header = norm(text(toks[j:k]))
            it = Item("impl", header, "", toks, attrs_start, start, k, e + 1, file)
            if active:
                out.append(it)
                index_items(toks, cfg, file, k + 1, e, header, it, out)
            i = e + 1; continue
        if kw == "trait":
            k = j
            while toks[k].text != "{": k += 1
            e = match_close(toks, k)
            name = toks[next_sig(toks, j + 1)].text
            if active:
                out.append(Item("trait", name, "", toks, attrs_start, start, k, e + 1, file))
            i = e + 1; continue
        name_i = next_sig(toks, j + 1)
        name = toks[name_i].text
        if kw == "fn":
            k = name_i
            while k < hi and toks[k].text not in ("{", ";"):
                if toks[k].text in ("(", "["): k = match_close(toks, k)
                k += 1
            if toks[k].text == ";":
                e = k + 1; body_open = None
            else:
                body_open = k; e = match_close(toks, k) + 1
            if active:
                it = Item("fn", name, impl_header, toks, attrs_start, start, body_open, e, file)
                it.impl_item = impl_item
                out.append(it)
            i = e; continue
        # struct / enum / const / static / type
        body_open = None
        if kw in ("struct", "enum"):
            # generics may contain commas: go to the body first
            k = name_i
            while k < hi and toks[k].text not in ("{", ";", "("): k += 1
            if toks[k].text == "{":
                body_open = k
                e = match_close(toks, k) + 1
            elif toks[k].text == "(":
                e = match_close(toks, k) + 1
                k2 = next_sig(toks, e)
                while k2 < hi and toks[k2].text != ";": k2 += 1     # optional where clause
                e = k2 + 1
            else:
                e = k + 1
        else:
            e = stmt_end(toks, j, hi)
        if active:
            it = Item(kw, name, impl_header, toks, attrs_start, start, body_open, e, file)
            it.impl_item = impl_item
            out.append(it)
        i = e
    return out
