#!/bin/sh
# dev helper: generate the full unit and run verus with trimmed output.  usage: tools/v.sh [extra verus args]
cd /verif && python3 tools/vx.py contracts/all.vs ${VX_REPO:+--repo $VX_REPO} -o /root/scratch/vt/all.rs 2>/root/scratch/vt/vx.err || { tail -5 /root/scratch/vt/vx.err; exit 1; }
cd /root/scratch/vt && verus all.rs --no-lifetime --triggers-mode silent --multiple-errors ${VERR:-4} "$@" 2>&1 | grep -v conda | grep -v "autoderive\|^warning\|^note: while loop\|^note: function body check" | grep -v "^ *= help\|derive\|= note" | grep -v "^ *|$\|\^\^\^\^\^$\|^$\|^ *--> all.rs:[0-9]*:19$" | cut -c1-220 | head -${VLINES:-70}
