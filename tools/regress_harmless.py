#!/usr/bin/env python3
"""false-alarm regression: every behaviour-preserving patch seeded/harmless/h*/r*.diff, applied to a scratch copy of /repo's HEAD, must
give exit 0 (re-proved) or 2 (undecided), never 1, for a covering subset of the properties whose unit it changes (the same function is
verified identically in every unit that contains it). Runs N patches at a time on separate copies (VERIF_REPO / VERIF_WORK).
usage: regress_harmless.py [N=3] [h3/r1 ...]"""
import os, sys, subprocess, shutil, glob, re, concurrent.futures
ROOT = os.path.dirname(os.path.dirname(os.path.abspath(__file__)))
SCR = os.environ.get("REGRESS_SCRATCH", "/root/scratch/regh")
COVER = ["C01", "C04", "C07", "C10", "C12", "C13", "C14", "C17"]
def cover(base, tree, aff):
    """smallest set of affected properties (greedy) whose units verify every function whose extracted text changed, plus one property
    per Kani harness set that targets a changed file"""
    sys.path.insert(0, os.path.join(ROOT, "tools"))
    import vx, props
    ov = vx.parse_overlay(os.path.join(ROOT, "contracts", "all.vs"))
    changed = {}
    for p in aff:
        try:
            ua = vx.generate(vx.Repo(base), ov, p); ub = vx.generate(vx.Repo(tree), ov, p)
        except Exception:
            changed[p] = {"<extraction failed>"}; continue
        fa = {q: i["sha256"] for q, i in ua.fn_table.items() if i["mode"] == "body"}
        fb = {q: i["sha256"] for q, i in ub.fn_table.items() if i["mode"] == "body"}
        changed[p] = {q for q in set(fa) | set(fb) if fa.get(q) != fb.get(q)}
        # a unit whose text differs only in stubs' source positions or shared items verifies nothing new: not selected for itself
    todo = set().union(*changed.values()) if changed else set()
    sel = []
    while todo:
        best = max(sorted(changed), key=lambda p: len(changed[p] & todo))
        if not changed[best] & todo: break
        sel.append(best); todo -= changed[best]
    # Kani legs: every harness (of an affected property) that targets a changed file must run in some selected check
    import kanileg, filecmp
    chg_files = set()
    for root, _, files in os.walk(os.path.join(base, "src")):
        for f in files:
            a = os.path.join(root, f); b = a.replace(base, tree, 1)
            if not os.path.exists(b) or not filecmp.cmp(a, b, shallow=False): chg_files.add(os.path.relpath(a, base))
    h2t = {}
    for hp, rel in kanileg.harness_files():
        for h in kanileg.harness_names(hp): h2t[h] = rel
    hs = {p: {h for h in list(props.KANI[p]["complete"]) + list(props.KANI[p]["bounded"]) if h2t.get(h) in chg_files} for p in aff if props.KANI.get(p)}
    need = set().union(*hs.values()) if hs else set()
    for p in sel: need -= hs.get(p, set())
    while need:
        best = max(sorted(hs), key=lambda p: len(hs[p] & need))
        if not hs[best] & need: break
        sel.append(best); need -= hs[best]
    return sel or aff[:1]

def one(pid):
    d = os.path.join(SCR, pid.replace("/", "_")); shutil.rmtree(d, ignore_errors=True); os.makedirs(os.path.join(d, "tree")); os.makedirs(os.path.join(d, "base"))
    subprocess.run("git -C /repo archive HEAD | tar -x -C %s/tree; git -C /repo archive HEAD | tar -x -C %s/base" % (d, d), shell=True, check=True)
    r = subprocess.run(["patch", "-p1", "-s", "-i", os.path.join(ROOT, "seeded", "harmless", pid + ".diff")], cwd=os.path.join(d, "tree"))
    if r.returncode != 0: return pid, "PATCH-FAILED", []
    aff = subprocess.run([sys.executable, os.path.join(ROOT, "tools", "affected.py"), os.path.join(d, "base"), os.path.join(d, "tree")], stdout=subprocess.PIPE, stderr=subprocess.DEVNULL, text=True).stdout.strip().split("\n")[-1].split()
    sel = cover(os.path.join(d, "base"), os.path.join(d, "tree"), aff)
    res = []
    for prop in sel:
        env = dict(os.environ, VERIF_REPO=os.path.join(d, "tree"), VERIF_WORK=os.path.join(d, "work"))
        p = subprocess.run([os.path.join(ROOT, "check"), prop], cwd=ROOT, env=env, stdout=subprocess.PIPE, stderr=subprocess.STDOUT, text=True)
        und = [l[:140] for l in p.stdout.split("\n") if l.startswith("UNDECIDED")][:1]
        vio = [l[:200] for l in p.stdout.split("\n") if l.startswith("VIOLATION")][:2]
        res.append((prop, p.returncode, und + vio))
    shutil.rmtree(d, ignore_errors=True)
    return pid, " ".join(aff), res
if __name__ == "__main__":
    n = int(sys.argv[1]) if len(sys.argv) > 1 and sys.argv[1].isdigit() else 3
    ids = [a for a in sys.argv[1:] if not a.isdigit()] or sorted(os.path.relpath(p, os.path.join(ROOT, "seeded", "harmless"))[:-5] for p in glob.glob(os.path.join(ROOT, "seeded", "harmless", "h*", "r*.diff")))
    alarms = 0; tot = {0: 0, 1: 0, 2: 0}
    with concurrent.futures.ThreadPoolExecutor(max_workers=n) as ex:
        for pid, aff, res in ex.map(one, ids):
            print("%-7s affected: %s" % (pid, aff), flush=True)
            worst = 0
            for prop, rc, notes in res:
                print("        %s exit=%s %s" % (prop, rc, " | ".join(notes)), flush=True)
                if rc == 1: worst = 1
                elif rc != 0 and worst == 0: worst = 2
            tot[worst] = tot.get(worst, 0) + 1
            if worst == 1: alarms += 1
    print("patches: %d re-proved everywhere, %d undecided somewhere, %d FALSE ALARMS" % (tot[0], tot[2], alarms))
    sys.exit(1 if alarms else 0)
