#!/usr/bin/env python3
"""false-alarm regression: every behaviour-preserving patch seeded/harmless/h*/r*.diff, applied to a scratch copy of /repo's HEAD, must
give exit 0 (re-proved) or 2 (undecided), never 1, for a covering subset of the properties whose unit it changes (the same function is
verified identically in every unit that contains it). Runs N patches at a time on separate copies (VERIF_REPO / VERIF_WORK).
usage: regress_harmless.py [N=3] [h3/r1 ...]"""
import os, sys, subprocess, shutil, glob, re, concurrent.futures
ROOT = os.path.dirname(os.path.dirname(os.path.abspath(__file__)))
SCR = os.environ.get("REGRESS_SCRATCH", "/root/scratch/regh")
COVER = ["C01", "C04", "C07", "C10", "C12", "C13", "C14", "C17"]
def one(pid):
    d = os.path.join(SCR, pid.replace("/", "_")); shutil.rmtree(d, ignore_errors=True); os.makedirs(os.path.join(d, "tree")); os.makedirs(os.path.join(d, "base"))
    subprocess.run("git -C /repo archive HEAD | tar -x -C %s/tree; git -C /repo archive HEAD | tar -x -C %s/base" % (d, d), shell=True, check=True)
    r = subprocess.run(["patch", "-p1", "-s", "-i", os.path.join(ROOT, "seeded", "harmless", pid + ".diff")], cwd=os.path.join(d, "tree"))
    if r.returncode != 0: return pid, "PATCH-FAILED", []
    aff = subprocess.run([sys.executable, os.path.join(ROOT, "tools", "affected.py"), os.path.join(d, "base"), os.path.join(d, "tree")], stdout=subprocess.PIPE, stderr=subprocess.DEVNULL, text=True).stdout.strip().split("\n")[-1].split()
    sel = [p for p in COVER if p in aff] or aff[:1]
    res = []
    for prop in sel:
        env = dict(os.environ, VERIF_REPO=os.path.join(d, "tree"), VERIF_WORK=os.path.join(d, "work"))
        p = subprocess.run([os.path.join(ROOT, "check"), prop], cwd=ROOT, env=env, stdout=subprocess.PIPE, stderr=subprocess.STDOUT, text=True)
        und = [l[:140] for l in p.stdout.split("\n") if l.startswith("UNDECIDED")][:1]
        vio = [l[:200] for l in p.stdout.split("\n") if l.startswith("VIOLATION")][:2]
        res.append((prop, p.returncode, und + vio))
    shutil.rmtree(d, ignore_errors=True)
    return pid, " ".join(aff), res
if __name__ == "__main__":
    n = int(sys.argv[1]) if len(sys.argv) > 1 and sys.argv[1].isdigit() else 3
    ids = [a for a in sys.argv[1:] if not a.isdigit()] or sorted(os.path.relpath(p, os.path.join(ROOT, "seeded", "harmless"))[:-5] for p in glob.glob(os.path.join(ROOT, "seeded", "harmless", "h*", "r*.diff")))
    alarms = 0; tot = {0: 0, 1: 0, 2: 0}
    with concurrent.futures.ThreadPoolExecutor(max_workers=n) as ex:
        for pid, aff, res in ex.map(one, ids):
            print("%-7s affected: %s" % (pid, aff), flush=True)
            worst = 0
            for prop, rc, notes in res:
                print("        %s exit=%s %s" % (prop, rc, " | ".join(notes)), flush=True)
                if rc == 1: worst = 1
                elif rc != 0 and worst == 0: worst = 2
            tot[worst] = tot.get(worst, 0) + 1
            if worst == 1: alarms += 1
    print("patches: %d re-proved everywhere, %d undecided somewhere, %d FALSE ALARMS" % (tot[0], tot[2], alarms))
    sys.exit(1 if alarms else 0)
