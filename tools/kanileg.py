"""Kani leg: scratch copy of the working tree + add-only harness modules, cargo kani, result parsing."""
import signal, os, re, shutil, subprocess, sys, tempfile, time, glob

HERE = os.path.dirname(os.path.abspath(__file__))
ROOT = os.path.dirname(HERE)

def sh(cmd, cwd=None, timeout=None, env=None):
    e = dict(os.environ)
    if env: e.update(env)
    # own process group: on a timeout the whole tree (cargo-kani, kani-driver, cbmc) is killed, not just the direct child - an orphaned
    # cbmc would keep its memory and, holding the pipe, keep this call from returning
    p = subprocess.Popen(cmd, cwd=cwd, stdout=subprocess.PIPE, stderr=subprocess.STDOUT, text=True, env=e, start_new_session=True)
    try:
        out, _ = p.communicate(timeout=timeout)
    except subprocess.TimeoutExpired:
        try: os.killpg(p.pid, signal.SIGKILL)
        except ProcessLookupError: pass
        try: p.communicate(timeout=30)
        except Exception: pass
        raise
    return p.returncode, out

def harness_files():
    res = []
    for p in sorted(glob.glob(os.path.join(ROOT, "kani", "kani_*.rs"))):
        head = open(p).read(400)
        m = re.search(r"//\s*@inject\s+(\S+)", head)
        if not m: raise SystemExit("kani harness without @inject: " + p)
        res.append((p, m.group(1)))
    return res

def harness_names(path):
    src = open(path).read()
    return re.findall(r"#\[kani::proof(?:_for_contract\([^)]*\))?\]\s*(?:#\[[^\]]*\]\s*)*(?:pub\s+)?fn\s+(\w+)", src)

def prepare(repo, only_files=None):
    """returns (scratch_dir, injected list). Caller removes scratch_dir."""
    scratch = tempfile.mkdtemp(prefix="abyss-kani-", dir=os.environ.get("VERIF_SCRATCH", "/tmp"))
    rc, out = sh(["rsync", "-a", "--exclude", "target", "--exclude", ".git", "--exclude", "fixtures", repo.rstrip("/") + "/", scratch + "/"])
    if rc != 0: raise RuntimeError("rsync failed: " + out)
    injected = []
    for hp, rel in harness_files():
        if only_files is not None and os.path.basename(hp) not in only_files: continue
        tgt = os.path.join(scratch, rel)
        if not os.path.exists(tgt):
            raise LookupError("lost anchor: %s (for %s)" % (rel, os.path.basename(hp)))
        mod = os.path.splitext(os.path.basename(hp))[0]
        shutil.copy(hp, os.path.join(os.path.dirname(tgt), mod + ".rs"))
        with open(tgt, "a") as f:
            f.write("\n#[cfg(kani)]\n#[path = \"%s.rs\"]\nmod %s;\n" % (mod, mod))
        injected.append((mod, rel))
    os.makedirs(os.path.join(scratch, ".cargo"), exist_ok=True)
    with open(os.path.join(scratch, ".cargo", "config.toml"), "a") as f:
        f.write("\n[net]\noffline = true\n")
    # add-only check: every original line of every touched file is still there, in order, as a prefix
    for mod, rel in injected:
        a = open(os.path.join(repo, rel)).read()
        b = open(os.path.join(scratch, rel)).read()
        if not b.startswith(a):
            raise RuntimeError("injection changed existing lines of " + rel)
    return scratch, injected

def _base_cmd():
    return ["cargo", "kani", "-p", "abyssiniandb", "-Z", "function-contracts", "-Z", "stubbing", "--output-format", "terse"]

_MEM_KB = [None]
def _guard(cmd):
    memkb = _MEM_KB[0] or int(os.environ.get("VERIF_KANI_MEM_KB", str(10 * 1024 * 1024)))
    return ["sh", "-c", "ulimit -v %d; exec \"$@\"" % memkb, "sh"] + cmd

def playback(scratch, env, harness, budget=600):
    """CBMC's counterexample for a failed harness, turned by Kani into a #[test] inside the harness module (add-only) and executed
    natively against the crate's real code. Returns dict {test, values, replay_output, reproduces} or {error}."""
    out = {}
    t0 = time.time()
    try:
        rc, o = sh(_guard(_base_cmd() + ["--harness", harness, "-Z", "concrete-playback", "--concrete-playback=inplace"]), cwd=scratch, timeout=budget, env=env)
    except subprocess.TimeoutExpired:
        return {"error": "counterexample extraction timed out after %ds" % int(budget)}
    names = re.findall(r"^\s*- (kani_concrete_playback_\w+)\.?\s*$", o, re.M)
    names = [n.rstrip(".") for n in names]
    if not names:
        return {"error": "kani produced no concrete playback test (the failing check may be unreachable-code or an unwinding assertion)"}
    # the generated test text
    txt = ""
    for root, _, files in os.walk(os.path.join(scratch, "src")):
        for f in files:
            if f.startswith("kani_") and f.endswith(".rs"):
                src = open(os.path.join(root, f)).read()
                for n in names:
                    m = re.search(r"#\[test\]\s*fn %s\(\)\s*\{.*?\n\}" % re.escape(n), src, re.S)
                    if m: txt += m.group(0) + "\n"; out["module_file"] = f
    out["test"] = txt; out["test_names"] = names
    out["values"] = re.findall(r"^\s*// (.*)$", txt, re.M)
    try:
        rc, o2 = sh(["cargo", "kani", "playback", "-Z", "concrete-playback", "-p", "abyssiniandb", "--", "kani_concrete_playback"], cwd=scratch,
                    timeout=max(60, budget - (time.time() - t0)), env=dict(env, RUST_BACKTRACE="0"))
    except subprocess.TimeoutExpired:
        out["error"] = "native replay timed out"; return out
    keep = [l for l in o2.split("\n") if re.search(r"^test |panicked at|assertion|^test result|left:|right:", l)]
    out["replay_output"] = "\n".join(keep)[-1500:]
    out["reproduces"] = any(re.search(r"^test .*%s.* FAILED" % re.escape(n), o2, re.M) for n in names)
    return out

def replay_test(repo, module_file, test_text):
    """./check --replay: run a recorded counterexample test against the current tree"""
    scratch, injected = prepare(repo, None)
    try:
        tgt = None
        for root, _, files in os.walk(os.path.join(scratch, "src")):
            if module_file in files: tgt = os.path.join(root, module_file)
        if not tgt: return 2, "harness module %s not found" % module_file
        open(tgt, "a").write("\n" + test_text + "\n")
        env = {"CARGO_NET_OFFLINE": "true", "CARGO_TARGET_DIR": os.path.join(scratch, "target"), "RUST_BACKTRACE": "0"}
        rc, o = sh(["cargo", "kani", "playback", "-Z", "concrete-playback", "-p", "abyssiniandb", "--", "kani_concrete_playback"], cwd=scratch, timeout=900, env=env)
        keep = [l for l in o.split("\n") if re.search(r"^test kani|panicked at|assertion|^test result|left:|right:", l)]
        ran = re.search(r"^test .*kani_concrete_playback\w* \.\.\. (ok|FAILED)", o, re.M)
        if not ran: return 2, "the playback test did not run:\n" + o[-1500:]
        return (1 if ran.group(1) == "FAILED" else 0), "\n".join(keep[:12])[-2000:]
    finally:
        shutil.rmtree(scratch, ignore_errors=True)

def run(repo, harnesses, only_files=None, timeout=1800, jobs=8, extra_args=None, want_playback=None, harness_timeout=None, mem_kb=None):
    """harnesses: list of harness function names. Returns dict name -> {status, time_s, detail}, plus '_log'."""
    res = {}
    t0 = time.time()
    _MEM_KB[0] = mem_kb
    try:
        scratch, injected = prepare(repo, only_files)
    except LookupError as e:
        return {"_undecided": str(e)}
    try:
        # resource guards: a change to the crate can make a harness explode (38 GB seen); a harness that hits the per-harness
        # timeout or the address-space limit is reported as "did not run" (UNDECIDED), never as a violation
        hto = harness_timeout or os.environ.get("VERIF_KANI_HARNESS_TIMEOUT", "900s")
        cmd = _base_cmd() + ["-j", str(jobs), "-Z", "unstable-options", "--harness-timeout", hto]
        for h in harnesses: cmd += ["--harness", h]
        if extra_args: cmd += extra_args
        env = {"CARGO_NET_OFFLINE": "true", "CARGO_TARGET_DIR": os.path.join(scratch, "target")}
        shcmd = _guard(cmd)
        try:
            rc, out = sh(shcmd, cwd=scratch, timeout=timeout, env=env)
        except subprocess.TimeoutExpired:
            return {"_undecided": "cargo kani timed out after %ds" % timeout}
        res["_log"] = out
        res["_cmd"] = " ".join(cmd)
        res["_wall"] = time.time() - t0
        if "error: could not compile" in out or "error[E" in out:
            res["_undecided"] = "kani build failed: " + "\n".join(l for l in out.split("\n") if l.startswith("error"))[:1500]
            return res
        # terse output with -j: "Thread N: Checking harness X..." then "Thread N: " + result block
        th = {}; curth = None
        for ln in out.split("\n"):
            m = re.match(r"Thread (\d+): ?(.*)", ln)
            if m:
                curth = m.group(1); ln = m.group(2)
            m = re.search(r"Checking harness ([\w:]+)", ln)
            if m:
                th[curth] = m.group(1).split("::")[-1]
                res.setdefault(th[curth], {"status": "MISSING"})
                continue
            h = th.get(curth)
            if not h: continue
            m = re.search(r"\*\* (\d+) of (\d+) failed", ln)
            if m: res[h]["failed_checks"] = int(m.group(1)); res[h]["checks"] = int(m.group(2))
            m = re.search(r"VERIFICATION:- (SUCCESSFUL|FAILED)", ln)
            if m: res[h]["status"] = m.group(1)
            m = re.search(r"Verification Time: ([0-9.]+)s", ln)
            if m: res[h]["time_s"] = float(m.group(1))
            m = re.search(r"Failed Checks: (.*)", ln)
            if m: res[h].setdefault("failed", []).append(m.group(1).strip())
        # failed checks detail
        for h in harnesses:
            if h not in res:
                res[h] = {"status": "MISSING"}
            elif res[h].get("status") == "FAILED" and res[h].get("failed_checks", None) == 0:
                # "0 of N failed" but FAILED: CBMC did not finish (address-space limit, timeout, crash) — not a property failure
                res[h]["status"] = "ABORTED"
        fails = re.findall(r"Failed Checks: (.*)", out)
        res["_failed_checks"] = fails
        # counterexamples of failed harnesses, replayed natively on the real code (at most 3, time-boxed)
        n_pb = 0; t_pb = time.time(); total_pb = 900
        for h in harnesses:
            left = total_pb - (time.time() - t_pb)
            if res[h].get("status") == "FAILED" and (want_playback is None or want_playback(h)) and n_pb < 3 and left > 60:
                n_pb += 1
                res[h]["playback"] = playback(scratch, env, h, budget=min(600, left))
        return res
    finally:
        shutil.rmtree(scratch, ignore_errors=True)

if __name__ == "__main__":
    hs = sys.argv[1:]
    r = run("/repo", hs)
    log = r.pop("_log", "")
    open("/tmp/kanileg.log", "w").write(log)
    import json
    print(json.dumps({k: v for k, v in r.items()}, indent=0)[:6000])
