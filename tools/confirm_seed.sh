#!/bin/sh
# usage: tools/confirm_seed.sh <id>  — confirms a seeded change in a scratch worktree of /repo:
#   builds, existing suite passes with it, demo fails with it and passes without it. Writes seeded/<id>/confirm.txt
ID="$1"; D=/tmp/cs_$ID; S=/verif/seeded/$ID; OUT=$S/confirm.txt
rm -rf $D; git -C /repo worktree add -q --detach $D HEAD || exit 3
cd $D
{
echo "worktree of /repo at $(git -C /repo rev-parse --short HEAD)"
git apply $S/patch.diff && echo "patch applies" || echo "PATCH DOES NOT APPLY"
cargo build --offline 2>&1 | grep -E "^error|Finished" | head -3
echo "--- existing suite with the change:"
cargo test --workspace --no-fail-fast --offline 2>&1 | grep -E "^test result|FAILED|failed" | sort | uniq -c
cp $S/demo.rs tests/zz_demo.rs
echo "--- demo with the change (must fail):"
RUST_BACKTRACE=0 cargo test --offline --test zz_demo > zz_demo.log 2>&1; echo "cargo test exit status: $?"
grep -E "^test result|panicked|FAILED|overflowed|SIGABRT|signal" zz_demo.log | head -6; rm -f zz_demo.log
git checkout -- src
echo "--- demo without the change (must pass):"
RUST_BACKTRACE=0 cargo test --offline --test zz_demo 2>&1 | grep -E "^test result|panicked|FAILED" | head -6
} > $OUT 2>&1
cd /verif; git -C /repo worktree remove --force $D
tail -12 $OUT
