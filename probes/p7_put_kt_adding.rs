use vstd::prelude::*;
use std::io::Result;
verus! {

#[verifier::external_type_specification]
#[verifier::external_body]
pub struct ExIoError(std::io::Error);

pub uninterp spec fn hash_of(k: Seq<u8>) -> u64;

pub trait DbMapKeyType: Sized {
    spec fn bytes(&self) -> Seq<u8>;
    fn hash_value(&self) -> (r: u64) ensures r == hash_of(self.bytes());
}

pub struct KeyRecV { pub key: Seq<u8>, pub val_off: u64, pub next: u64 }

// ---- record-level views + L3 contracts (assumed here; proved in units U3-U6) ----
#[verifier::external_body] pub struct KeyFile { x: u8 }
#[verifier::external_body] pub struct ValueFile { x: u8 }
#[verifier::external_body] pub struct HtxFile { x: u8 }
pub struct HtxV { pub buckets: Seq<u64>, pub count: nat }

impl ValueFile {
    pub uninterp spec fn view(&self) -> Map<u64, Seq<u8>>;
    #[verifier::external_body]
    pub fn add_value_piece(&mut self, value: &[u8]) -> (r: Result<u64>)
        ensures r is Ok, r->Ok_0 != 0, !old(self)@.dom().contains(r->Ok_0),
            final(self)@ == old(self)@.insert(r->Ok_0, value@)
    { unimplemented!() }
}
impl KeyFile {
    pub uninterp spec fn view(&self) -> Map<u64, KeyRecV>;
    #[verifier::external_body]
    pub fn add_key_piece<KT: DbMapKeyType>(&mut self, key: &KT, value_offset: u64, next_offset: u64) -> (r: Result<u64>)
        ensures r is Ok, r->Ok_0 != 0, !old(self)@.dom().contains(r->Ok_0),
            final(self)@ == old(self)@.insert(r->Ok_0, KeyRecV { key: key.bytes(), val_off: value_offset, next: next_offset })
    { unimplemented!() }
}
impl HtxFile {
    pub uninterp spec fn view(&self) -> HtxV;
    #[verifier::external_body]
    pub fn read_key_piece_offset(&mut self, hash: u64) -> (r: Result<u64>)
        requires old(self)@.buckets.len() > 0
        ensures r is Ok, final(self)@ == old(self)@,
            r->Ok_0 == old(self)@.buckets[(hash as int) % (old(self)@.buckets.len() as int)]
    { unimplemented!() }
    #[verifier::external_body]
    pub fn write_key_piece_offset(&mut self, hash: u64, offset: u64) -> (r: Result<()>)
        requires old(self)@.buckets.len() > 0
        ensures r is Ok, final(self)@.count == old(self)@.count,
            final(self)@.buckets == old(self)@.buckets.update((hash as int) % (old(self)@.buckets.len() as int), offset)
    { unimplemented!() }
    #[verifier::external_body]
    pub fn write_item_count_up(&mut self) -> (r: Result<()>)
        ensures r is Ok, final(self)@.buckets == old(self)@.buckets, final(self)@.count == old(self)@.count + 1
    { unimplemented!() }
}

pub struct Inner { pub key_file: KeyFile, pub val_file: ValueFile, pub htx_file: HtxFile }

// ---- map_wf with one global chain witness ----
pub open spec fn is_chain(h: Map<u64, KeyRecV>, head: u64, s: Seq<u64>) -> bool {
    &&& (head == 0 <==> s.len() == 0)
    &&& (s.len() > 0 ==> s[0] == head)
    &&& (forall|i: int| 0 <= i < s.len() ==> s[i] != 0 && h.dom().contains(#[trigger] s[i]))
    &&& (forall|i: int| 0 <= i < s.len() - 1 ==> (#[trigger] h[s[i]]).next == s[i + 1])
    &&& (s.len() > 0 ==> h[s[s.len() - 1]].next == 0)
}
pub open spec fn total(cs: Seq<Seq<u64>>) -> nat decreases cs.len() {
    if cs.len() == 0 { 0 } else { total(cs.drop_last()) + cs.last().len() }
}

pub type KM = Map<u64, KeyRecV>;
pub type VM = Map<u64, Seq<u8>>;

pub open spec fn placed(km: KM, vm: VM, n: int, b: int, s: Seq<u64>) -> bool {
    &&& (forall|i: int| 0 <= i < s.len() ==> (hash_of(km[#[trigger] s[i]].key) as int) % n == b && vm.dom().contains(km[s[i]].val_off))
    &&& (forall|i: int, j: int| 0 <= i < j < s.len() ==> km[#[trigger] s[i]].key != km[#[trigger] s[j]].key)
}
pub open spec fn ok(km: KM, vm: VM, buckets: Seq<u64>, count: nat, cs: Seq<Seq<u64>>) -> bool {
    let n = buckets.len() as int;
    &&& n > 0 && cs.len() == n
    &&& (forall|b: int| 0 <= b < n ==> is_chain(km, buckets[b], #[trigger] cs[b]) && placed(km, vm, n, b, cs[b]))
    &&& count == total(cs)
}
pub open spec fn inner_ok(m: Inner, cs: Seq<Seq<u64>>) -> bool {
    ok(m.key_file@, m.val_file@, m.htx_file@.buckets, m.htx_file@.count, cs)
}
pub open spec fn wf(m: Inner) -> bool { exists|cs: Seq<Seq<u64>>| inner_ok(m, cs) }
pub open spec fn chain_has_key(km: KM, s: Seq<u64>, k: Seq<u8>) -> bool {
    exists|i: int| 0 <= i < s.len() && km[#[trigger] s[i]].key == k
}

pub proof fn total_update(cs: Seq<Seq<u64>>, b: int, s: Seq<u64>)
    requires 0 <= b < cs.len()
    ensures total(cs.update(b, s)) == total(cs) - cs[b].len() + s.len()
    decreases cs.len()
{
    if b == cs.len() - 1 {
        assert(cs.update(b, s).drop_last() =~= cs.drop_last());
    } else {
        total_update(cs.drop_last(), b, s);
        assert(cs.update(b, s).drop_last() =~= cs.drop_last().update(b, s));
    }
}

// a chain of old records is untouched by inserting records at fresh offsets
pub proof fn chain_frame(km: KM, vm: VM, n: int, b: int, head: u64, s: Seq<u64>, k: u64, rec: KeyRecV, v: u64, val: Seq<u8>)
    requires is_chain(km, head, s), placed(km, vm, n, b, s), !km.dom().contains(k), !vm.dom().contains(v)
    ensures is_chain(km.insert(k, rec), head, s), placed(km.insert(k, rec), vm.insert(v, val), n, b, s)
{
    let km2 = km.insert(k, rec);
    assert forall|i: int| 0 <= i < s.len() implies s[i] != k by { assert(km.dom().contains(s[i])); }
    assert forall|i: int| 0 <= i < s.len() - 1 implies (#[trigger] km2[s[i]]).next == s[i + 1] by { assert(km[s[i]].next == s[i + 1]); }
}

// pushing a fresh record in front of a chain
pub proof fn chain_push(km: KM, vm: VM, n: int, b: int, head: u64, s: Seq<u64>, k: u64, key: Seq<u8>, v: u64, val: Seq<u8>)
    requires is_chain(km, head, s), placed(km, vm, n, b, s), !km.dom().contains(k), !vm.dom().contains(v), k != 0,
        (hash_of(key) as int) % n == b, !chain_has_key(km, s, key),
    ensures
        is_chain(km.insert(k, KeyRecV { key, val_off: v, next: head }), k, seq![k] + s),
        placed(km.insert(k, KeyRecV { key, val_off: v, next: head }), vm.insert(v, val), n, b, seq![k] + s),
{
    let rec = KeyRecV { key, val_off: v, next: head };
    let km2 = km.insert(k, rec);
    let vm2 = vm.insert(v, val);
    let s2 = seq![k] + s;
    chain_frame(km, vm, n, b, head, s, k, rec, v, val);
    assert forall|i: int| 0 <= i < s.len() implies s[i] != k by { assert(km.dom().contains(s[i])); }
    assert(forall|i: int| 1 <= i < s2.len() ==> s2[i] == s[i - 1]);
    assert forall|i: int| 0 <= i < s2.len() - 1 implies (#[trigger] km2[s2[i]]).next == s2[i + 1] by {
        if i >= 1 { assert(km2[s[i - 1]].next == s[i]); }
    }
    assert forall|i: int, j: int| 0 <= i < j < s2.len() implies km2[#[trigger] s2[i]].key != km2[#[trigger] s2[j]].key by {
        if i == 0 { assert(km[s[j - 1]].key != key); } else { assert(km2[s[i - 1]].key != km2[s[j - 1]].key); }
    }
    assert forall|i: int| 0 <= i < s2.len() implies (hash_of(km2[#[trigger] s2[i]].key) as int) % n == b && vm2.dom().contains(km2[s2[i]].val_off) by {
        if i >= 1 { assert(km2[s[i - 1]].key == km[s[i - 1]].key); }
    }
}

pub proof fn ok_add_head(km: KM, vm: VM, buckets: Seq<u64>, count: nat, cs: Seq<Seq<u64>>, b: int, k: u64, key: Seq<u8>, v: u64, val: Seq<u8>)
    requires ok(km, vm, buckets, count, cs), 0 <= b < buckets.len(), !km.dom().contains(k), !vm.dom().contains(v), k != 0,
        (hash_of(key) as int) % (buckets.len() as int) == b, !chain_has_key(km, cs[b], key),
    ensures ok(km.insert(k, KeyRecV { key, val_off: v, next: buckets[b] }), vm.insert(v, val), buckets.update(b, k), count + 1, cs.update(b, seq![k] + cs[b])),
{
    let n = buckets.len() as int;
    let rec = KeyRecV { key, val_off: v, next: buckets[b] };
    let cs2 = cs.update(b, seq![k] + cs[b]);
    total_update(cs, b, seq![k] + cs[b]);
    assert forall|bb: int| 0 <= bb < n implies
        is_chain(km.insert(k, rec), buckets.update(b, k)[bb], #[trigger] cs2[bb]) && placed(km.insert(k, rec), vm.insert(v, val), n, bb, cs2[bb]) by {
        assert(is_chain(km, buckets[bb], cs[bb]) && placed(km, vm, n, bb, cs[bb]));
        if bb == b { chain_push(km, vm, n, b, buckets[b], cs[b], k, key, v, val); }
        else { chain_frame(km, vm, n, bb, buckets[bb], cs[bb], k, rec, v, val); }
    }
}

impl Inner {
    // the "adding" branch of put_kt (dbxxx.rs:253-264), statements verbatim modulo flattened newtypes
    fn put_kt_adding<KT: DbMapKeyType>(&mut self, key_kt: &KT, value: &[u8], Ghost(cs): Ghost<Seq<Seq<u64>>>) -> (r: Result<()>)
        requires inner_ok(*old(self), cs),
            !chain_has_key(old(self).key_file@, cs[(hash_of(key_kt.bytes()) as int) % (cs.len() as int)], key_kt.bytes()),
        ensures r is Ok, wf(*final(self)),
    {
        let hash = key_kt.hash_value();
        let ghost b = (hash as int) % (self.htx_file@.buckets.len() as int);
        let ghost (km, vm, bk, cnt) = (self.key_file@, self.val_file@, self.htx_file@.buckets, self.htx_file@.count);
        // adding
        let bucket_next_offset = self.htx_file.read_key_piece_offset(hash)?;
        let new_val_piece = self.val_file.add_value_piece(value)?;
        let new_key_piece = self.key_file.add_key_piece(key_kt, new_val_piece, bucket_next_offset)?;
        self.htx_file.write_key_piece_offset(hash, new_key_piece)?;
        self.htx_file.write_item_count_up()?;
        proof {
            ok_add_head(km, vm, bk, cnt, cs, b, new_key_piece, key_kt.bytes(), new_val_piece, value@);
            assert(inner_ok(*self, cs.update(b, seq![new_key_piece] + cs[b])));
        }
        Ok(())
    }
}

} // verus!
fn main() {}
