use vstd::prelude::*;
use std::marker::PhantomData;
use std::io::{Result, SeekFrom};
verus! {

#[verifier::external_type_specification]
#[verifier::external_body]
pub struct ExIoError(std::io::Error);

#[verifier::external_type_specification]
pub struct ExSeekFrom(std::io::SeekFrom);

#[derive(Clone, Copy, PartialEq, PartialOrd)]
pub struct Piece<T> { pub _phantom: PhantomData<T>, }
#[derive(Clone, Copy, PartialEq, PartialOrd)]
pub struct Value;
#[derive(Clone, Copy, PartialEq, PartialOrd)]
pub struct Offset<T> { pub val: u64, pub _phantom: PhantomData<T>, }
impl<T> Offset<T> {
    pub fn new(val: u64) -> (r: Self) ensures r.val == val { Self { val, _phantom: PhantomData } }
}
#[derive(Clone, Copy, PartialEq)]
pub struct Size<T> { pub val: u32, pub _phantom: PhantomData<T>, }
impl<T> Size<T> {
    pub fn new(val: u32) -> (r: Self) ensures r.val == val { Self { val, _phantom: PhantomData } }
}
pub type PieceOffset<T> = Offset<Piece<T>>;
pub type PieceSize<T> = Size<Piece<T>>;

impl<T> From<Offset<T>> for u64 {
    fn from(value: Offset<T>) -> (r: Self) ensures r == value.val {
        value.val
    }
}
impl<T> From<Size<T>> for u32 {
    fn from(value: Size<T>) -> (r: Self) ensures r == value.val { value.val }
}

impl<T> vstd::std_specs::ops::AddSpecImpl<PieceSize<T>> for Offset<T> {
    open spec fn obeys_add_spec() -> bool { true }
    open spec fn add_req(self, rhs: PieceSize<T>) -> bool { self.val + rhs.val <= u64::MAX }
    open spec fn add_spec(self, rhs: PieceSize<T>) -> Offset<T> { Offset { val: (self.val + rhs.val) as u64, _phantom: PhantomData } }
}
impl<T> std::ops::Add<PieceSize<T>> for Offset<T> {
    type Output = Offset<T>;
    fn add(self, rhs: PieceSize<T>) -> Self::Output {
        Offset::new(self.val + rhs.val as u64)
    }
}
impl<T> vstd::std_specs::ops::SubSpecImpl<Offset<T>> for Offset<T> {
    open spec fn obeys_sub_spec() -> bool { true }
    open spec fn sub_req(self, rhs: Offset<T>) -> bool { self.val >= rhs.val }
    open spec fn sub_spec(self, rhs: Offset<T>) -> Size<T> { Size { val: ((self.val - rhs.val) as u64) as u32, _phantom: PhantomData } }
}
impl<T> std::ops::Sub<Offset<T>> for Offset<T> {
    type Output = Size<T>;
    fn sub(self, rhs: Offset<T>) -> Self::Output {
        let val = self.val - rhs.val;
        let val = val as u32;
        Size::new(val)
    }
}

pub struct FileModel { pub bytes: Seq<u8>, pub pos: nat }
#[verifier::external_body]
pub struct BufFile { _x: u8 }
impl BufFile {
    pub uninterp spec fn view(&self) -> FileModel;
    #[verifier::external_body]
    pub fn seek(&mut self, pos: SeekFrom) -> (r: Result<u64>)
        ensures r is Ok,
          pos matches SeekFrom::Start(x) ==> final(self)@.pos == x && r->Ok_0 == x,
    { unimplemented!() }
    #[verifier::external_body]
    pub fn stream_position(&mut self) -> (r: Result<u64>)
        ensures r is Ok, r->Ok_0 == old(self)@.pos, final(self)@ == old(self)@
    { unimplemented!() }
    #[verifier::external_body]
    pub fn write_zero(&mut self, size: u32) -> (r: Result<()>)
        ensures r is Ok ==> final(self)@.pos == old(self)@.pos + size
    { unimplemented!() }
    #[verifier::external_body]
    pub fn prepare(&mut self, offset: u64) -> (r: Result<()>)
        ensures final(self)@ == old(self)@
    { unimplemented!() }
}
pub struct VarFile { pub buf_file: BufFile }

impl VarFile {
    fn seek(&mut self, pos: SeekFrom) -> (r: Result<u64>)
        ensures r is Ok, pos matches SeekFrom::Start(x) ==> final(self).buf_file@.pos == x && r->Ok_0 == x,
    {
        self.buf_file.seek(pos)
    }
    fn stream_position(&mut self) -> (r: Result<u64>) 
        ensures r is Ok, r->Ok_0 == old(self).buf_file@.pos, final(self).buf_file@ == old(self).buf_file@
    { self.buf_file.stream_position() }

    pub fn prepare<T>(&mut self, offset: Offset<T>) -> (r: Result<()>)
        ensures final(self).buf_file@ == old(self).buf_file@
    {
        self.buf_file.prepare(offset.into())
    }
    pub fn seek_from_start<T: PartialEq + Copy>(&mut self, offset: Offset<T>) -> (r: Result<Offset<T>>)
        ensures r is Ok ==> final(self).buf_file@.pos == offset.val
    {
        let pos = self
            .seek(SeekFrom::Start(offset.into()))
            .map(Offset::<T>::new)?;
        self.prepare(offset)?;
        Ok(pos)
    }
    pub fn seek_position<T>(&mut self) -> (r: Result<Offset<T>>)
        ensures r is Ok ==> r->Ok_0.val == old(self).buf_file@.pos, final(self).buf_file@ == old(self).buf_file@
    {
        self.stream_position().map(Offset::<T>::new)
    }
    pub fn write_zero_to_offset<T: PartialOrd>(&mut self, offset: Offset<T>) -> (r: Result<()>)
        ensures r is Ok ==> final(self).buf_file@.pos == (if offset.val > old(self).buf_file@.pos { offset.val as nat } else { old(self).buf_file@.pos })
    {
        let start_offset = self.seek_position()?;
        if offset > start_offset {
            let size = offset - start_offset;
            self.buf_file.write_zero(size.into())
        } else {
            Ok(())
        }
    }
}

} // verus!
fn main() {}
