use vstd::prelude::*;
use std::io::Result;
verus! {

#[verifier::external_type_specification]
#[verifier::external_body]
pub struct ExIoError(std::io::Error);

pub uninterp spec fn le64(b: Seq<u8>, p: int) -> u64;
#[verifier::external_body]
pub broadcast proof fn le64_zero(b: Seq<u8>, p: int)
    requires 0 <= p, p + 8 <= b.len()
    ensures (#[trigger] le64(b, p) == 0) <==> (forall|k: int| p <= k < p + 8 ==> #[trigger] b[k] == 0u8) {}

pub open spec fn bit_set(byte: u8, k: int) -> bool { (byte >> (k as u8)) & 1u8 == 1u8 }
pub proof fn zero_byte_no_bits(byte: u8, k: u8)
    requires byte == 0, k < 8
    ensures !bit_set(byte, k as int)
{ assert((0u8 >> k) & 1u8 != 1u8) by (bit_vector) requires k < 8; }

pub struct FileV { pub bytes: Seq<u8>, pub pos: int }

pub open spec fn bucket(b: Seq<u8>, i: int) -> u64 { le64(b, 128 + 8 * i) }
pub open spec fn bm(n: int) -> int { 128 + 8 * n }
pub open spec fn htx_wf(b: Seq<u8>, n: int) -> bool {
    &&& n >= 8 && n % 8 == 0 && n <= 0x1000_0000
    &&& b.len() == 128 + 8 * n + n / 8
    &&& forall|i: int| 0 <= i < n && #[trigger] bucket(b, i) != 0 ==> bit_set(b[bm(n) + i / 8], i % 8)
}
pub open spec fn all_empty(b: Seq<u8>, lo: int, hi: int) -> bool {
    forall|i: int| lo <= i < hi ==> #[trigger] bucket(b, i) == 0
}

#[verifier::external_body]
pub struct VarFile { _x: u8 }
impl VarFile {
    pub uninterp spec fn view(&self) -> FileV;
    #[verifier::external_body]
    pub fn seek_from_start(&mut self, offset: u64) -> (r: Result<u64>)
        requires offset <= old(self)@.bytes.len()
        ensures r is Ok, final(self)@.pos == offset, final(self)@.bytes == old(self)@.bytes
    { unimplemented!() }
    #[verifier::external_body]
    pub fn seek_back_size(&mut self, size: u32) -> (r: Result<u64>)
        requires old(self)@.pos >= size
        ensures r is Ok, final(self)@.pos == old(self)@.pos - size, final(self)@.bytes == old(self)@.bytes
    { unimplemented!() }
    #[verifier::external_body]
    pub fn read_u64_le(&mut self) -> (r: Result<u64>)
        requires 0 <= old(self)@.pos, old(self)@.pos + 8 <= old(self)@.bytes.len()
        ensures r is Ok, r->Ok_0 == le64(old(self)@.bytes, old(self)@.pos),
            final(self)@.pos == old(self)@.pos + 8, final(self)@.bytes == old(self)@.bytes
    { unimplemented!() }
    #[verifier::external_body]
    pub fn read_u8(&mut self) -> (r: Result<u8>)
        requires 0 <= old(self)@.pos, old(self)@.pos + 1 <= old(self)@.bytes.len()
        ensures r is Ok, r->Ok_0 == old(self)@.bytes[old(self)@.pos],
            final(self)@.pos == old(self)@.pos + 1, final(self)@.bytes == old(self)@.bytes
    { unimplemented!() }
}

pub proof fn lemma_zero_bytes_empty(b: Seq<u8>, n: int, idx: int, cnt: int)
    requires htx_wf(b, n), 0 <= idx, idx % 8 == 0, cnt >= 0, idx + 8 * cnt <= n,
        forall|k: int| bm(n) + idx / 8 <= k < bm(n) + idx / 8 + cnt ==> #[trigger] b[k] == 0u8,
    ensures all_empty(b, idx, idx + 8 * cnt)
{
    assert forall|i: int| idx <= i < idx + 8 * cnt implies #[trigger] bucket(b, i) == 0 by {
        let k = bm(n) + i / 8;
        assert(bm(n) + idx / 8 <= k < bm(n) + idx / 8 + cnt);
        assert(b[k] == 0u8);
        zero_byte_no_bits(b[bm(n) + i / 8], (i % 8) as u8);
    }
}

const HTX_HEADER_SZ: u64 = 128;
impl VarFile {
    pub fn next_key_piece_offset(&mut self, buckets_size: u64, idx: u64) -> (res: Result<(u64, u64)>)
        requires htx_wf(old(self)@.bytes, buckets_size as int), idx < buckets_size,
        ensures
            final(self)@.bytes == old(self)@.bytes,
            res is Ok,
            ({
                let (j, off) = res->Ok_0;
                &&& idx < j <= buckets_size
                &&& all_empty(old(self)@.bytes, idx as int, j - 1)
                &&& off == bucket(old(self)@.bytes, j - 1)
                &&& (off == 0 ==> j == buckets_size)
            }),
    {
        let ghost idx0 = idx as int;
        let ghost n = buckets_size as int;
        let ghost b0 = self@.bytes;
        let idx = {
            let bitmap_idx = idx / 8;
            let bitmap_bit_idx = idx % 8;
            //
            if bitmap_bit_idx == 0 {
                let bimap_start = HTX_HEADER_SZ + buckets_size * 8;
                self.seek_from_start(bimap_start + bitmap_idx)?;
                let mut idx = idx;
                //
                let mut byte_8 = 0;
                while byte_8 == 0 && idx + 8 * 8 <= buckets_size
                    invariant 
                        htx_wf(b0, n), self@.bytes == b0, n == buckets_size, idx0 % 8 == 0, idx0 < n,
                        idx % 8 == 0, idx0 <= idx <= n + 64, self@.pos == bm(n) + idx / 8,
                        byte_8 == 0 ==> idx <= n && all_empty(b0, idx0, idx as int),
                        byte_8 != 0 ==> idx >= idx0 + 64 && idx - 64 + 64 <= n && all_empty(b0, idx0, idx - 64),
                    decreases buckets_size + 64 - idx
                {
                    byte_8 = self.read_u64_le()?;
                    proof {
                        if byte_8 == 0 {
                            le64_zero(self@.bytes, bm(buckets_size as int) + idx / 8);
                            lemma_zero_bytes_empty(self@.bytes, buckets_size as int, idx as int, 8);
                        }
                    }
                    idx += 8 * 8;
                }
                if byte_8 != 0 {
                    self.seek_back_size(8)?;
                    idx -= 8 * 8;
                }
                //
                let mut byte = 0;
                while byte == 0 && idx < buckets_size
                    invariant
                        htx_wf(b0, n), self@.bytes == b0, n == buckets_size, idx0 % 8 == 0, idx0 < n,
                        idx % 8 == 0, idx0 <= idx <= n, self@.pos == bm(n) + idx / 8,
                        byte == 0 ==> all_empty(b0, idx0, idx as int),
                        byte != 0 ==> idx >= idx0 + 8 && all_empty(b0, idx0, idx - 8),
                    decreases buckets_size + 8 - idx
                {
                    byte = self.read_u8()?;
                    proof {
                        if byte == 0 { lemma_zero_bytes_empty(b0, n, idx as int, 1); }
                    }
                    idx += 8;
                }
                idx - 8
            } else {
                idx
            }
        };
        //
        self.seek_from_start(HTX_HEADER_SZ + 8 * idx)?;
        let mut idx = idx;
        let mut off = 0;
        while off == 0 && idx < buckets_size
            invariant
                htx_wf(b0, n), self@.bytes == b0, n == buckets_size,
                idx0 <= idx <= n, self@.pos == 128 + 8 * idx,
                off == 0 ==> all_empty(b0, idx0, idx as int),
                off != 0 ==> idx > idx0 && all_empty(b0, idx0, idx - 1) && off == bucket(b0, idx - 1),
            decreases buckets_size - idx
        {
            off = self.read_u64_le()?;
            idx += 1;
        }
        Ok((idx, off))
    }
}
} // verus!
fn main() {}
