use vstd::prelude::*;
use std::marker::PhantomData;
use std::io::Result;
verus! {

#[verifier::external_type_specification]
#[verifier::external_body]
pub struct ExIoError(std::io::Error);

pub struct Piece<T> { pub _phantom: PhantomData<T>, }
pub struct Node;
pub struct Key;

#[derive(Clone, Copy)]
pub struct Offset<T> { pub val: u64, pub _phantom: PhantomData<T>, }
impl<T> Offset<T> {
    pub fn new(val: u64) -> (r: Self) ensures r.val == val { Self { val, _phantom: PhantomData } }
    pub fn as_value(&self) -> (r: u64) ensures r == self.val { self.val }
    pub fn is_zero(&self) -> (r: bool) ensures r == (self.val == 0) { self.val == 0 }
}
#[derive(Clone, Copy)]
pub struct Size<T> { pub val: u32, pub _phantom: PhantomData<T>, }
impl<T> Size<T> {
    pub fn new(val: u32) -> (r: Self) ensures r.val == val { Self { val, _phantom: PhantomData } }
}
pub type PieceOffset<T> = Offset<Piece<T>>;
pub type KeyPieceOffset = PieceOffset<Key>;
pub type NodePieceOffset = Offset<Piece<Node>>;
pub type NodePieceSize = Size<Piece<Node>>;

// ---- trusted model of the buffered file
pub struct FileModel { pub bytes: Seq<u8>, pub pos: nat }

#[verifier::external_body]
pub struct VarFile { _x: u8 }

impl VarFile {
    pub uninterp spec fn view(&self) -> FileModel;

    #[verifier::external_body]
    pub fn seek_from_start<T>(&mut self, offset: Offset<T>) -> (r: Result<Offset<T>>)
        ensures
            final(self)@.pos == offset.val,
            final(self)@.bytes.len() == (if offset.val > old(self)@.bytes.len() { offset.val as nat } else { old(self)@.bytes.len() }),
            forall|i: int| 0 <= i < old(self)@.bytes.len() ==> final(self)@.bytes[i] == old(self)@.bytes[i],
            r is Ok,
    { unimplemented!() }

    #[verifier::external_body]
    pub fn seek_back_size<T>(&mut self, size: Size<T>) -> (r: Result<Offset<T>>)
        requires old(self)@.pos >= size.val
        ensures final(self)@.pos == old(self)@.pos - size.val, final(self)@.bytes == old(self)@.bytes, r is Ok,
    { unimplemented!() }

    #[verifier::external_body]
    pub fn read_u64_le(&mut self) -> (r: Result<u64>)
        ensures final(self)@.pos == old(self)@.pos + 8, final(self)@.bytes == old(self)@.bytes,
           r is Ok, 
    { unimplemented!() }

    #[verifier::external_body]
    pub fn read_u8(&mut self) -> (r: Result<u8>)
        ensures final(self)@.pos == old(self)@.pos + 1, final(self)@.bytes == old(self)@.bytes,
           r is Ok,
    { unimplemented!() }
}

const HTX_HEADER_SZ: u64 = 128;

impl VarFile {
    pub fn next_key_piece_offset(
        &mut self,
        buckets_size: u64,
        idx: u64,
    ) -> (res: Result<(u64, KeyPieceOffset)>)
        requires buckets_size >= 8, buckets_size <= 0x1000_0000, idx < buckets_size,
    {
        // write flag into bitmap
        let idx = {
            let bitmap_idx = idx / 8;
            let bitmap_bit_idx = idx % 8;
            //
            if bitmap_bit_idx == 0 {
                let bimap_start = HTX_HEADER_SZ + buckets_size * 8;
                self.seek_from_start(NodePieceOffset::new(bimap_start + bitmap_idx))?;
                let mut idx = idx;
                //
                let mut byte_8 = 0;
                while byte_8 == 0 && idx < buckets_size - 8
                    invariant idx <= buckets_size + 64, buckets_size >= 8, buckets_size <= 0x1000_0000,
                    decreases buckets_size + 64 - idx
                {
                    byte_8 = self.read_u64_le()?;
                    idx += 8 * 8;
                }
                if idx >= 8 * 8 {
                    self.seek_back_size(NodePieceSize::new(std::mem::size_of_val(&byte_8) as u32))?;
                    idx -= 8 * 8;
                }
                //
                let mut byte = 0;
                while byte == 0 && idx < buckets_size
                    invariant idx <= buckets_size + 8, buckets_size <= 0x1000_0000,
                    decreases buckets_size + 8 - idx
                {
                    byte = self.read_u8()?;
                    idx += 8;
                }
                idx - 8
            } else {
                idx
            }
        };
        //
        self.seek_from_start(NodePieceOffset::new(HTX_HEADER_SZ + 8 * idx))?;
        let mut idx = idx;
        let mut off = 0;
        while off == 0 && idx < buckets_size
            invariant idx <= buckets_size
            decreases buckets_size - idx
        {
            off = self.read_u64_le()?;
            idx += 1;
        }
        Ok((idx, KeyPieceOffset::new(off)))
    }
}

} // verus!
fn main() {}
