use vstd::prelude::*;
use std::marker::PhantomData;
use std::io::Result;
use std::cmp::Ordering;
verus! {

#[verifier::external_type_specification]
#[verifier::external_body]
pub struct ExIoError(std::io::Error);

#[derive(Clone, Copy)]
pub struct Piece<T> { pub _phantom: PhantomData<T>, }
#[derive(Clone, Copy)]
pub struct Key;
#[derive(Clone, Copy)]
pub struct Offset<T> { pub val: u64, pub _phantom: PhantomData<T>, }
impl<T> Offset<T> {
    pub fn new(val: u64) -> (r: Self) ensures r.val == val { Self { val, _phantom: PhantomData } }
    pub fn as_value(&self) -> (r: u64) ensures r == self.val { self.val }
    pub fn is_zero(&self) -> (r: bool) ensures r == (self.val == 0) { self.val == 0 }
}
pub type PieceOffset<T> = Offset<Piece<T>>;
pub type KeyPieceOffset = PieceOffset<Key>;
#[derive(Clone, Copy)]
pub struct HashValue { pub val: u64 }
impl HashValue { pub fn as_value(&self) -> (r: u64) ensures r == self.val { self.val } }

pub trait DbMapKeyType: Sized {
    spec fn bytes(&self) -> Seq<u8>;
    fn cmp_u8(&self, other: &[u8]) -> (r: Ordering)
        ensures (r == Ordering::Equal) <==> (self.bytes() == other@);
}

// record-level view of the key file
pub struct KeyRecV { pub key: Seq<u8>, pub val_off: u64, pub next: u64 }
pub struct KeyHeap { pub recs: Map<u64, KeyRecV> }

#[verifier::external_body]
pub struct MaybeSlice<'a> { x: &'a [u8] }
impl<'a> MaybeSlice<'a> {
    pub uninterp spec fn view(&self) -> Seq<u8>;
    #[verifier::external_body]
    pub fn deref(&self) -> (r: &[u8]) ensures r@ == self@ { unimplemented!() }
}

#[verifier::external_body]
#[verifier::accept_recursive_types(KT)]
pub struct VarFileKeyCache<KT> { x: PhantomData<KT> }
impl<KT: DbMapKeyType> VarFileKeyCache<KT> {
    pub uninterp spec fn view(&self) -> KeyHeap;
    #[verifier::external_body]
    pub fn read_piece_only_key_maybeslice(&mut self, offset: KeyPieceOffset) -> (r: Result<MaybeSlice<'_>>)
        requires old(self)@.recs.dom().contains(offset.val)
        ensures final(self)@ == old(self)@, r is Ok ==> r->Ok_0@ == old(self)@.recs[offset.val].key
    { unimplemented!() }
    #[verifier::external_body]
    pub fn read_piece_only_bucket_next_offset(&mut self, offset: KeyPieceOffset) -> (r: Result<KeyPieceOffset>)
        requires old(self)@.recs.dom().contains(offset.val)
        ensures final(self)@ == old(self)@, r is Ok ==> r->Ok_0.val == old(self)@.recs[offset.val].next
    { unimplemented!() }
}
pub struct KeyFile<KT>(pub VarFileKeyCache<KT>);

pub struct HtxV { pub buckets: Seq<u64>, pub count: u64 }
#[verifier::external_body]
pub struct HtxFile { x: u8 }
impl HtxFile {
    pub uninterp spec fn view(&self) -> HtxV;
    #[verifier::external_body]
    pub fn read_key_piece_offset(&mut self, hash: HashValue) -> (r: Result<KeyPieceOffset>)
        requires old(self)@.buckets.len() > 0
        ensures final(self)@ == old(self)@, r is Ok ==> r->Ok_0.val == old(self)@.buckets[(hash.val % (old(self)@.buckets.len() as u64)) as int]
    { unimplemented!() }
}

pub struct FileDbXxxInner<KT: DbMapKeyType> {
    pub dirty: bool,
    pub key_file: KeyFile<KT>,
    pub htx_file: HtxFile,
}

pub open spec fn is_chain(h: KeyHeap, head: u64, s: Seq<u64>) -> bool {
    &&& (head == 0 <==> s.len() == 0)
    &&& (s.len() > 0 ==> s[0] == head)
    &&& forall|i: int| 0 <= i < s.len() ==> s[i] != 0 && #[trigger] h.recs.dom().contains(s[i])
    &&& forall|i: int| 0 <= i < s.len() - 1 ==> (#[trigger] h.recs[s[i]]).next == s[i + 1]
    &&& (s.len() > 0 ==> h.recs[s[s.len() - 1]].next == 0)
}

impl<KT: DbMapKeyType> FileDbXxxInner<KT> {
    pub open spec fn wf(&self) -> bool {
        &&& self.htx_file@.buckets.len() > 0
        &&& forall|b: int| 0 <= b < self.htx_file@.buckets.len() ==> exists|s: Seq<u64>| is_chain(self.key_file.0@, #[trigger] self.htx_file@.buckets[b], s)
    }

    fn find_in_hash_buckets_kt(
        &mut self,
        hash: HashValue,
        key_kt: &KT,
    ) -> (res: Result<Option<(KeyPieceOffset, KeyPieceOffset)>>)
        requires old(self).wf(),
        ensures final(self).wf(), final(self).key_file.0@ == old(self).key_file.0@, final(self).htx_file@ == old(self).htx_file@,
            res is Ok && res->Ok_0 is Some ==> {
                let (k, p) = res->Ok_0->Some_0;
                &&& old(self).key_file.0@.recs.dom().contains(k.val)
                &&& old(self).key_file.0@.recs[k.val].key == key_kt.bytes()
            },
    {
        let mut prev_key_offset = KeyPieceOffset::new(0);
        let mut key_offset = self.htx_file.read_key_piece_offset(hash)?;
        let ghost b = (hash.val % (self.htx_file@.buckets.len() as u64)) as int;
        let ghost s: Seq<u64> = choose|s: Seq<u64>| is_chain(self.key_file.0@, self.htx_file@.buckets[b], s);
        let ghost mut i: int = 0;
        if !key_offset.is_zero() {
            let mut locked_key = &mut self.key_file.0;
            //
            while !key_offset.is_zero()
                invariant
                    is_chain(locked_key@, old(self).htx_file@.buckets[b], s),
                    locked_key@ == old(self).key_file.0@,
                    0 <= i <= s.len(),
                    key_offset.val != 0 ==> i < s.len() && s[i] == key_offset.val,
                    key_offset.val == 0 ==> i == s.len(),
                decreases s.len() - i
            {
                let flg = {
                    let key_string = locked_key.read_piece_only_key_maybeslice(key_offset)?;
                    match key_kt.cmp_u8(key_string.deref()) {
                        Ordering::Equal => true,
                        Ordering::Greater => false,
                        Ordering::Less => false,
                    }
                };
                if flg {
                    return Ok(Some((key_offset, prev_key_offset)));
                } else {
                    //
                    prev_key_offset = key_offset;
                    key_offset = locked_key.read_piece_only_bucket_next_offset(key_offset)?;
                    proof { i = i + 1; }
                }
            }
        }
        Ok(None)
    }
}

} // verus!
fn main() {}
