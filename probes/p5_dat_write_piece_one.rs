use vstd::prelude::*;
use std::io::Result;
verus! {

#[verifier::external_type_specification]
#[verifier::external_body]
pub struct ExIoError(std::io::Error);

// ---------- spec library (prelude) ----------
pub open spec fn enc_len(v: nat) -> nat {
    if v <= 0x7F { 1 } else if v <= 0x3FFF { 2 } else if v <= 0x1F_FFFF { 3 } else if v <= 0x0FFF_FFFF { 4 }
    else if v <= 0x07_FFFF_FFFF { 5 } else if v <= 0x03FF_FFFF_FFFF { 6 } else if v <= 0x01_FFFF_FFFF_FFFF { 7 }
    else if v <= 0xFF_FFFF_FFFF_FFFF { 8 } else { 9 }
}
pub uninterp spec fn vu64_enc(v: nat) -> Seq<u8>;
#[verifier::external_body]
pub broadcast proof fn vu64_enc_len(v: nat)
    ensures #[trigger] vu64_enc(v).len() == enc_len(v) {}

pub open spec fn zeros(n: nat) -> Seq<u8> { Seq::new(n, |i: int| 0u8) }

// bytes after writing `data` at `pos` (pos <= len)
pub open spec fn write_at(b: Seq<u8>, pos: nat, data: Seq<u8>) -> Seq<u8> {
    if pos + data.len() <= b.len() {
        b.subrange(0, pos as int) + data + b.subrange((pos + data.len()) as int, b.len() as int)
    } else {
        b.subrange(0, pos as int) + data
    }
}
pub struct FileV { pub bytes: Seq<u8>, pub pos: nat }

// value record image
pub open spec fn val_image(size: nat, value: Seq<u8>) -> Seq<u8> {
    let head = vu64_enc(size / 8) + vu64_enc(value.len()) + value;
    head + zeros((size - head.len()) as nat)
}

// ---------- trusted shims (rabuf + vu64 io) ----------
#[verifier::external_body]
pub struct VarFile { _x: u8 }
impl VarFile {
    pub uninterp spec fn view(&self) -> FileV;

    #[verifier::external_body]
    pub fn seek_from_start(&mut self, offset: u64) -> (r: Result<u64>)
        requires offset <= old(self)@.bytes.len()
        ensures r is Ok, final(self)@.pos == offset, final(self)@.bytes == old(self)@.bytes
    { unimplemented!() }
    #[verifier::external_body]
    pub fn seek_position(&mut self) -> (r: Result<u64>)
        ensures r is Ok, r->Ok_0 == old(self)@.pos, final(self)@ == old(self)@
    { unimplemented!() }
    #[verifier::external_body]
    pub fn encode_and_write_vu64(&mut self, value: u64) -> (r: Result<()>)
        requires old(self)@.pos <= old(self)@.bytes.len()
        ensures r is Ok, final(self)@.bytes == write_at(old(self)@.bytes, old(self)@.pos, vu64_enc(value as nat)),
                final(self)@.pos == old(self)@.pos + enc_len(value as nat)
    { unimplemented!() }
    #[verifier::external_body]
    pub fn write_all_small(&mut self, buf: &[u8]) -> (r: Result<()>)
        requires old(self)@.pos <= old(self)@.bytes.len()
        ensures r is Ok, final(self)@.bytes == write_at(old(self)@.bytes, old(self)@.pos, buf@),
                final(self)@.pos == old(self)@.pos + buf@.len()
    { unimplemented!() }
    #[verifier::external_body]
    pub fn write_zero(&mut self, size: u32) -> (r: Result<()>)
        requires old(self)@.pos <= old(self)@.bytes.len()
        ensures r is Ok, final(self)@.bytes == write_at(old(self)@.bytes, old(self)@.pos, zeros(size as nat)),
                final(self)@.pos == old(self)@.pos + size
    { unimplemented!() }
}

// ---------- real code (vfile.rs / val.rs), newtypes flattened for the probe ----------
impl VarFile {
    pub fn write_vu64_u32(&mut self, value: u32) -> (r: Result<()>)
        requires old(self)@.pos <= old(self)@.bytes.len()
        ensures r is Ok, final(self)@.bytes == write_at(old(self)@.bytes, old(self)@.pos, vu64_enc(value as nat)),
                final(self)@.pos == old(self)@.pos + enc_len(value as nat)
    {
        self.encode_and_write_vu64(value as u64)
    }
    pub fn write_piece_size(&mut self, piece_size: u32) -> (r: Result<()>)
        requires old(self)@.pos <= old(self)@.bytes.len(), piece_size % 8 == 0
        ensures r is Ok, final(self)@.bytes == write_at(old(self)@.bytes, old(self)@.pos, vu64_enc((piece_size / 8) as nat)),
                final(self)@.pos == old(self)@.pos + enc_len((piece_size / 8) as nat)
    {
        let v: u32 = piece_size;
        self.write_vu64_u32(v / 8)
    }
    pub fn write_value_len(&mut self, value_len: u32) -> (r: Result<()>)
        requires old(self)@.pos <= old(self)@.bytes.len()
        ensures r is Ok, final(self)@.bytes == write_at(old(self)@.bytes, old(self)@.pos, vu64_enc(value_len as nat)),
                final(self)@.pos == old(self)@.pos + enc_len(value_len as nat)
    {
        self.write_vu64_u32(value_len)
    }
    pub fn write_zero_to_offset(&mut self, offset: u64) -> (r: Result<()>)
        requires old(self)@.pos <= old(self)@.bytes.len(), offset - old(self)@.pos <= u32::MAX
        ensures r is Ok,
            offset > old(self)@.pos ==> final(self)@.bytes == write_at(old(self)@.bytes, old(self)@.pos, zeros((offset - old(self)@.pos) as nat)) && final(self)@.pos == offset,
            offset <= old(self)@.pos ==> final(self)@ == old(self)@,
    {
        let start_offset = self.seek_position()?;
        if offset > start_offset {
            let size = (offset - start_offset) as u32;
            self.write_zero(size)
        } else {
            Ok(())
        }
    }
}

pub struct ValuePiece { pub offset: u64, pub size: u32, pub value: Vec<u8> }

impl ValuePiece {
    pub fn dat_write_piece_one(&self, file: &mut VarFile) -> (r: Result<()>)
        requires
            self.size > 0, self.size % 8 == 0,
            self.value@.len() <= 0x100_0000,
            self.offset <= old(file)@.bytes.len(),
            self.offset + self.size <= 0x7fff_ffff_ffff_ffff,
            // C09: the record fits its slot
            enc_len((self.size / 8) as nat) + enc_len(self.value@.len()) + self.value@.len() <= self.size,
        ensures
            r is Ok,
            // record predicate: the slot holds exactly the image of (size, value)
            final(file)@.bytes.len() >= self.offset + self.size,
            final(file)@.bytes.subrange(self.offset as int, self.offset + self.size) == val_image(self.size as nat, self.value@),
            // frame: nothing outside the slot changes
            forall|i: int| 0 <= i < old(file)@.bytes.len() && !(self.offset <= i < self.offset + self.size) ==> final(file)@.bytes[i] == old(file)@.bytes[i],
            final(file)@.bytes.len() == (if old(file)@.bytes.len() >= self.offset + self.size { old(file)@.bytes.len() } else { (self.offset + self.size) as nat }),
    {
        broadcast use vu64_enc_len;
        let value = &self.value;
        let value_len = value.len() as u32;
        //
        file.seek_from_start(self.offset)?;
        file.write_piece_size(self.size)?;
        file.write_value_len(value_len)?;
        file.write_all_small(value.as_slice())?;
        file.write_zero_to_offset(self.offset + self.size as u64)?;
        //
        Ok(())
    }
}

} // verus!
fn main() {}
