// @inject src/filedb/inner/htx.rs
//! Unit U6 (Kani part): `capacity_to_buckets_size` on the real function (uses u64::next_power_of_two, which
//! Verus has no spec for): the contract assumed by the Verus stub, for every capacity up to 2^40.
use super::capacity_to_buckets_size;

#[kani::proof]
fn u6_capacity_to_buckets_size() {
    let cap: u64 = kani::any();
    kani::assume(cap >= 1 && cap <= 0x100_0000_0000);
    let r = capacity_to_buckets_size(cap);
    assert!(r.is_power_of_two());
    assert!(r >= 8 && r >= cap && r <= 0x400_0000_0000);
    // at most 8/9 load: room for cap + cap/8 entries (documented in the function)
    assert!(cap < 8 || r >= cap + cap / 8);
}

#[kani::proof]
#[kani::should_panic]
fn u6_capacity_zero_is_refused() {
    let _ = capacity_to_buckets_size(0);
}
