// @inject src/lib.rs
//! Units U8 (typed keys, C10), U9 (placement hash, C12) and the type signatures (C13), on the REAL
//! items of the crate. Integer harnesses are loop-free or loop over <= 9 bytes with unwinding
//! assertions on: complete over all 2^64 values. Harnesses over byte strings state their bound.
use crate::{DbBytes, DbI64, DbMapKeyType, DbString, DbU64, DbVu64, HashValue};
use std::cmp::Ordering;

// ---- reference: placement hash written from the layout description ("length-prefixed key bytes
//      folded 8 at a time, big-endian, through an xorshift mixer with shifts 12/25/27") ------------
fn xs(a: u64) -> u64 { let mut x = a; x ^= x >> 12; x ^= x << 25; x ^= x >> 27; x }
fn ref_hash(key: &[u8]) -> u64 {
    // the prefix is the usize length in native byte order, consumed as one big-endian chunk (T5: LE, 64-bit)
    let mut s = xs(0u64.wrapping_add(u64::from_be_bytes((key.len() as u64).to_le_bytes())));
    let mut i = 0;
    while i < key.len() {
        let n = if key.len() - i < 8 { key.len() - i } else { 8 };
        let mut a = 0u64; let mut j = 0;
        while j < n { a = (a << 8) | key[i + j] as u64; j += 1; }
        s = xs(s.wrapping_add(a));
        i += n;
    }
    s
}

// ---- U9 -------------------------------------------------------------------------------------------
#[kani::proof]
fn u9_xorshift_is_documented_mixer() {
    let a: u64 = kani::any();
    assert!(crate::_xorshift64s(a) == xs(a));
}

#[kani::proof]
#[kani::unwind(10)]
fn u9_hasher_one_chunk() {
    use std::hash::Hasher;
    let s0: u64 = kani::any();
    let bytes: [u8; 8] = kani::any();
    let n: usize = kani::any();
    kani::assume(n <= 8);
    let mut h = crate::MyHasher(s0);
    h.write(&bytes[..n]);
    let mut a = 0u64; let mut j = 0;
    while j < n { a = (a << 8) | bytes[j] as u64; j += 1; }
    let want = if n == 0 { s0 } else { xs(s0.wrapping_add(a)) };
    assert!(h.finish() == want);
}

/// golden vectors computed from the pinned release (commit 4b82afd) — anchor the reference itself
#[kani::proof]
#[kani::unwind(20)]
fn u9_reference_matches_release_vectors() {
    assert!(ref_hash(b"") == 0x0000000000000000);
    assert!(ref_hash(b"a") == 0x03400001ca000075);
    assert!(ref_hash(b"abcdefgh") == 0xffc23534b7669567);
    assert!(ref_hash(b"abcdefghi") == 0xd4b5b1c8c09c598f);
    assert!(ref_hash(b"hello world 12345") == 0x45962adf004d7faa);
    assert!(ref_hash(&0x0102030405060708u64.to_le_bytes()) == 0xecce60e59fbf5c31);
    assert!(ref_hash(&[0xFF, 0xFF, 0xFF, 0xFF, 0xFF, 0xFF, 0xFF, 0xFF, 0xFF]) == 0xf42f4ceae4861fe7);
}

#[kani::proof]
#[kani::unwind(12)]
fn u9_hash_value_u64_all_values() {
    let a: u64 = kani::any();
    assert!(DbU64::from(a).hash_value() == ref_hash(&a.to_le_bytes()));
}
#[kani::proof]
#[kani::unwind(12)]
fn u9_hash_value_i64_all_values() {
    let a: i64 = kani::any();
    assert!(DbI64::from(a).hash_value() == ref_hash(&a.to_le_bytes()));
}
/// every DbVu64 key is a byte string of 1..=9 bytes (u0_axiom_vu64); its hash goes through the same derived
/// `Hash for (Vec<u8>)` path as the other key types: checked for EVERY byte string of each length 1..=9
/// (a superset of the valid encodings), so together with u8_vu64_roundtrip this is complete for all u64 values.
fn hash_vu64_bytes<const N: usize>() {
    let bytes: [u8; N] = kani::any();
    let k = DbVu64::from_bytes(&bytes[..]);
    assert!(k.as_bytes() == &bytes[..]);
    assert!(k.hash_value() == ref_hash(&bytes[..]));
}
#[kani::proof] #[kani::unwind(12)] fn u9_hash_value_vu64_len_1() { hash_vu64_bytes::<1>() }
#[kani::proof] #[kani::unwind(12)] fn u9_hash_value_vu64_len_2() { hash_vu64_bytes::<2>() }
#[kani::proof] #[kani::unwind(12)] fn u9_hash_value_vu64_len_3() { hash_vu64_bytes::<3>() }
#[kani::proof] #[kani::unwind(12)] fn u9_hash_value_vu64_len_4() { hash_vu64_bytes::<4>() }
#[kani::proof] #[kani::unwind(12)] fn u9_hash_value_vu64_len_5() { hash_vu64_bytes::<5>() }
#[kani::proof] #[kani::unwind(12)] fn u9_hash_value_vu64_len_6() { hash_vu64_bytes::<6>() }
#[kani::proof] #[kani::unwind(12)] fn u9_hash_value_vu64_len_7() { hash_vu64_bytes::<7>() }
#[kani::proof] #[kani::unwind(12)] fn u9_hash_value_vu64_len_8() { hash_vu64_bytes::<8>() }
#[kani::proof] #[kani::unwind(12)] fn u9_hash_value_vu64_len_9() { hash_vu64_bytes::<9>() }
/// the same statement in one harness (slow: ~20 min; thorough tier only)
#[kani::proof]
#[kani::unwind(12)]
fn u9_hash_value_vu64_all_values() {
    let a: u64 = kani::any();
    let k = DbVu64::from(a);
    assert!(k.hash_value() == ref_hash(k.as_bytes()));
}
/// BOUNDED: key lengths 0,1,7,8,9,16,17 (zero, partial, full, full+partial, two full, two full+partial chunks)
fn hash_string_len<const N: usize>() {
    let bytes: [u8; N] = kani::any();
    let k = DbString::from(&bytes[..]);
    assert!(k.hash_value() == ref_hash(&bytes[..]));
    let kb = DbBytes::from(&bytes[..]);
    assert!(kb.hash_value() == ref_hash(&bytes[..]));
}
#[kani::proof] #[kani::unwind(20)] fn u9_hash_value_string_len_0() { hash_string_len::<0>() }
#[kani::proof] #[kani::unwind(20)] fn u9_hash_value_string_len_1() { hash_string_len::<1>() }
#[kani::proof] #[kani::unwind(20)] fn u9_hash_value_string_len_7() { hash_string_len::<7>() }
#[kani::proof] #[kani::unwind(20)] fn u9_hash_value_string_len_8() { hash_string_len::<8>() }
#[kani::proof] #[kani::unwind(20)] fn u9_hash_value_string_len_9() { hash_string_len::<9>() }
#[kani::proof] #[kani::unwind(20)] fn u9_hash_value_string_len_16() { hash_string_len::<16>() }
#[kani::proof] #[kani::unwind(20)] fn u9_hash_value_string_len_17() { hash_string_len::<17>() }

// ---- U8 / C10 -------------------------------------------------------------------------------------
#[kani::proof]
#[kani::unwind(10)]
fn u8_u64_roundtrip() {
    let a: u64 = kani::any();
    let k = DbU64::from(a);
    assert!(u64::from(&k) == a);
    assert!(k == DbU64::from(&a));
    assert!(k.as_bytes() == &a.to_le_bytes()[..]);
    assert!(DbU64::from_bytes(k.as_bytes()) == k);
    assert!(u64::from(k) == a);
}
#[kani::proof]
#[kani::unwind(10)]
fn u8_i64_roundtrip() {
    let a: i64 = kani::any();
    let k = DbI64::from(a);
    assert!(i64::from(&k) == a);
    assert!(k == DbI64::from(&a));
    assert!(k.as_bytes() == &a.to_le_bytes()[..]);
    assert!(DbI64::from_bytes(k.as_bytes()) == k);
    assert!(i64::from(k) == a);
}
#[kani::proof]
#[kani::unwind(11)]
fn u8_vu64_roundtrip() {
    let a: u64 = kani::any();
    let k = DbVu64::from(a);
    assert!(u64::from(&k) == a);
    assert!(k == DbVu64::from(&a));
    assert!(DbVu64::from_bytes(k.as_bytes()) == k);
    assert!(u64::from(k) == a);
}
/// two integers address the same entry exactly when they are equal: stored-key comparison
#[kani::proof]
#[kani::unwind(10)]
fn u8_u64_cmp_u8_iff_equal() {
    let a: u64 = kani::any(); let b: u64 = kani::any();
    let ka = DbU64::from(a); let kb = DbU64::from(b);
    assert!((ka.cmp_u8(kb.as_bytes()) == Ordering::Equal) == (a == b));
    assert!((ka.as_bytes() == kb.as_bytes()) == (a == b));
}
#[kani::proof]
#[kani::unwind(10)]
fn u8_i64_cmp_u8_iff_equal() {
    let a: i64 = kani::any(); let b: i64 = kani::any();
    let ka = DbI64::from(a); let kb = DbI64::from(b);
    assert!((ka.cmp_u8(kb.as_bytes()) == Ordering::Equal) == (a == b));
    assert!((ka.as_bytes() == kb.as_bytes()) == (a == b));
}
#[kani::proof]
#[kani::unwind(11)]
fn u8_vu64_cmp_u8_iff_equal() {
    let a: u64 = kani::any(); let b: u64 = kani::any();
    let ka = DbVu64::from(a); let kb = DbVu64::from(b);
    assert!((ka.cmp_u8(kb.as_bytes()) == Ordering::Equal) == (a == b));
    assert!((ka.as_bytes() == kb.as_bytes()) == (a == b));
}
/// BOUNDED: byte / string keys of the listed length pairs: same key exactly when the bytes are equal
fn bytes_cmp<const N: usize, const M: usize>() {
    let x: [u8; N] = kani::any(); let y: [u8; M] = kani::any();
    let eq = N == M && { let mut e = true; let mut i = 0; while i < N && i < M { if x[i] != y[i] { e = false; } i += 1; } e };
    let ks = DbString::from(&x[..]);
    assert!((ks.cmp_u8(&y[..]) == Ordering::Equal) == eq);
    assert!(ks.as_bytes() == &x[..]);
    let kb = DbBytes::from(&x[..]);
    assert!((kb.cmp_u8(&y[..]) == Ordering::Equal) == eq);
    assert!(DbBytes::from_bytes(kb.as_bytes()) == kb);
    assert!(DbString::from_bytes(ks.as_bytes()) == ks);
}
#[kani::proof] #[kani::unwind(8)] fn u8_bytes_cmp_0_0() { bytes_cmp::<0, 0>() }
#[kani::proof] #[kani::unwind(8)] fn u8_bytes_cmp_0_1() { bytes_cmp::<0, 1>() }
#[kani::proof] #[kani::unwind(8)] fn u8_bytes_cmp_3_3() { bytes_cmp::<3, 3>() }
#[kani::proof] #[kani::unwind(8)] fn u8_bytes_cmp_3_4() { bytes_cmp::<3, 4>() }
#[kani::proof] #[kani::unwind(8)] fn u8_bytes_cmp_5_3() { bytes_cmp::<5, 3>() }
#[kani::proof] #[kani::unwind(8)] fn u8_bytes_cmp_6_6() { bytes_cmp::<6, 6>() }

// ---- C13 / C12: type signatures ---------------------------------------------------------------------
#[kani::proof]
fn c12_signatures_are_the_documented_ones() {
    assert!(DbString::signature() == *b"string\0\0");
    assert!(DbBytes::signature() == *b"bytes\0\0\0");
    assert!(DbI64::signature() == *b"i64_le\0\0");
    assert!(DbU64::signature() == *b"u64_le\0\0");
}
#[kani::proof]
fn c13_signatures_pairwise_distinct() {
    let s = [DbString::signature(), DbBytes::signature(), DbI64::signature(), DbU64::signature(), DbVu64::signature()];
    let i: usize = kani::any(); let j: usize = kani::any();
    kani::assume(i < 5 && j < 5 && i != j);
    assert!(s[i] != s[j]);
}
/// the same statement without the one pair that is a recorded finding (K2: u64 / vu64)
#[kani::proof]
fn c13_signatures_distinct_except_k2() {
    let s = [DbString::signature(), DbBytes::signature(), DbI64::signature(), DbU64::signature(), DbVu64::signature()];
    let i: usize = kani::any(); let j: usize = kani::any();
    kani::assume(i < 5 && j < 5 && i != j);
    kani::assume(!((i == 3 && j == 4) || (i == 4 && j == 3)));
    assert!(s[i] != s[j]);
}

/// numeric keys on byte-string / string maps: by-value and by-reference conversions agree for every u64, and give the 8 big-endian
/// bytes the released format uses (complete: loop-free over a symbolic u64)
#[kani::proof]
fn u8_bytes_string_from_u64_value_eq_ref() {
    let a: u64 = kani::any();
    let b1 = DbBytes::from(a); let b2 = DbBytes::from(&a);
    assert!(b1.as_bytes() == b2.as_bytes());
    assert!(b1.as_bytes().len() == 8);
    let be = a.to_be_bytes();
    let mut i = 0; while i < 8 { assert!(b1.as_bytes()[i] == be[i]); i += 1; }
    let s1 = DbString::from(a); let s2 = DbString::from(&a);
    assert!(s1.as_bytes() == s2.as_bytes());
}
