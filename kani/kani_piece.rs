// @inject src/filedb/inner/piece.rs
//! Unit U3 (Kani part) — `PieceMgr::roundup`, `is_large_piece_size`, `free_piece_list_offset_of_header`
//! on the REAL size tables of key.rs / val.rs, for every u32 size the callers can produce.
//! `roundup` iterates `size_ary.iter().take(15)`: unwind 17 with unwinding assertions => complete.
use super::super::semtype::*;
use super::PieceMgr;

/// the Verus-side spec `roundup_spec` (contracts/prelude_rec.rs), transcribed
fn roundup_spec(x: u32) -> u32 {
    if x <= 16 { 16 } else if x <= 24 { 24 } else if x <= 32 { 32 } else if x <= 48 { 48 } else if x <= 64 { 64 }
    else if x <= 80 { 80 } else if x <= 96 { 96 } else if x <= 112 { 112 } else if x <= 128 { 128 } else if x <= 256 { 256 }
    else if x <= 384 { 384 } else if x <= 512 { 512 } else if x <= 640 { 640 } else if x <= 768 { 768 } else if x <= 896 { 896 }
    else { ((x + 128) / 128) * 128 }
}
fn is_class(s: u32) -> bool {
    matches!(s, 16 | 24 | 32 | 48 | 64 | 80 | 96 | 112 | 128 | 256 | 384 | 512 | 640 | 768 | 896 | 1024)
}

static KEY_OFF: [u64; 16] = [48, 56, 64, 72, 80, 88, 96, 104, 112, 120, 128, 136, 144, 152, 160, 168];
static VAL_OFF: [u64; 16] = [32, 40, 48, 56, 64, 72, 80, 88, 96, 104, 112, 120, 128, 136, 144, 152];
static KEY_ARY: [u32; 16] = super::super::key::REC_SIZE_ARY;
static VAL_ARY: [u32; 16] = super::super::val::REC_SIZE_ARY;

#[kani::proof]
#[kani::unwind(18)]
fn u3_roundup_key_table() {
    let m = PieceMgr::new(&KEY_OFF, &KEY_ARY);
    let x: u32 = kani::any();
    kani::assume(x >= 1 && x <= 0x7fff_ff00);
    let r = m.roundup(KeyPieceSize::new(x)).as_value();
    assert!(r == roundup_spec(x));
    // consequences the callers rely on (C09 / C06)
    assert!(r >= x && r % 8 == 0);
    assert!(is_class(r) || (r > 1024 && r % 128 == 0));
    if x > 896 { assert!(x < r && r <= x + 128); }
}

#[kani::proof]
#[kani::unwind(18)]
fn u3_roundup_val_table() {
    let m = PieceMgr::new(&VAL_OFF, &VAL_ARY);
    let x: u32 = kani::any();
    kani::assume(x >= 1 && x <= 0x7fff_ff00);
    let r = m.roundup(ValuePieceSize::new(x)).as_value();
    assert!(r == roundup_spec(x));
}

#[kani::proof]
#[kani::unwind(18)]
fn u3_free_list_head_offset() {
    let key: bool = kani::any();
    let m = if key { PieceMgr::new(&KEY_OFF, &KEY_ARY) } else { PieceMgr::new(&VAL_OFF, &VAL_ARY) };
    let base: u64 = if key { 48 } else { 32 };
    let s: u32 = kani::any();
    kani::assume(is_class(s) || (s > 1024 && s % 128 == 0));
    let off = m.free_piece_list_offset_of_header(KeyPieceSize::new(s));
    // one list head per class, the last one shared by every large size
    let idx: u64 = match s { 16 => 0, 24 => 1, 32 => 2, 48 => 3, 64 => 4, 80 => 5, 96 => 6, 112 => 7, 128 => 8,
        256 => 9, 384 => 10, 512 => 11, 640 => 12, 768 => 13, 896 => 14, _ => 15 };
    assert!(off == base + 8 * idx);
    assert!(m.is_large_piece_size(KeyPieceSize::new(s)) == (s >= 1024));
}

#[kani::proof]
fn u3_tables_are_the_documented_ones() {
    let doc: [u32; 16] = [16, 24, 32, 48, 64, 80, 96, 112, 128, 256, 384, 512, 640, 768, 896, 1024];
    let mut i = 0;
    while i < 16 { assert!(KEY_ARY[i] == doc[i] && VAL_ARY[i] == doc[i]); i += 1; }
}

// ---- is_valid_value / is_valid_key: assert-only helpers used inside debug_assert! (stubs on the Verus side) ----------
fn is_slot_size(s: u32) -> bool { is_class(s) || (s > 1024 && s % 128 == 0) }
#[kani::proof]
#[kani::unwind(18)]
fn u3_is_valid_value() {
    let s: u32 = kani::any();
    kani::assume(is_slot_size(s));
    assert!(ValuePieceSize::new(s).is_valid_value());
}
#[kani::proof]
#[kani::unwind(18)]
fn u3_is_valid_key() {
    let s: u32 = kani::any();
    kani::assume(is_slot_size(s));
    assert!(KeyPieceSize::new(s).is_valid_key());
}

// ---- the sequential slot walk used by the statistics calls: one step, on a mock file (C06 / C17) -----------------------
struct MockFile { start: u64, end: u64, size: u32 }
impl super::PieceA<Key> for MockFile {
    fn piece_offset_start(&self) -> std::io::Result<PieceOffset<Key>> { Ok(KeyPieceOffset::new(self.start)) }
    fn piece_offset_end(&self) -> std::io::Result<PieceOffset<Key>> { Ok(KeyPieceOffset::new(self.end)) }
    fn piece_size(&self, _offset: PieceOffset<Key>) -> std::io::Result<PieceSize<Key>> { Ok(KeyPieceSize::new(self.size)) }
}
#[kani::proof]
fn u3_slot_walk_one_step() {
    let start: u64 = kani::any(); let end: u64 = kani::any(); let size: u32 = kani::any(); let cur: u64 = kani::any();
    kani::assume(start == 192 && end <= 0x4000_0000_0000_0000 && cur <= end);
    let mut it = super::PieceOffsetIter::<Key>::new(Box::new(MockFile { start, end, size })).unwrap();
    it.piece_offset = KeyPieceOffset::new(cur);
    let r = it.next_piece_offset().unwrap();
    let want = if cur == 0 { start } else { cur + size as u64 };
    match r {
        Some(o) => { assert!(o.as_value() == want && want < end); assert!(it.piece_offset.as_value() == want); }
        None => { assert!(want >= end); assert!(it.piece_offset.as_value() == cur); }
    }
    // with a positive slot size the walk advances strictly (termination of the statistics calls under heap_ok)
    if size > 0 && cur != 0 { if let Some(o) = r { assert!(o.as_value() > cur); } }
}
