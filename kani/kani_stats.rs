// @inject src/filedb/mod.rs
//! C17 (bounded part): the histogram accumulators used by the statistics calls. BOUNDED: up to 3 touches.
use super::inner::semtype::*;
use super::{LengthStats, RecordSizeStats};

#[kani::proof]
#[kani::unwind(6)]
fn c17_touch_size_counts_each_touch_bounded_3() {
    let a: u32 = kani::any(); let b: u32 = kani::any(); let c: u32 = kani::any();
    kani::assume(a <= 4 && b <= 4 && c <= 4);
    let mut st = RecordSizeStats::<Key>::default();
    st.touch_size(KeyPieceSize::new(a));
    st.touch_size(KeyPieceSize::new(b));
    st.touch_size(KeyPieceSize::new(c));
    // total of the per-size counters equals the number of touches; the entry of `a` counts its occurrences
    let mut total = 0u64; let mut na = 0u64; let mut i = 0;
    while i < st.0.len() { total += st.0[i].1; if st.0[i].0.as_value() == a { na = st.0[i].1; } i += 1; }
    assert!(total == 3);
    let want_a = 1 + (b == a) as u64 + (c == a) as u64;
    assert!(na == want_a);
    // strictly ascending by size: one bucket per distinct size, in order (whatever order the sizes arrived in)
    let mut j = 0;
    while j + 1 < st.0.len() { assert!(st.0[j].0.as_value() < st.0[j + 1].0.as_value()); j += 1; }
}
#[kani::proof]
#[kani::unwind(6)]
fn c17_touch_length_counts_each_touch_bounded_3() {
    let a: u32 = kani::any(); let b: u32 = kani::any(); let c: u32 = kani::any();
    kani::assume(a <= 4 && b <= 4 && c <= 4);
    let mut st = LengthStats::<Value>::default();
    st.touch_length(ValueLength::new(a));
    st.touch_length(ValueLength::new(b));
    st.touch_length(ValueLength::new(c));
    let mut total = 0u64; let mut i = 0;
    while i < st.0.len() { total += st.0[i].1; i += 1; }
    assert!(total == 3);
    let mut j = 0;
    while j + 1 < st.0.len() { assert!(st.0[j].0.as_value() < st.0[j + 1].0.as_value()); j += 1; }
}

