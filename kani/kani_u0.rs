// @inject src/lib.rs
//! Unit U0 — the vu64 dependency, as compiled into the crate, equals the spec codec that the Verus
//! side assumes (prelude_base.rs: enc_len, axiom_vu64, axiom_vu64_dlen). Loop-free over the complete
//! u64 / u8 domain => complete proofs, not bounded.

fn enc_len_spec(v: u64) -> u8 {
    if v <= 0x7F { 1 } else if v <= 0x3FFF { 2 } else if v <= 0x1F_FFFF { 3 } else if v <= 0x0FFF_FFFF { 4 }
    else if v <= 0x07_FFFF_FFFF { 5 } else if v <= 0x03FF_FFFF_FFFF { 6 } else if v <= 0x01_FFFF_FFFF_FFFF { 7 }
    else if v <= 0xFF_FFFF_FFFF_FFFF { 8 } else { 9 }
}

fn le_val(s: &[u8]) -> u64 {
    let mut a = [0u8; 8];
    let mut i = 0;
    while i < s.len() && i < 8 { a[i] = s[i]; i += 1; }
    u64::from_le_bytes(a)
}

#[kani::proof]
fn u0_encoded_len_is_spec() {
    let v: u64 = kani::any();
    assert!(vu64::encoded_len(v) == enc_len_spec(v));
}

#[kani::proof]
fn u0_decoded_len_range() {
    let b: u8 = kani::any();
    let l = vu64::decoded_len(b);
    assert!(1 <= l && l <= 9);
    assert!((b < 128) == (l == 1));
}

#[kani::proof]
#[kani::unwind(10)]
fn u0_axiom_vu64() {
    let v: u64 = kani::any();
    let e = vu64::encode(v);
    let bytes: &[u8] = e.as_ref();
    let n = enc_len_spec(v) as usize;
    // vu64_enc(v).len() == enc_len(v)
    assert!(bytes.len() == n);
    // vu64_dlen(vu64_enc(v)[0]) == enc_len(v)
    assert!(vu64::decoded_len(bytes[0]) as usize == n);
    // first byte < 128 <==> v < 128, and then it is v
    assert!((bytes[0] < 128) == (v < 128));
    if v < 128 { assert!(bytes[0] as u64 == v); }
    // vu64_dec_le(enc_len(v), enc(v)[0], le_val(enc(v)[1..])) == Some(v)
    let follow = le_val(&bytes[1..]);
    let r = vu64::decode_with_first_and_follow_le(n as u8, bytes[0], follow);
    assert!(r == Ok(v));
    // and the slice decoder used by DbVu64 agrees
    assert!(vu64::decode(bytes) == Ok(v));
}
