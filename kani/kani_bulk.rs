// @inject src/lib.rs
//! C14 — BOUNDED. The REAL default methods of `DbXxx` (bulk_get, bulk_delete, bulk_put, bulk_put_string,
//! put_from_iter, *_string) run on a small array-backed map that behaves like the ideal map (the contract
//! that unit U7 proves for FileDbXxxInner). Bound: at most 2 stored entries, batches of 2 or 3 keys, one-byte
//! keys and values. `sort_unstable_by`, `Vec` and closures are executed by CBMC, not modelled.
use crate::{DbBytes, DbMapKeyType, DbXxx, DbXxxBase, DbXxxObjectSafe};
use std::io::Result;

#[derive(Clone, Copy)]
struct Tiny { n: usize, k: [u8; 3], v: [u8; 3] }
impl Tiny {
    fn find(&self, key: u8) -> Option<usize> {
        let mut i = 0;
        while i < self.n { if self.k[i] == key { return Some(i); } i += 1; }
        None
    }
}
impl DbXxxBase for Tiny {
    fn len(&self) -> Result<u64> { Ok(self.n as u64) }
    fn read_fill_buffer(&mut self) -> Result<()> { Ok(()) }
    fn flush(&mut self) -> Result<()> { Ok(()) }
    fn sync_all(&mut self) -> Result<()> { Ok(()) }
    fn sync_data(&mut self) -> Result<()> { Ok(()) }
}
impl DbXxxObjectSafe<DbBytes> for Tiny {
    fn get_kt(&mut self, key: &DbBytes) -> Result<Option<Vec<u8>>> {
        let kb = key.as_bytes();
        if kb.len() != 1 { return Ok(None); }
        Ok(self.find(kb[0]).map(|i| vec![self.v[i]]))
    }
    fn put_kt(&mut self, key: &DbBytes, value: &[u8]) -> Result<()> {
        let kb = key.as_bytes();
        if kb.len() != 1 || value.len() != 1 { return Ok(()); }
        match self.find(kb[0]) {
            Some(i) => { self.v[i] = value[0]; }
            None => { if self.n < 3 { self.k[self.n] = kb[0]; self.v[self.n] = value[0]; self.n += 1; } }
        }
        Ok(())
    }
    fn del_kt(&mut self, key: &DbBytes) -> Result<Option<Vec<u8>>> {
        let kb = key.as_bytes();
        if kb.len() != 1 { return Ok(None); }
        match self.find(kb[0]) {
            Some(i) => {
                let old = self.v[i];
                let mut j = i;
                while j + 1 < self.n { self.k[j] = self.k[j + 1]; self.v[j] = self.v[j + 1]; j += 1; }
                self.n -= 1;
                Ok(Some(vec![old]))
            }
            None => Ok(None),
        }
    }
    fn includes_key_kt(&mut self, key: &DbBytes) -> Result<bool> {
        let kb = key.as_bytes();
        Ok(kb.len() == 1 && self.find(kb[0]).is_some())
    }
}
impl DbXxx<DbBytes> for Tiny {}

fn any_tiny() -> Tiny {
    let n: usize = kani::any();
    kani::assume(n <= 1);
    let k: [u8; 3] = kani::any(); let v: [u8; 3] = kani::any();
    Tiny { n, k, v }
}
fn any_tiny2() -> Tiny {
    let n: usize = kani::any();
    kani::assume(n <= 2);
    let k: [u8; 3] = kani::any(); let v: [u8; 3] = kani::any();
    kani::assume(n < 2 || k[0] != k[1]);
    Tiny { n, k, v }
}
fn same(a: &Tiny, b: &Tiny) -> bool {
    // same abstract map: equal size and every key of a is in b with the same value
    if a.n != b.n { return false; }
    let mut i = 0;
    while i < a.n { match b.find(a.k[i]) { Some(j) => { if b.v[j] != a.v[i] { return false; } } None => return false } i += 1; }
    true
}

#[kani::proof]
#[kani::unwind(6)]
fn c14_bulk_get_is_elementwise_batch_2() {
    let mut m = any_tiny();
    let k0: [u8; 1] = kani::any(); let k1: [u8; 1] = kani::any();
    let keys: [&[u8]; 2] = [&k0, &k1];
    let mut m2 = m;
    let r = m.bulk_get(&keys).unwrap();
    assert!(r.len() == 2);
    assert!(r[0] == m2.get(&k0[..]).unwrap());
    assert!(r[1] == m2.get(&k1[..]).unwrap());
    assert!(same(&m, &m2));
}

#[kani::proof]
#[kani::unwind(6)]
fn c14_bulk_delete_is_elementwise_batch_2_distinct() {
    let mut m = any_tiny();
    let k0: [u8; 1] = kani::any(); let k1: [u8; 1] = kani::any();
    kani::assume(k0[0] != k1[0]);
    let keys: [&[u8]; 2] = [&k0, &k1];
    let mut m2 = m;
    let r = m.bulk_delete(&keys).unwrap();
    let e0 = m2.delete(&k0[..]).unwrap();
    let e1 = m2.delete(&k1[..]).unwrap();
    assert!(r.len() == 2 && r[0] == e0 && r[1] == e1);
    assert!(same(&m, &m2));
}

#[kani::proof]
#[kani::unwind(6)]
fn c14_bulk_put_is_elementwise_batch_2_distinct() {
    let mut m = any_tiny();
    let k0: [u8; 1] = kani::any(); let k1: [u8; 1] = kani::any();
    let v0: [u8; 1] = kani::any(); let v1: [u8; 1] = kani::any();
    kani::assume(k0[0] != k1[0]);
    let bulk: [(&[u8], &[u8]); 2] = [(&k0, &v0), (&k1, &v1)];
    let mut m2 = m;
    m.bulk_put(&bulk).unwrap();
    m2.put(&k0[..], &v0).unwrap();
    m2.put(&k1[..], &v1).unwrap();
    assert!(same(&m, &m2));
}

#[kani::proof]
#[kani::unwind(6)]
fn c14_put_from_iter_applies_in_order_batch_2() {
    let mut m = any_tiny();
    let k0: u8 = kani::any(); let k1: u8 = kani::any(); let v0: u8 = kani::any(); let v1: u8 = kani::any();
    let mut m2 = m;
    let items = vec![(DbBytes::from(&[k0][..]), vec![v0]), (DbBytes::from(&[k1][..]), vec![v1])];
    m.put_from_iter(items.into_iter()).unwrap();
    m2.put_kt(&DbBytes::from(&[k0][..]), &[v0]).unwrap();
    m2.put_kt(&DbBytes::from(&[k1][..]), &[v1]).unwrap();
    assert!(same(&m, &m2));
}

#[kani::proof]
#[kani::unwind(8)]
fn c14_bulk_get_is_elementwise_batch_3() {
    let mut m = any_tiny2();
    let k0: [u8; 1] = kani::any(); let k1: [u8; 1] = kani::any(); let k2: [u8; 1] = kani::any();
    let keys: [&[u8]; 3] = [&k0, &k1, &k2];
    let mut m2 = m;
    let r = m.bulk_get(&keys).unwrap();
    assert!(r.len() == 3);
    assert!(r[0] == m2.get(&k0[..]).unwrap());
    assert!(r[1] == m2.get(&k1[..]).unwrap());
    assert!(r[2] == m2.get(&k2[..]).unwrap());
    assert!(same(&m, &m2));
}

#[kani::proof]
#[kani::unwind(8)]
fn c14_bulk_delete_is_elementwise_batch_3_distinct() {
    let mut m = any_tiny2();
    let k0: [u8; 1] = kani::any(); let k1: [u8; 1] = kani::any(); let k2: [u8; 1] = kani::any();
    kani::assume(k0[0] != k1[0] && k0[0] != k2[0] && k1[0] != k2[0]);
    let keys: [&[u8]; 3] = [&k0, &k1, &k2];
    let mut m2 = m;
    let r = m.bulk_delete(&keys).unwrap();
    let e0 = m2.delete(&k0[..]).unwrap();
    let e1 = m2.delete(&k1[..]).unwrap();
    let e2 = m2.delete(&k2[..]).unwrap();
    assert!(r.len() == 3 && r[0] == e0 && r[1] == e1 && r[2] == e2);
    assert!(same(&m, &m2));
}

#[kani::proof]
#[kani::unwind(10)]
fn c14_bulk_get_is_elementwise_batch_4() {
    let mut m = any_tiny2();
    let k0: [u8; 1] = kani::any(); let k1: [u8; 1] = kani::any(); let k2: [u8; 1] = kani::any(); let k3: [u8; 1] = kani::any();
    let keys: [&[u8]; 4] = [&k0, &k1, &k2, &k3];
    let mut m2 = m;
    let r = m.bulk_get(&keys).unwrap();
    assert!(r.len() == 4);
    assert!(r[0] == m2.get(&k0[..]).unwrap());
    assert!(r[1] == m2.get(&k1[..]).unwrap());
    assert!(r[2] == m2.get(&k2[..]).unwrap());
    assert!(r[3] == m2.get(&k3[..]).unwrap());
    assert!(same(&m, &m2));
}

/// C01 / C14 — BOUNDED: the generic front-end methods of `DbXxx` (get / put / delete / includes_key / is_empty and the *_string
/// conveniences) on the array-backed ideal map: each is its `*_kt` counterpart applied to the converted key. One-byte keys and values.
#[kani::proof]
#[kani::unwind(6)]
fn c01_front_end_calls_are_their_kt_counterparts() {
    let mut m = any_tiny2();
    let k: [u8; 1] = kani::any(); let v: [u8; 1] = kani::any(); let k2: [u8; 1] = kani::any();
    let mut m2 = m;
    // get / includes_key / is_empty on the initial state
    assert!(m.get(&k[..]).unwrap() == m2.get_kt(&DbBytes::from(&k[..])).unwrap());
    assert!(m.includes_key(&k[..]).unwrap() == m2.includes_key_kt(&DbBytes::from(&k[..])).unwrap());
    assert!(m.is_empty().unwrap() == (m2.n == 0));
    // put
    m.put(&k[..], &v).unwrap();
    m2.put_kt(&DbBytes::from(&k[..]), &v).unwrap();
    assert!(same(&m, &m2));
    assert!(m.get(&k[..]).unwrap() == Some(vec![v[0]]) || m2.n == 3);
    assert!(m.get(&k2[..]).unwrap() == m2.get_kt(&DbBytes::from(&k2[..])).unwrap());
    // delete
    let r = m.delete(&k2[..]).unwrap();
    let e = m2.del_kt(&DbBytes::from(&k2[..])).unwrap();
    assert!(r == e);
    assert!(same(&m, &m2));
    assert!(m.is_empty().unwrap() == (m2.n == 0));
}

// (a harness for the *_string conveniences was tried: from_utf8_lossy under CBMC exceeds the 10 GB limit; the `bulk` / `values` /
//  `pertype` scenarios stand in for them)
