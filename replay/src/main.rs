//! Replay scenarios on the REAL crate (public API only). Used to show that a failed obligation
//! corresponds to a failing input; it decides nothing by itself.
//!   abyss-replay scan <n_buckets> <key>...         iterate a string map, compare with the keys put
//!   abyss-replay putget <value_len>                 store one value of that length between sentinels
//!   abyss-replay flushdur                           put; flush; sync_all; inspect file sizes on disk
//!   abyss-replay reloc                              overwrite that relocates a key record (K1)
//!   abyss-replay sig                                 open a u64 map as vu64 (K2)
//!   abyss-replay reuse                               put 5000, delete, put 2000, walk slots (F3)
//!   abyss-replay bufsize <bytes>                     FileBufSizeParam::Size(bytes) on all files (F4)
use abyssiniandb::filedb::{CheckFileDbMap, FileBufSizeParam, FileDbParams, HashBucketsParam};
use abyssiniandb::{DbMap, DbXxx, DbXxxBase};
use std::collections::BTreeSet;

fn tmpdir(tag: &str) -> std::path::PathBuf {
    let mut p = std::env::temp_dir();
    p.push(format!("abyss-replay-{}-{}", tag, std::process::id()));
    let _ = std::fs::remove_dir_all(&p);
    p
}

fn main() {
    let args: Vec<String> = std::env::args().collect();
    let sc = args.get(1).map(|s| s.as_str()).unwrap_or("");
    let code = match sc {
        "scan" => scan(&args[2..]),
        "putget" => putget(args[2].parse().unwrap()),
        "flushdur" => flushdur(),
        "reloc" => reloc(),
        "sig" => sig(),
        "reuse" => reuse(),
        "bufsize" => bufsize(args[2].parse().unwrap()),
        _ => { eprintln!("unknown scenario"); 2 }
    };
    std::process::exit(code);
}

fn scan(a: &[String]) -> i32 {
    let n: u64 = a[0].parse().unwrap();
    let keys: Vec<String> = a[1..].to_vec();
    let dir = tmpdir("scan");
    let db = abyssiniandb::open_file(&dir).unwrap();
    let mut m = db.db_map_string_with_params("m", FileDbParams { buckets_size: HashBucketsParam::BucketsSize(n), ..Default::default() }).unwrap();
    for k in &keys { m.put_string(k, "v").unwrap(); }
    let want: BTreeSet<String> = keys.iter().cloned().collect();
    let mut got: Vec<String> = Vec::new();
    for (k, _v) in m.iter() { got.push(String::from_utf8_lossy(&k).to_string()); }
    let gots: BTreeSet<String> = got.iter().cloned().collect();
    println!("put   : {:?}", keys);
    println!("yield : {:?}", got);
    let _ = std::fs::remove_dir_all(&dir);
    if got.len() == want.len() && gots == want { println!("OK"); 0 } else { println!("MISMATCH: iteration does not yield each key exactly once"); 1 }
}

fn putget(len: usize) -> i32 {
    let dir = tmpdir("putget");
    let db = abyssiniandb::open_file(&dir).unwrap();
    let mut m = db.db_map_string("m").unwrap();
    m.put_string("a", "left").unwrap();
    let v: Vec<u8> = (0..len).map(|i| (i % 251) as u8).collect();
    m.put("b", &v).unwrap();
    m.put_string("c", "right").unwrap();
    let ok = m.get("b").unwrap() == Some(v) && m.get_string("a").unwrap() == Some("left".into()) && m.get_string("c").unwrap() == Some("right".into());
    let _ = std::fs::remove_dir_all(&dir);
    if ok { println!("OK"); 0 } else { println!("MISMATCH"); 1 }
}

fn flushdur() -> i32 {
    let dir = tmpdir("flush");
    let db = abyssiniandb::open_file(&dir).unwrap();
    let mut m = db.db_map_string("m").unwrap();
    m.put_string("a", "x").unwrap();
    m.flush().unwrap();
    m.sync_all().unwrap();
    let mut bad = 0;
    for ext in ["key", "val", "htx"] {
        let len = std::fs::metadata(dir.join(format!("m.{ext}"))).unwrap().len();
        println!("m.{ext}: {len} bytes on disk after flush+sync_all");
        if len == 0 { bad = 1; }
    }
    drop(m); drop(db);
    let _ = std::fs::remove_dir_all(&dir);
    if bad == 0 { println!("OK"); } else { println!("MISMATCH: flush/sync returned Ok but nothing was written"); }
    bad
}

fn reloc() -> i32 {
    let dir = tmpdir("reloc");
    let db = abyssiniandb::open_file(&dir).unwrap();
    let mut m = db.db_map_string("m").unwrap();
    m.put_string("aaaaaaaaaaa", "x").unwrap();
    for i in 0..40 { m.put(&format!("k{i}"), &vec![7u8; 500]).unwrap(); }
    let r = std::panic::catch_unwind(std::panic::AssertUnwindSafe(|| { m.put("aaaaaaaaaaa", &vec![9u8; 600]).unwrap(); }));
    let after = m.get("aaaaaaaaaaa").unwrap();
    let _ = std::fs::remove_dir_all(&dir);
    if r.is_err() || after != Some(vec![9u8; 600]) { println!("MISMATCH: overwrite panicked={} entry afterwards={:?}", r.is_err(), after.map(|v| v.len())); 1 } else { println!("OK"); 0 }
}

fn sig() -> i32 {
    let dir = tmpdir("sig");
    {
        let db = abyssiniandb::open_file(&dir).unwrap();
        let mut m = db.db_map_u64("m").unwrap();
        m.put(&5u64, b"five").unwrap();
    }
    let r = std::panic::catch_unwind(|| {
        let db = abyssiniandb::open_file(&dir).unwrap();
        let mut m = db.db_map_vu64("m").unwrap();
        m.get(&5u64).unwrap()
    });
    let _ = std::fs::remove_dir_all(&dir);
    match r { Err(_) => { println!("OK (refused)"); 0 } Ok(v) => { println!("MISMATCH: u64 map opened as vu64, get(5) = {:?}", v); 1 } }
}

fn reuse() -> i32 {
    let dir = tmpdir("reuse");
    let db = abyssiniandb::open_file(&dir).unwrap();
    let mut m = db.db_map_string("m").unwrap();
    m.put("a", &vec![1u8; 5000]).unwrap();
    m.delete("a").unwrap();
    m.put("b", &vec![2u8; 2000]).unwrap();
    // decode the slot tiling of the value file by hand instead of calling the (possibly hanging) walker
    m.flush().ok(); drop(m); drop(db);
    let b = std::fs::read(dir.join("m.val")).unwrap_or_default();
    let _ = std::fs::remove_dir_all(&dir);
    if b.is_empty() { println!("(value file empty on disk — flush defect)"); return 1; }
    let mut o = 192usize; let mut n = 0;
    while o < b.len() {
        let (sz, _w) = vu64_at(&b, o);
        if sz == 0 { println!("MISMATCH: slot of size 0 at offset {o} (file length {}) — tiling broken", b.len()); return 1; }
        o += sz as usize * 8; n += 1;
    }
    println!("OK ({n} slots tile the file)"); 0
}
fn vu64_at(b: &[u8], o: usize) -> (u64, usize) {
    let f = b[o]; let w = f.leading_ones() as usize + 1;
    if w == 1 { return (f as u64, 1); }
    let mut a = [0u8; 8]; for i in 0..(w - 1).min(8) { a[i] = b[o + 1 + i]; }
    let follow = u64::from_le_bytes(a);
    if w >= 8 { (follow, w) } else { ((((follow << 8) | ((f << w) as u64)) >> w), w) }
}

fn bufsize(bytes: u32) -> i32 {
    let dir = tmpdir("buf");
    let db = abyssiniandb::open_file(&dir).unwrap();
    let p = FileDbParams { val_buf_size: FileBufSizeParam::Size(bytes), key_buf_size: FileBufSizeParam::Size(bytes), htx_buf_size: FileBufSizeParam::Size(bytes), buckets_size: HashBucketsParam::Capacity(100), ..Default::default() };
    let mut m = db.db_map_string_with_params("m", p).unwrap();
    for i in 0..2000 { m.put(&format!("key{i}"), &vec![3u8; 300]).unwrap(); }
    let mut ok = true;
    for i in 0..2000 { ok &= m.get(&format!("key{i}")).unwrap() == Some(vec![3u8; 300]); }
    let _ = m.count_of_free_key_piece();
    let _ = std::fs::remove_dir_all(&dir);
    if ok { println!("OK"); 0 } else { println!("MISMATCH"); 1 }
}
