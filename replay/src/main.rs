//! Replay scenarios on the REAL crate (public API only). Used to show that a failed obligation
//! corresponds to a failing input; it decides nothing by itself.
//!   abyss-replay scan <n_buckets> <key>...         iterate a string map, compare with the keys put
//!   abyss-replay putget <value_len>                 store one value of that length between sentinels
//!   abyss-replay flushdur                           put; flush; sync_all; inspect file sizes on disk
//!   abyss-replay reloc                              overwrite that relocates a key record (K1)
//!   abyss-replay sig                                 open a u64 map as vu64 (K2)
//!   abyss-replay reuse                               put 5000, delete, put 2000, walk slots (F3)
//!   abyss-replay bufsize <bytes>                     FileBufSizeParam::Size(bytes) on all files (F4)
use abyssiniandb::filedb::{CheckFileDbMap, FileBufSizeParam, FileDbParams, HashBucketsParam};
use abyssiniandb::{DbMap, DbXxx, DbXxxBase};
use std::collections::BTreeSet;

fn tmpdir(tag: &str) -> std::path::PathBuf {
    let mut p = std::env::temp_dir();
    p.push(format!("abyss-replay-{}-{}", tag, std::process::id()));
    let _ = std::fs::remove_dir_all(&p);
    p
}

fn main() {
    let args: Vec<String> = std::env::args().collect();
    let sc = args.get(1).map(|s| s.as_str()).unwrap_or("");
    let code = match sc {
        "scan" => scan(&args[2..]),
        "putget" => putget(args[2].parse().unwrap()),
        "flushdur" => flushdur(),
        "reloc" => reloc(),
        "sig" => sig(),
        "reuse" => reuse(),
        "bufsize" => bufsize(args[2].parse().unwrap()),
        "history" => history(args[2].parse().unwrap(), args[3].parse().unwrap(), args[4].parse().unwrap()),
        "putsweep" => putsweep(),
        "durable" => durable(),
        "sigmut" => sigmut(),
        "reopen" => reopen(),
        "readonly" => readonly(),
        "determ" => determ(),
        "bulk" => bulk(),
        "dbsync" => dbsync(),
        "keys" => keys(),
        "names" => names(),
        "grow" => grow(),
        "pertype" => pertype(),
        "values" => values(),
        "syncfail" => syncfail(),
        "syncfail-child" => syncfail_child(&args[2], args[3].parse().unwrap()),
        "stats" => stats(),
        "tablesizes" => tablesizes(),
        _ => { eprintln!("unknown scenario"); 2 }
    };
    std::process::exit(code);
}

fn scan(a: &[String]) -> i32 {
    let n: u64 = a[0].parse().unwrap();
    let keys: Vec<String> = a[1..].to_vec();
    let dir = tmpdir("scan");
    let db = abyssiniandb::open_file(&dir).unwrap();
    let mut m = db.db_map_string_with_params("m", FileDbParams { buckets_size: HashBucketsParam::BucketsSize(n), ..Default::default() }).unwrap();
    for k in &keys { m.put_string(k, "v").unwrap(); }
    let want: BTreeSet<String> = keys.iter().cloned().collect();
    let mut got: Vec<String> = Vec::new();
    for (k, _v) in m.iter() { got.push(String::from_utf8_lossy(&k).to_string()); }
    let gots: BTreeSet<String> = got.iter().cloned().collect();
    println!("put   : {:?}", keys);
    println!("yield : {:?}", got);
    let _ = std::fs::remove_dir_all(&dir);
    if got.len() == want.len() && gots == want { println!("OK"); 0 } else { println!("MISMATCH: iteration does not yield each key exactly once"); 1 }
}

fn putget(len: usize) -> i32 {
    let dir = tmpdir("putget");
    let db = abyssiniandb::open_file(&dir).unwrap();
    let mut m = db.db_map_string("m").unwrap();
    m.put_string("a", "left").unwrap();
    let v: Vec<u8> = (0..len).map(|i| (i % 251) as u8).collect();
    m.put("b", &v).unwrap();
    m.put_string("c", "right").unwrap();
    let ok = m.get("b").unwrap() == Some(v) && m.get_string("a").unwrap() == Some("left".into()) && m.get_string("c").unwrap() == Some("right".into());
    let _ = std::fs::remove_dir_all(&dir);
    if ok { println!("OK"); 0 } else { println!("MISMATCH"); 1 }
}

fn flushdur() -> i32 {
    let dir = tmpdir("flush");
    let db = abyssiniandb::open_file(&dir).unwrap();
    let mut m = db.db_map_string("m").unwrap();
    m.put_string("a", "x").unwrap();
    m.flush().unwrap();
    m.sync_all().unwrap();
    let mut bad = 0;
    for ext in ["key", "val", "htx"] {
        let len = std::fs::metadata(dir.join(format!("m.{ext}"))).unwrap().len();
        println!("m.{ext}: {len} bytes on disk after flush+sync_all");
        if len == 0 { bad = 1; }
    }
    drop(m); drop(db);
    let _ = std::fs::remove_dir_all(&dir);
    if bad == 0 { println!("OK"); } else { println!("MISMATCH: flush/sync returned Ok but nothing was written"); }
    bad
}

fn reloc() -> i32 {
    let dir = tmpdir("reloc");
    let db = abyssiniandb::open_file(&dir).unwrap();
    let mut m = db.db_map_string("m").unwrap();
    m.put_string("aaaaaaaaaaa", "x").unwrap();
    for i in 0..40 { m.put(&format!("k{i}"), &vec![7u8; 500]).unwrap(); }
    let r = std::panic::catch_unwind(std::panic::AssertUnwindSafe(|| { m.put("aaaaaaaaaaa", &vec![9u8; 600]).unwrap(); }));
    let after = m.get("aaaaaaaaaaa").unwrap();
    let _ = std::fs::remove_dir_all(&dir);
    if r.is_err() || after != Some(vec![9u8; 600]) { println!("MISMATCH: overwrite panicked={} entry afterwards={:?}", r.is_err(), after.map(|v| v.len())); 1 } else { println!("OK"); 0 }
}

fn sig() -> i32 {
    let dir = tmpdir("sig");
    {
        let db = abyssiniandb::open_file(&dir).unwrap();
        let mut m = db.db_map_u64("m").unwrap();
        m.put(&5u64, b"five").unwrap();
    }
    let r = std::panic::catch_unwind(|| {
        let db = abyssiniandb::open_file(&dir).unwrap();
        let mut m = db.db_map_vu64("m").unwrap();
        m.get(&5u64).unwrap()
    });
    let _ = std::fs::remove_dir_all(&dir);
    match r { Err(_) => { println!("OK (refused)"); 0 } Ok(v) => { println!("MISMATCH: u64 map opened as vu64, get(5) = {:?}", v); 1 } }
}

fn reuse() -> i32 {
    let dir = tmpdir("reuse");
    let db = abyssiniandb::open_file(&dir).unwrap();
    let mut m = db.db_map_string("m").unwrap();
    m.put("a", &vec![1u8; 5000]).unwrap();
    m.delete("a").unwrap();
    m.put("b", &vec![2u8; 2000]).unwrap();
    // decode the slot tiling of the value file by hand instead of calling the (possibly hanging) walker
    m.flush().ok(); drop(m); drop(db);
    let b = std::fs::read(dir.join("m.val")).unwrap_or_default();
    let _ = std::fs::remove_dir_all(&dir);
    if b.is_empty() { println!("(value file empty on disk — flush defect)"); return 1; }
    let mut o = 192usize; let mut n = 0;
    while o < b.len() {
        let (sz, _w) = vu64_at(&b, o);
        if sz == 0 { println!("MISMATCH: slot of size 0 at offset {o} (file length {}) — tiling broken", b.len()); return 1; }
        o += sz as usize * 8; n += 1;
    }
    println!("OK ({n} slots tile the file)"); 0
}
fn vu64_at(b: &[u8], o: usize) -> (u64, usize) {
    let f = b[o]; let w = f.leading_ones() as usize + 1;
    if w == 1 { return (f as u64, 1); }
    let mut a = [0u8; 8]; for i in 0..(w - 1).min(8) { a[i] = b[o + 1 + i]; }
    let follow = u64::from_le_bytes(a);
    if w >= 8 { (follow, w) } else { ((((follow << 8) | ((f << w) as u64)) >> w), w) }
}

fn bufsize(bytes: u32) -> i32 {
    let dir = tmpdir("buf");
    let db = abyssiniandb::open_file(&dir).unwrap();
    let p = FileDbParams { val_buf_size: FileBufSizeParam::Size(bytes), key_buf_size: FileBufSizeParam::Size(bytes), htx_buf_size: FileBufSizeParam::Size(bytes), buckets_size: HashBucketsParam::Capacity(100), ..Default::default() };
    let mut m = db.db_map_string_with_params("m", p).unwrap();
    for i in 0..2000 { m.put(&format!("key{i}"), &vec![3u8; 300]).unwrap(); }
    let mut ok = true;
    for i in 0..2000 { ok &= m.get(&format!("key{i}")).unwrap() == Some(vec![3u8; 300]); }
    let _ = m.count_of_free_key_piece();
    let _ = std::fs::remove_dir_all(&dir);
    if ok { println!("OK"); 0 } else { println!("MISMATCH"); 1 }
}

// ---- generic witness search scenarios -------------------------------------------------------------------------------
struct Rng(u64);
impl Rng { fn next(&mut self) -> u64 { self.0 ^= self.0 << 13; self.0 ^= self.0 >> 7; self.0 ^= self.0 << 17; self.0 } fn below(&mut self, n: u64) -> u64 { self.next() % n } }

/// distinct 16-byte keys with the SAME full 64-bit hash value (the key hasher adds each 8-byte word to a state mixed by xorshift 12/25/27,
/// so the second word can be solved for). The construction is checked through the public HashValue trait; if the crate's hash ever
/// changes, the keys that do not collide are dropped (fewer than two left: the callers skip their part).
fn colliding_keys(n: usize) -> Vec<Vec<u8>> {
    use abyssiniandb::HashValue;
    fn xs(a: u64) -> u64 { let mut x = a; x ^= x >> 12; x ^= x << 25; x ^= x >> 27; x }
    let s0 = xs(u64::from_be_bytes(16usize.to_ne_bytes()));
    let target = xs(s0.wrapping_add(u64::from_be_bytes(*b"key-0000"))).wrapping_add(u64::from_be_bytes(*b"-tail-00"));
    let mut out: Vec<Vec<u8>> = Vec::new();
    for i in 0..n {
        let w1 = u64::from_be_bytes(format!("key-{i:04}").as_bytes().try_into().unwrap());
        let w2 = target.wrapping_sub(xs(s0.wrapping_add(w1)));
        let mut k = w1.to_be_bytes().to_vec(); k.extend_from_slice(&w2.to_be_bytes());
        out.push(k);
    }
    let h0 = abyssiniandb::DbBytes::from(&out[0][..]).hash_value();
    out.retain(|k| abyssiniandb::DbBytes::from(&k[..]).hash_value() == h0);
    out
}

/// walk the slots of a key/value file image: returns Err(description) if the tiling is broken
fn walk_slots(b: &[u8]) -> Result<usize, String> {
    if b.len() < 192 { return Err(format!("file shorter than its header: {}", b.len())); }
    let mut o = 192usize; let mut n = 0;
    while o < b.len() {
        let (sz, _w) = vu64_at(b, o);
        if sz == 0 { return Err(format!("slot of size 0 at offset {o} (file length {})", b.len())); }
        o += sz as usize * 8; n += 1;
    }
    if o != b.len() { return Err(format!("last slot ends at {o}, file length {}", b.len())); }
    Ok(n)
}

/// random history against a BTreeMap model on a small table with colliding keys and boundary-sized values
fn history(seed: u64, nkeys: u64, nops: u64) -> i32 {
    use std::collections::BTreeMap;
    let dir = tmpdir("hist");
    let mut rng = Rng(seed.wrapping_mul(0x9E3779B97F4A7C15) | 1);
    let lens: [usize; 14] = [0, 1, 6, 7, 8, 14, 15, 16, 22, 30, 100, 1000, 1015, 5000];
    let mut model: BTreeMap<String, Vec<u8>> = BTreeMap::new();
    let params = FileDbParams { buckets_size: HashBucketsParam::BucketsSize(8), ..Default::default() };
    let res = std::panic::catch_unwind(std::panic::AssertUnwindSafe(|| -> Result<(), String> {
        let db = abyssiniandb::open_file(&dir).unwrap();
        let mut m = db.db_map_string_with_params("m", params.clone()).unwrap();
        for step in 0..nops {
            let k = { let i = rng.below(nkeys); format!("{}{}", "k".repeat(1 + (i % 13) as usize), i) };
            match rng.below(10) {
                0..=4 => {
                    let l = lens[rng.below(lens.len() as u64) as usize]; let fill = (rng.next() & 0xff) as u8;
                    let v: Vec<u8> = (0..l).map(|i| fill.wrapping_add(i as u8)).collect();
                    m.put(&k, &v).map_err(|e| format!("step {step}: put {k} failed: {e}"))?;
                    model.insert(k.clone(), v);
                }
                5..=6 => {
                    let r = m.delete(&k).map_err(|e| format!("step {step}: delete failed: {e}"))?;
                    let e = model.remove(&k);
                    if r != e { return Err(format!("step {step}: delete({k}) returned {:?} bytes, model {:?} bytes", r.map(|v| v.len()), e.map(|v| v.len()))); }
                }
                7 => {
                    let r = m.get(&k).map_err(|e| format!("step {step}: get failed: {e}"))?;
                    if r.as_ref() != model.get(&k) { return Err(format!("step {step}: get({k}) differs from the model")); }
                }
                8 => {
                    let n = m.len().unwrap();
                    if n != model.len() as u64 { return Err(format!("step {step}: len() = {n}, model {}", model.len())); }
                    let mut seen: BTreeMap<String, Vec<u8>> = BTreeMap::new(); let mut cnt = 0u64;
                    for (kk, vv) in m.iter() { cnt += 1; seen.insert(String::from_utf8_lossy(&kk).to_string(), vv); }
                    if cnt != n || seen != model { return Err(format!("step {step}: iteration yields {cnt} items / differs from the model ({} keys)", model.len())); }
                }
                _ => {
                    m.flush().unwrap();
                    for (kk, vv) in &model { if m.get(kk).unwrap().as_ref() != Some(vv) { return Err(format!("step {step}: get({kk}) differs after flush")); } }
                }
            }
        }
        // final: everything readable, structure decodes
        for (kk, vv) in &model { if m.get(kk).unwrap().as_ref() != Some(vv) { return Err(format!("final get({kk}) differs")); } }
        m.flush().unwrap(); m.sync_all().unwrap();
        for ext in ["key", "val"] {
            let b = std::fs::read(dir.join(format!("m.{ext}"))).unwrap();
            walk_slots(&b).map_err(|e| format!("m.{ext}: {e}"))?;
        }
        let _ = m.count_of_free_key_piece(); let _ = m.count_of_free_value_piece();
        drop(m); drop(db);
        // reopen and compare
        let db = abyssiniandb::open_file(&dir).unwrap();
        let mut m = db.db_map_string("m").unwrap();
        if m.len().unwrap() != model.len() as u64 { return Err("len differs after reopen".into()); }
        for (kk, vv) in &model { if m.get(kk).unwrap().as_ref() != Some(vv) { return Err(format!("get({kk}) differs after reopen")); } }
        Ok(())
    }));
    let _ = std::fs::remove_dir_all(&dir);
    match res {
        Ok(Ok(())) => { println!("OK"); 0 }
        Ok(Err(e)) => { println!("MISMATCH: history seed={seed} keys={nkeys} ops={nops}: {e}"); 1 }
        Err(e) => {
            let msg = e.downcast_ref::<String>().cloned().or_else(|| e.downcast_ref::<&str>().map(|s| s.to_string())).unwrap_or_default();
            if msg.contains("key_offset != new_key_offset") || msg.contains("_prev_key_offset != new_prev_key_offset") {
                // the recorded findings K1a / K1b: not what this search is looking for
                println!("OK (history stopped at recorded finding K1: {msg})"); 0
            } else { println!("MISMATCH: history seed={seed} keys={nkeys} ops={nops}: panicked: {msg}"); 1 }
        }
    }
}

/// every value length in 0..1100 and around 4 KiB / 128 KiB between two sentinels, then overwritten one byte longer
fn putsweep() -> i32 {
    let dir = tmpdir("sweep");
    let res = std::panic::catch_unwind(std::panic::AssertUnwindSafe(|| -> Result<(), String> {
        let db = abyssiniandb::open_file(&dir).unwrap();
        let params = FileDbParams { buckets_size: HashBucketsParam::BucketsSize(64), ..Default::default() };
        let mut m = db.db_map_string_with_params("m", params).unwrap();
        let mut lens: Vec<usize> = (0..1100).collect();
        lens.extend([4090, 4096, 4097, 16383, 16384, 131071, 131072, 131073]);
        for (i, l) in lens.iter().enumerate() {
            let (a, b, c) = (format!("a{i}"), format!("b{i}"), format!("c{i}"));
            m.put_string(&a, "left").unwrap();
            let v: Vec<u8> = (0..*l).map(|j| (j % 251) as u8).collect();
            m.put(&b, &v).unwrap();
            m.put_string(&c, "right").unwrap();
            let mut v2 = v.clone(); v2.push(7);
            m.put(&b, &v2).unwrap();
            if m.get(&b).unwrap() != Some(v2) { return Err(format!("length {l}+1: value read back differs")); }
            if m.get_string(&a).unwrap() != Some("left".into()) || m.get_string(&c).unwrap() != Some("right".into()) { return Err(format!("length {l}: a neighbour was overwritten")); }
            m.delete(&a).unwrap(); m.delete(&b).unwrap(); m.delete(&c).unwrap();
        }
        m.flush().unwrap(); m.sync_all().unwrap();
        for ext in ["key", "val"] { walk_slots(&std::fs::read(dir.join(format!("m.{ext}"))).unwrap()).map_err(|e| format!("m.{ext}: {e}"))?; }
        Ok(())
    }));
    let _ = std::fs::remove_dir_all(&dir);
    match res { Ok(Ok(())) => { println!("OK"); 0 } Ok(Err(e)) => { println!("MISMATCH: {e}"); 1 } Err(_) => { println!("MISMATCH: panicked"); 1 } }
}

fn copy_dir(from: &std::path::Path, to: &std::path::Path) {
    let _ = std::fs::remove_dir_all(to); std::fs::create_dir_all(to).unwrap();
    for e in std::fs::read_dir(from).unwrap() { let e = e.unwrap(); std::fs::copy(e.path(), to.join(e.file_name())).unwrap(); }
}
/// after every flush / sync the directory is copied while the handles are alive and the copy must open to the model
fn durable() -> i32 {
    use std::collections::BTreeMap;
    let dir = tmpdir("dur"); let snap = tmpdir("dursnap");
    let params = FileDbParams { buckets_size: HashBucketsParam::BucketsSize(8), ..Default::default() };
    let res = std::panic::catch_unwind(std::panic::AssertUnwindSafe(|| -> Result<(), String> {
        let db = abyssiniandb::open_file(&dir).unwrap();
        let mut m = db.db_map_string_with_params("m", params.clone()).unwrap();
        let mut model: BTreeMap<String, Vec<u8>> = BTreeMap::new();
        let mut step = 0;
        let mut check = |m: &mut abyssiniandb::filedb::FileDbMapDbString, model: &BTreeMap<String, Vec<u8>>, how: u32, step: &mut u32| -> Result<(), String> {
            *step += 1;
            // read-only calls between the update and the sync point must not make the sync skip anything (one kind per sync point)
            match *step % 6 {
                0 => { m.read_fill_buffer().unwrap(); }
                1 => { let _ = m.get("a").unwrap(); let _ = m.includes_key("no such key").unwrap(); }
                2 => { let _ = m.len().unwrap(); let _ = m.iter().count(); }
                3 => { let _ = m.htx_filling_rate_per_mill().unwrap(); let _ = m.count_of_free_key_piece().unwrap(); let _ = m.count_of_free_value_piece().unwrap(); }
                4 => { let _ = m.keys().count(); let _ = m.values().count(); let _ = m.key_length_stats().unwrap(); }
                _ => { m.read_fill_buffer().unwrap(); let _ = m.get("b").unwrap(); }
            }
            match how { 0 => m.flush().unwrap(), 1 => m.sync_data().unwrap(), _ => m.sync_all().unwrap() }
            copy_dir(&dir, &snap);
            let db2 = abyssiniandb::open_file(&snap).unwrap();
            let mut m2 = db2.db_map_string_with_params("m", params.clone()).unwrap();
            if m2.len().unwrap() != model.len() as u64 { return Err(format!("sync point {step}: snapshot has {} entries, model {}", m2.len().unwrap(), model.len())); }
            for (k, v) in model { if m2.get(k).unwrap().as_ref() != Some(v) { return Err(format!("sync point {step}: snapshot value of {k} differs")); } }
            Ok(())
        };
        check(&mut m, &model, 0, &mut step)?;                                   // only created
        m.put("a", b"value-one").unwrap(); model.insert("a".into(), b"value-one".to_vec()); check(&mut m, &model, 0, &mut step)?;
        m.put("a", b"VALUE-ONE").unwrap(); model.insert("a".into(), b"VALUE-ONE".to_vec()); check(&mut m, &model, 0, &mut step)?;   // in place
        m.put("a", &vec![5u8; 300]).unwrap(); model.insert("a".into(), vec![5u8; 300]); check(&mut m, &model, 1, &mut step)?;          // moved
        m.put("b", b"x").unwrap(); model.insert("b".into(), b"x".to_vec()); check(&mut m, &model, 2, &mut step)?;
        m.delete("a").unwrap(); model.remove("a"); check(&mut m, &model, 0, &mut step)?;
        m.put("b", b"y").unwrap(); model.insert("b".into(), b"y".to_vec()); check(&mut m, &model, 1, &mut step)?;
        m.delete("b").unwrap(); model.remove("b"); check(&mut m, &model, 2, &mut step)?;
        check(&mut m, &model, 0, &mut step)?;                                   // flush on an unmodified map
        for i in 0..12u32 {
            let k = format!("k{}", i % 5); let v = vec![i as u8; 3 + (i as usize * 37) % 200];
            if i % 4 == 3 { m.delete(&k).unwrap(); model.remove(&k); } else { m.put(&k, &v).unwrap(); model.insert(k, v); }
            check(&mut m, &model, 0, &mut step)?;
        }
        Ok(())
    }));
    let _ = std::fs::remove_dir_all(&dir); let _ = std::fs::remove_dir_all(&snap);
    match res { Ok(Ok(())) => { println!("OK"); 0 } Ok(Err(e)) => { println!("MISMATCH: {e}"); 1 } Err(_) => { println!("MISMATCH: panicked"); 1 } }
}

/// every single-byte mutation of the 16 signature bytes of each of the three files must be refused, files left unchanged
fn sigmut() -> i32 {
    let dir = tmpdir("sigmut");
    let params = FileDbParams { buckets_size: HashBucketsParam::BucketsSize(8), ..Default::default() };
    {
        let db = abyssiniandb::open_file(&dir).unwrap();
        let mut m = db.db_map_string_with_params("m", params.clone()).unwrap();
        m.put_string("k", "v").unwrap();
    }
    let prev = std::panic::take_hook(); std::panic::set_hook(Box::new(|_| {}));
    let mut bad: Vec<String> = Vec::new();
    for ext in ["key", "val", "htx"] {
        let p = dir.join(format!("m.{ext}"));
        let orig = std::fs::read(&p).unwrap();
        for pos in 0..16usize {
            for delta in [1u8, 0x20, 0xff] {
                let mut b = orig.clone(); b[pos] ^= delta; std::fs::write(&p, &b).unwrap();
                let before: Vec<Vec<u8>> = ["key", "val", "htx"].iter().map(|e| std::fs::read(dir.join(format!("m.{e}"))).unwrap()).collect();
                let r = std::panic::catch_unwind(std::panic::AssertUnwindSafe(|| {
                    let db = abyssiniandb::open_file(&dir)?;
                    let mut m = db.db_map_string_with_params("m", params.clone())?;
                    m.get("k")
                }));
                let accepted = matches!(r, Ok(Ok(_)));
                let after: Vec<Vec<u8>> = ["key", "val", "htx"].iter().map(|e| std::fs::read(dir.join(format!("m.{e}"))).unwrap()).collect();
                if accepted { bad.push(format!("{ext}[{pos}]^{delta:#x} accepted")); }
                else if before != after { bad.push(format!("{ext}[{pos}]^{delta:#x} refused but files changed")); }
            }
        }
        std::fs::write(&p, &orig).unwrap();
    }
    // foreign or truncated files (signature incomplete or absent): refused, and no file changes — not even in length
    for ext in ["key", "val", "htx"] {
        let p = dir.join(format!("m.{ext}"));
        let orig = std::fs::read(&p).unwrap();
        let mut foreign: Vec<Vec<u8>> = vec![b"stub\n".to_vec(), vec![0x7f], orig[..12].to_vec(), orig[..9].to_vec(), vec![0u8; 16], vec![0u8; 40], b"this is not a database file, it only happens to have the right name ..........".to_vec()];
        let mut swapped = orig.clone(); swapped[..8].copy_from_slice(&orig[8..16]); foreign.push(swapped);
        for (fi, content) in foreign.iter().enumerate() {
            std::fs::write(&p, content).unwrap();
            let before: Vec<Vec<u8>> = ["key", "val", "htx"].iter().map(|e| std::fs::read(dir.join(format!("m.{e}"))).unwrap()).collect();
            let r = std::panic::catch_unwind(std::panic::AssertUnwindSafe(|| {
                let db = abyssiniandb::open_file(&dir)?;
                let mut m = db.db_map_string_with_params("m", params.clone())?;
                m.get("k")
            }));
            let accepted = matches!(r, Ok(Ok(_)));
            let after: Vec<Vec<u8>> = ["key", "val", "htx"].iter().map(|e| std::fs::read(dir.join(format!("m.{e}"))).unwrap()).collect();
            if accepted { bad.push(format!("foreign content #{fi} ({} bytes) as m.{ext} accepted", content.len())); }
            else if before != after { bad.push(format!("foreign content #{fi} ({} bytes) as m.{ext} refused but files changed (lengths {:?} -> {:?})", content.len(), before.iter().map(|b| b.len()).collect::<Vec<_>>(), after.iter().map(|b| b.len()).collect::<Vec<_>>())); }
        }
        std::fs::write(&p, &orig).unwrap();
    }
    // the type signature written into each of the three files is the documented one of the key type; a value (or key, or table) file
    // taken from a map of another key type is refused
    {
        let d3 = tmpdir("sigdoc");
        {
            let db = abyssiniandb::open_file(&d3).unwrap();
            let mut a = db.db_map_string_with_params("s", params.clone()).unwrap(); a.put_string("k", "v").unwrap();
            let mut b = db.db_map_bytes_with_params("b", params.clone()).unwrap(); b.put(&b"k"[..], b"v").unwrap();
            let mut c = db.db_map_i64_with_params("i", params.clone()).unwrap(); c.put(&5i64, b"v").unwrap();
            let mut d = db.db_map_u64_with_params("u", params.clone()).unwrap(); d.put(&5u64, b"v").unwrap();
            let mut e = db.db_map_vu64_with_params("v", params.clone()).unwrap(); e.put(&5u64, b"v").unwrap();
        }
        for (nm, sig) in [("s", &b"string\0\0"[..]), ("b", &b"bytes\0\0\0"[..]), ("i", &b"i64_le\0\0"[..]), ("u", &b"u64_le\0\0"[..]), ("v", &b"u64_le\0\0"[..])] {
            for ext in ["key", "val", "htx"] {
                let f = std::fs::read(d3.join(format!("{nm}.{ext}"))).unwrap();
                if &f[8..16] != sig { bad.push(format!("{nm}.{ext}: type signature {:?}, documented {:?}", String::from_utf8_lossy(&f[8..16]), String::from_utf8_lossy(sig))); }
            }
        }
        for ext in ["key", "val", "htx"] {
            let orig = std::fs::read(d3.join(format!("s.{ext}"))).unwrap();
            std::fs::copy(d3.join(format!("b.{ext}")), d3.join(format!("s.{ext}"))).unwrap();
            let r = std::panic::catch_unwind(std::panic::AssertUnwindSafe(|| {
                let db = abyssiniandb::open_file(&d3)?;
                let mut m = db.db_map_string_with_params("s", params.clone())?;
                m.get("k")
            }));
            if matches!(r, Ok(Ok(_))) { bad.push(format!("string map opened with the .{ext} file of a bytes map")); }
            std::fs::write(d3.join(format!("s.{ext}")), &orig).unwrap();
        }
        let _ = std::fs::remove_dir_all(&d3);
    }
    // every ordered pair of key types except the recorded finding K2 (u64 / vu64)
    for (i, j) in [(0, 1), (0, 2), (0, 3), (1, 0), (1, 2), (2, 0), (2, 1), (2, 3), (3, 0), (3, 2), (4, 0), (4, 1), (4, 2), (0, 4), (1, 4), (2, 4), (1, 3), (3, 1)] {
        let d2 = tmpdir("sigpair");
        let mk = |t: usize, d: &std::path::Path| -> std::io::Result<()> {
            let db = abyssiniandb::open_file(d)?;
            match t {
                0 => { let mut m = db.db_map_string_with_params("m", params.clone())?; m.put_string("k", "v")?; }
                1 => { let mut m = db.db_map_bytes_with_params("m", params.clone())?; m.put(&b"k"[..], b"v")?; }
                2 => { let mut m = db.db_map_i64_with_params("m", params.clone())?; m.put(&5i64, b"v")?; }
                3 => { let mut m = db.db_map_u64_with_params("m", params.clone())?; m.put(&5u64, b"v")?; }
                _ => { let mut m = db.db_map_vu64_with_params("m", params.clone())?; m.put(&5u64, b"v")?; }
            }
            Ok(())
        };
        mk(i, &d2).unwrap();
        let r = std::panic::catch_unwind(std::panic::AssertUnwindSafe(|| mk(j, &d2)));
        if matches!(r, Ok(Ok(()))) { bad.push(format!("files of key type #{i} opened as key type #{j}")); }
        let _ = std::fs::remove_dir_all(&d2);
    }
    std::panic::set_hook(prev);
    let _ = std::fs::remove_dir_all(&dir);
    if bad.is_empty() { println!("OK"); 0 } else { println!("MISMATCH: {}", bad.join("; ")); 1 }
}

/// close and reopen with other parameters (bucket counts, buffer sizes): contents must be identical
fn reopen() -> i32 {
    use std::collections::BTreeMap;
    let dir = tmpdir("reopen");
    let res = std::panic::catch_unwind(std::panic::AssertUnwindSafe(|| -> Result<(), String> {
      for first in [HashBucketsParam::BucketsSize(64), HashBucketsParam::BucketsSize(1), HashBucketsParam::BucketsSize(2), HashBucketsParam::BucketsSize(4), HashBucketsParam::Capacity(1), HashBucketsParam::BucketsSize(100)] {
        let _ = std::fs::remove_dir_all(&dir);
        let mut model: BTreeMap<String, Vec<u8>> = BTreeMap::new();
        let variants = [first, HashBucketsParam::BucketsSize(8), HashBucketsParam::Capacity(1000), HashBucketsParam::BucketsSize(1024), HashBucketsParam::Capacity(3)];
        for (round, bp) in variants.iter().enumerate() {
            let params = FileDbParams { buckets_size: bp.clone(),
                key_buf_size: if round % 2 == 0 { FileBufSizeParam::Size(512 * 1024) } else { FileBufSizeParam::Auto },
                val_buf_size: if round % 2 == 1 { FileBufSizeParam::Size(1024 * 1024) } else { FileBufSizeParam::Auto }, ..Default::default() };
            let db = abyssiniandb::open_file(&dir).unwrap();
            let mut m = db.db_map_string_with_params("m", params).unwrap();
            if m.len().unwrap() != model.len() as u64 { return Err(format!("round {round}: len {} after reopen, model {}", m.len().unwrap(), model.len())); }
            for (k, v) in &model { if m.get(k).unwrap().as_ref() != Some(v) { return Err(format!("round {round}: lost or changed key {k} after reopen")); } }
            let mut cnt = 0; for (k, v) in m.iter() { cnt += 1; if model.get(&String::from_utf8_lossy(&k).to_string()) != Some(&v) { return Err(format!("round {round}: iteration differs after reopen")); } }
            if cnt != model.len() { return Err(format!("round {round}: iteration yields {cnt} of {}", model.len())); }
            for i in 0..20 { let k = format!("key-{}-{}", round, i); let v = vec![round as u8; 10 + i * 7]; m.put(&k, &v).unwrap(); model.insert(k, v); }
            if round > 0 { let k = format!("key-{}-{}", round - 1, 3); m.delete(&k).unwrap(); model.remove(&k); }
        }
      }
        // a map that was filled, completely emptied and closed: idle reopen, then refill with short and long keys over several sessions
        for variant in 0..3 {
            let _ = std::fs::remove_dir_all(&dir);
            let p = FileDbParams { buckets_size: HashBucketsParam::BucketsSize(8), ..Default::default() };
            { let db = abyssiniandb::open_file(&dir).unwrap(); let mut m = db.db_map_string_with_params("e", p.clone()).unwrap();
              for i in 0..30 { m.put(&format!("k{i:02}"), &vec![i as u8; 5 + i]).unwrap(); }
              for i in 0..30 { m.delete(&format!("k{i:02}")).unwrap(); } }
            if variant >= 1 { let db = abyssiniandb::open_file(&dir).unwrap(); let mut m = db.db_map_string_with_params("e", p.clone()).unwrap(); if m.len().unwrap() != 0 { return Err("emptied map: len != 0 after reopen".into()); } }
            let mut model: BTreeMap<String, Vec<u8>> = BTreeMap::new();
            for session in 0..3 {
                let db = abyssiniandb::open_file(&dir).unwrap(); let mut m = db.db_map_string_with_params("e", p.clone()).unwrap();
                if m.len().unwrap() != model.len() as u64 { return Err(format!("emptied map (variant {variant}): len {} in session {session}, model {}", m.len().unwrap(), model.len())); }
                for (k, v) in &model { if m.get(k).unwrap().as_ref() != Some(v) { return Err(format!("emptied map (variant {variant}): key {k:?} lost or changed in session {session}")); } }
                let ks: Vec<String> = if (variant + session) % 2 == 0 { (0..6).map(|i| format!("k{i:02}-{session}")).collect() } else { (0..6).map(|i| format!("a-much-longer-key-than-before-{i:02}-{session}-{}", "x".repeat(20 + i * 9))).collect() };
                for (i, k) in ks.iter().enumerate() { let v = vec![(session * 16 + i) as u8; 3 + i * 20]; m.put(k, &v).unwrap(); model.insert(k.clone(), v); }
                for (k, v) in &model { if m.get(k).unwrap().as_ref() != Some(v) { return Err(format!("emptied map (variant {variant}): key {k:?} lost or changed right after the puts of session {session}")); } }
                let it: BTreeMap<String, Vec<u8>> = m.iter().map(|(k, v)| (String::from_utf8_lossy(&k).to_string(), v)).collect();
                if it != model { return Err(format!("emptied map (variant {variant}): iteration differs in session {session}")); }
            }
        }
        // within one session: the same name requested again with OTHER parameters is the same map (parameters of an existing map are ignored)
        let _ = std::fs::remove_dir_all(&dir);
        {
            let p1 = FileDbParams { buckets_size: HashBucketsParam::BucketsSize(8), ..Default::default() };
            let p2 = FileDbParams { buckets_size: HashBucketsParam::BucketsSize(256), key_buf_size: FileBufSizeParam::Size(512 * 1024), ..Default::default() };
            let db = abyssiniandb::open_file(&dir).unwrap();
            macro_rules! again { ($f:ident, $name:expr, $k1:expr, $k2:expr) => {{
                let mut a = db.$f($name, p1.clone()).unwrap();
                a.put($k1, b"first").unwrap();
                let mut b = db.$f($name, p2.clone()).unwrap();
                if b.get($k1).unwrap() != Some(b"first".to_vec()) { return Err(format!("map {}: a handle requested again with other parameters does not see the first handle's put", $name)); }
                b.put($k2, b"second").unwrap();
                if a.get($k2).unwrap() != Some(b"second".to_vec()) || a.len().unwrap() != 2 || b.len().unwrap() != 2 { return Err(format!("map {}: the two handles of one name diverge", $name)); }
            }}; }
            again!(db_map_string_with_params, "rs", "k1", "k2");
            again!(db_map_bytes_with_params, "rb", &b"k1"[..], &b"k2"[..]);
            again!(db_map_i64_with_params, "ri", &1i64, &-2i64);
            again!(db_map_u64_with_params, "ru", &1u64, &2u64);
            again!(db_map_vu64_with_params, "rv", &1u64, &2u64);
        }
        Ok(())
    }));
    let _ = std::fs::remove_dir_all(&dir);
    match res { Ok(Ok(())) => { println!("OK"); 0 } Ok(Err(e)) => { println!("MISMATCH: {e}"); 1 } Err(_) => { println!("MISMATCH: panicked"); 1 } }
}

/// a session of read-only calls must leave the three files byte-identical
fn readonly() -> i32 {
    let dir = tmpdir("ro");
    let res = std::panic::catch_unwind(std::panic::AssertUnwindSafe(|| -> Result<(), String> {
        for n in [8u64, 16, 64, 128, 1024] {
            let _ = std::fs::remove_dir_all(&dir);
            let params = FileDbParams { buckets_size: HashBucketsParam::BucketsSize(n), ..Default::default() };
            for (fill, del) in [(0usize, 0usize), (1, 0), (1, 1), (5, 0), (5, 1), (5, 2), (5, 3), (40, 1), (40, 2), (40, 3)] {
                let _ = std::fs::remove_dir_all(&dir);
                {
                    let db = abyssiniandb::open_file(&dir).unwrap();
                    let mut m = db.db_map_string_with_params("m", params.clone()).unwrap();
                    for i in 0..fill { m.put(&format!("k{i}"), &vec![i as u8; 3 + i * 11]).unwrap(); }
                    // free slots in the middle (del 1), at the very end of both files (del 2: the last entry inserted), everywhere (del 3)
                    match del { 1 => { if fill > 2 { m.delete("k1").unwrap(); } else { m.delete("k0").unwrap(); } } 2 => { m.delete(&format!("k{}", fill - 1)).unwrap(); }
                                3 => { for i in 0..fill { m.delete(&format!("k{i}")).unwrap(); } } _ => {} }
                }
                let snap = |d: &std::path::Path| -> Vec<Vec<u8>> { ["key", "val", "htx"].iter().map(|e| std::fs::read(d.join(format!("m.{e}"))).unwrap()).collect() };
                let before = snap(&dir);
                {
                    let db = abyssiniandb::open_file(&dir).unwrap();
                    let ro_params = if del % 2 == 1 { FileDbParams { key_buf_size: FileBufSizeParam::Size(384 * 1024), val_buf_size: FileBufSizeParam::Size(300_000), htx_buf_size: FileBufSizeParam::Size(1024 * 1024),
                                                                      buckets_size: if del == 1 { HashBucketsParam::Capacity(5000) } else { HashBucketsParam::BucketsSize(n * 16) }, ..params.clone() } } else { params.clone() };
                    let mut m = db.db_map_string_with_params("m", ro_params).unwrap();
                    for i in 0..(fill + 30) { let _ = m.get(&format!("k{i}")).unwrap(); let _ = m.includes_key(&format!("absent{i}")).unwrap(); }
                    let _ = m.len().unwrap(); let _ = m.is_empty().unwrap();
                    let _: Vec<_> = m.iter().collect(); let _: Vec<_> = m.keys().collect(); let _: Vec<_> = m.values().collect();
                    let _ = m.bulk_get(&["k0", "k2", "nope"]).unwrap();
                    let _ = m.count_of_free_key_piece().unwrap(); let _ = m.count_of_free_value_piece().unwrap();
                    let _ = m.htx_filling_rate_per_mill().unwrap();
                    let _ = m.key_piece_size_stats().unwrap(); let _ = m.value_piece_size_stats().unwrap();
                    let _ = m.key_length_stats().unwrap(); let _ = m.value_length_stats().unwrap();
                    { let _it = m.iter(); let _k = m.keys(); let _v = m.values(); }      // created, never advanced
                    m.read_fill_buffer().unwrap(); m.flush().unwrap(); m.sync_data().unwrap(); m.sync_all().unwrap();
                    m.read_fill_buffer().unwrap(); m.flush().unwrap(); let _ = m.len().unwrap(); let _ = m.is_empty().unwrap(); m.sync_all().unwrap();
                }
                if snap(&dir) != before { return Err(format!("table of {n} buckets, {fill} entries, delete pattern {del}: files differ after a read-only session")); }
            }
        }
        Ok(())
    }));
    let _ = std::fs::remove_dir_all(&dir);
    match res { Ok(Ok(())) => { println!("OK"); 0 } Ok(Err(e)) => { println!("MISMATCH: {e}"); 1 } Err(_) => { println!("MISMATCH: panicked"); 1 } }
}

/// same update history twice (second run with read-only calls interleaved): byte-identical files after close
fn determ() -> i32 {
    let res = std::panic::catch_unwind(|| -> Result<(), String> {
        // (a) short targeted histories: every kind of read-only call after EVERY update in run 1, none in run 0; histories without
        //     deletes first (growing / shrinking overwrites only), then with deletes; also a close-and-reopen in the middle of run 1
        for variant in 0..4u64 {
            let mut images: Vec<Vec<Vec<u8>>> = Vec::new();
            for run in 0..2 {
                let dir = tmpdir(&format!("detA{run}"));
                let params = FileDbParams { buckets_size: HashBucketsParam::BucketsSize(16), ..Default::default() };
                let mut ops: Vec<(String, Option<usize>)> = Vec::new();
                let lens = [10usize, 40, 10, 100, 3, 300, 40, 1200, 10, 2000, 100];
                for i in 0..14usize { ops.push((format!("k{}", i % 5), Some(lens[(i * 3 + variant as usize) % lens.len()]))); }
                if variant >= 2 { ops.insert(6, ("k1".to_string(), None)); ops.push(("k3".to_string(), None)); }
                for i in 0..6usize { ops.push((format!("n{i}"), Some(lens[(i + variant as usize) % lens.len()]))); }
                let mut db = abyssiniandb::open_file(&dir).unwrap();
                let mut m = db.db_map_string_with_params("m", params.clone()).unwrap();
                for (j, (k, l)) in ops.iter().enumerate() {
                    match l { Some(l) => m.put(k, &vec![j as u8; *l]).unwrap(), None => { let _ = m.delete(k).unwrap(); } }
                    if run == 1 {
                        let _ = m.get(k).unwrap(); let _ = m.includes_key("zz").unwrap(); let _ = m.len().unwrap(); let _: Vec<_> = m.iter().collect();
                        let _ = m.count_of_free_value_piece().unwrap(); let _ = m.count_of_free_key_piece().unwrap();
                        let _ = m.value_length_stats().unwrap(); let _ = m.key_piece_size_stats().unwrap(); let _ = m.htx_filling_rate_per_mill().unwrap();
                        if variant % 2 == 1 && j == ops.len() / 2 { drop(m); drop(db); db = abyssiniandb::open_file(&dir).unwrap(); m = db.db_map_string_with_params("m", params.clone()).unwrap(); }
                    }
                }
                drop(m); drop(db);
                images.push(["key", "val", "htx"].iter().map(|e| std::fs::read(dir.join(format!("m.{e}"))).unwrap()).collect());
                let _ = std::fs::remove_dir_all(&dir);
            }
            for (i, e) in ["key", "val", "htx"].iter().enumerate() {
                if images[0][i] != images[1][i] { return Err(format!("targeted history {variant}: m.{e} differs when read-only calls{} are interleaved ({} vs {} bytes)", if variant % 2 == 1 { " and a close/reopen" } else { "" }, images[0][i].len(), images[1][i].len())); }
            }
        }
        // (b) keys with the same full hash value: read-only calls that miss (for a colliding key that is not stored) or hit, after every
        //     update of another key of the family, must not change what the next update does
        let ck = colliding_keys(6);
        if ck.len() >= 4 {
            let mut images: Vec<Vec<Vec<u8>>> = Vec::new(); let mut lens_: Vec<u64> = Vec::new();
            for run in 0..2 {
                let dir = tmpdir(&format!("detC{run}"));
                let params = FileDbParams { buckets_size: HashBucketsParam::BucketsSize(16), ..Default::default() };
                let db = abyssiniandb::open_file(&dir).unwrap();
                let mut m = db.db_map_bytes_with_params("m", params).unwrap();
                // (key index, Some(value length) = put / None = delete)
                let ops: [(usize, Option<usize>); 14] = [(1, Some(3)), (1, Some(3)), (1, Some(40)), (2, Some(5)), (1, Some(2)), (2, None), (2, Some(7)), (3, Some(300)), (1, None), (1, Some(9)), (3, Some(10)), (2, Some(7)), (3, None), (2, Some(90))];
                for (j, (ki, l)) in ops.iter().enumerate() {
                    match l { Some(l) => m.put(&ck[*ki][..], &vec![j as u8; *l]).unwrap(), None => { let _ = m.delete(&ck[*ki][..]).unwrap(); } }
                    if run == 1 {
                        let _ = m.includes_key(&ck[0][..]).unwrap(); let _ = m.get(&ck[0][..]).unwrap();          // never stored: always a miss
                        let _ = m.get(&ck[(ki + 1) % 4][..]).unwrap(); let _ = m.includes_key(&ck[(ki + 2) % 4][..]).unwrap(); let _ = m.len().unwrap();
                        let _ = m.bulk_get(&[&ck[0][..], &ck[4 % ck.len()][..]]).unwrap();
                    }
                }
                lens_.push(m.len().unwrap());
                drop(m); drop(db);
                images.push(["key", "val", "htx"].iter().map(|e| std::fs::read(dir.join(format!("m.{e}"))).unwrap()).collect());
                let _ = std::fs::remove_dir_all(&dir);
            }
            if lens_[0] != lens_[1] || lens_[0] != 2 { return Err(format!("keys with equal hash values: len {} without and {} with interleaved read-only calls (2 keys are stored)", lens_[0], lens_[1])); }
            for (i, e) in ["key", "val", "htx"].iter().enumerate() {
                if images[0][i] != images[1][i] { return Err(format!("keys with equal hash values: m.{e} differs when read-only calls for other keys of the family are interleaved ({} vs {} bytes)", images[0][i].len(), images[1][i].len())); }
            }
        }
        for (seed, nb) in [(3u64, 8u64), (4, 64), (5, 1024)] {
            let mut images: Vec<Vec<Vec<u8>>> = Vec::new();
            for run in 0..2 {
                let dir = tmpdir(&format!("det{run}"));
                let params = FileDbParams { buckets_size: HashBucketsParam::BucketsSize(nb), ..Default::default() };
                {
                    let db = abyssiniandb::open_file(&dir).unwrap();
                    let mut m = db.db_map_string_with_params("m", params).unwrap();
                    let mut rng = Rng(seed.wrapping_mul(0x9E3779B97F4A7C15) | 1);
                    for step in 0..250u64 {
                        let k = format!("key{}", rng.below(25));
                        if rng.below(10) < 7 {
                            let l = [0usize, 3, 10, 14, 40, 100, 300][rng.below(7) as usize];
                            m.put(&k, &vec![(step & 0xff) as u8; l]).unwrap();
                        } else { let _ = m.delete(&k).unwrap(); }
                        if step % 31 == 5 {
                            let ks: Vec<String> = (0..6).map(|j| format!("bulk{}", (step + j * 7) % 11)).collect();
                            let vs: Vec<Vec<u8>> = (0..6).map(|j| vec![(step + j) as u8; 4 + j as usize * 9]).collect();
                            let pairs: Vec<(&str, &[u8])> = ks.iter().zip(vs.iter()).map(|(k, v)| (k.as_str(), &v[..])).collect();
                            let mut uniq: Vec<(&str, &[u8])> = Vec::new(); for p_ in pairs { if !uniq.iter().any(|q| q.0 == p_.0) { uniq.push(p_); } }
                            m.bulk_put(&uniq).unwrap();
                            if step % 62 == 5 { let dk: Vec<&str> = uniq.iter().take(3).map(|p_| p_.0).collect(); let _ = m.bulk_delete(&dk).unwrap(); }
                            m.put_from_iter(vec![(abyssiniandb::DbString::from("pfi-a"), vec![1u8; 20]), (abyssiniandb::DbString::from("pfi-b"), vec![2u8; 3])].into_iter()).unwrap();
                            if step == 36 || step == 191 {
                                // long batches (more than 32 pairs), distinct keys, values of several size classes
                                let lk: Vec<String> = (0..45).map(|j| format!("long{step}-{j}")).collect();
                                let lv: Vec<Vec<u8>> = (0..45).map(|j| vec![j as u8; 3 + (j * 17) % 120]).collect();
                                let lp: Vec<(&str, &[u8])> = lk.iter().zip(lv.iter()).map(|(k, v)| (k.as_str(), &v[..])).collect();
                                m.bulk_put(&lp).unwrap();
                                let dk: Vec<&str> = lk.iter().step_by(2).map(|k| k.as_str()).collect();
                                let _ = m.bulk_delete(&dk).unwrap();
                                let sp: Vec<(&str, String)> = lk.iter().skip(1).step_by(2).map(|k| (k.as_str(), "replaced by bulk_put_string".to_string())).collect();
                                m.bulk_put_string(&sp).unwrap();
                            }
                        }
                        if run == 1 && step % 7 == 0 {
                            let _ = m.get(&k).unwrap(); let _ = m.len().unwrap(); let _: Vec<_> = m.iter().collect();
                            let _ = m.includes_key("zzz").unwrap(); let _ = m.count_of_free_value_piece().unwrap();
                        }
                    }
                }
                images.push(["key", "val", "htx"].iter().map(|e| std::fs::read(dir.join(format!("m.{e}"))).unwrap()).collect());
                let _ = std::fs::remove_dir_all(&dir);
            }
            for (i, e) in ["key", "val", "htx"].iter().enumerate() {
                if images[0][i] != images[1][i] { return Err(format!("seed {seed}, {nb} buckets: m.{e} differs between two runs of the same update history")); }
            }
        }
        Ok(())
    });
    match res { Ok(Ok(())) => { println!("OK"); 0 } Ok(Err(e)) => { println!("MISMATCH: {e}"); 1 }
        Err(e) => { let msg = e.downcast_ref::<String>().cloned().unwrap_or_default();
            if msg.contains("key_offset != new_key_offset") || msg.contains("_prev_key_offset != new_prev_key_offset") { println!("OK (stopped at recorded finding K1)"); 0 } else { println!("MISMATCH: panicked: {msg}"); 1 } } }
}

fn parse_pairs(s: &str) -> Vec<(u64, u64)> {
    let nums: Vec<u64> = s.split(|c: char| !c.is_ascii_digit()).filter(|t| !t.is_empty()).map(|t| t.parse().unwrap()).collect();
    nums.chunks(2).map(|c| (c[0], c[1])).collect()
}

/// statistics calls against figures known from the history
fn stats() -> i32 {
    use abyssiniandb::HashValue;
    let dir = tmpdir("stats");
    let res = std::panic::catch_unwind(std::panic::AssertUnwindSafe(|| -> Result<(), String> {
        for nb in [8u64, 64, 1024] {
            let _ = std::fs::remove_dir_all(&dir);
            let params = FileDbParams { buckets_size: HashBucketsParam::BucketsSize(nb), ..Default::default() };
            let db = abyssiniandb::open_file(&dir).unwrap();
            let mut m = db.db_map_string_with_params("m", params).unwrap();
            let nfree0k: u64 = m.count_of_free_key_piece().unwrap().iter().map(|x| x.1).sum();
            let nfree0v: u64 = m.count_of_free_value_piece().unwrap().iter().map(|x| x.1).sum();
            if nfree0k != 0 || nfree0v != 0 { return Err("fresh map reports free slots".into()); }
            for i in 0..40 { m.put(&format!("k{i:02}"), &vec![7u8; 5 + (i % 4) * 20]).unwrap(); }
            m.put("", b"").unwrap();   // empty key and empty value are not counted by the histograms
            for i in 0..10 { m.delete(&format!("k{i:02}")).unwrap(); }
            let fk: u64 = m.count_of_free_key_piece().unwrap().iter().map(|x| x.1).sum();
            let fv: u64 = m.count_of_free_value_piece().unwrap().iter().map(|x| x.1).sum();
            if fk != 10 || fv != 10 { return Err(format!("{nb} buckets: 10 entries deleted, free key slots {fk}, free value slots {fv}")); }
            let mut buckets = std::collections::BTreeSet::new();
            for i in 10..40 { buckets.insert(abyssiniandb::DbString::from(format!("k{i:02}").as_str()).hash_value() % nb); }
            buckets.insert(abyssiniandb::DbString::from("").hash_value() % nb);
            let (cnt, _pm) = m.htx_filling_rate_per_mill().unwrap();
            if cnt != buckets.len() as u64 { return Err(format!("{nb} buckets: filling figure {cnt}, non-empty buckets {}", buckets.len())); }
            if _pm as u64 != cnt * 1000 / nb { return Err(format!("{nb} buckets: per-mill figure {_pm} for {cnt} non-empty buckets")); }
            for (name, txt, want) in [("key_length_stats", m.key_length_stats().unwrap().to_string(), 30u64), ("value_length_stats", m.value_length_stats().unwrap().to_string(), 30),
                                      ("key_piece_size_stats", m.key_piece_size_stats().unwrap().to_string(), 30), ("value_piece_size_stats", m.value_piece_size_stats().unwrap().to_string(), 30)] {
                let total: u64 = parse_pairs(&txt).iter().map(|x| x.1).sum();
                if total != want { return Err(format!("{nb} buckets: {name} counts {total} entries, {want} live non-empty: {txt}")); }
            }
            let kl = parse_pairs(&m.key_length_stats().unwrap().to_string());
            if kl != vec![(3, 30)] { return Err(format!("{nb} buckets: key_length_stats {kl:?}, expected [(3, 30)]")); }
            let vl = parse_pairs(&m.value_length_stats().unwrap().to_string());
            let mut want: Vec<(u64, u64)> = Vec::new();
            for l in [5u64, 25, 45, 65] { let c = (10..40).filter(|i| 5 + (i % 4) * 20 == l).count() as u64; want.push((l, c)); }
            if vl != want { return Err(format!("{nb} buckets: value_length_stats {vl:?}, expected {want:?}")); }
        }
        // key side and value side are different files: uniform 3-byte keys with 200-byte values -> 16-byte key slots, 256-byte value slots
        {
            let _ = std::fs::remove_dir_all(&dir);
            let params = FileDbParams { buckets_size: HashBucketsParam::BucketsSize(16), ..Default::default() };
            let db = abyssiniandb::open_file(&dir).unwrap();
            let mut m = db.db_map_string_with_params("u", params).unwrap();
            for i in 0..12 { m.put(&format!("k{i:02}"), &vec![9u8; 200]).unwrap(); }
            for i in 0..5 { m.delete(&format!("k{i:02}")).unwrap(); }
            let ks = parse_pairs(&m.key_piece_size_stats().unwrap().to_string()); let vs = parse_pairs(&m.value_piece_size_stats().unwrap().to_string());
            if ks != vec![(16, 7)] || vs != vec![(256, 7)] { return Err(format!("uniform map: key_piece_size_stats {ks:?} (expected [(16, 7)]), value_piece_size_stats {vs:?} (expected [(256, 7)])")); }
            let kl = parse_pairs(&m.key_length_stats().unwrap().to_string()); let vl = parse_pairs(&m.value_length_stats().unwrap().to_string());
            if kl != vec![(3, 7)] || vl != vec![(200, 7)] { return Err(format!("uniform map: key_length_stats {kl:?}, value_length_stats {vl:?}")); }
            let fk: Vec<(u32, u64)> = m.count_of_free_key_piece().unwrap().into_iter().filter(|x| x.1 > 0).collect();
            let fv: Vec<(u32, u64)> = m.count_of_free_value_piece().unwrap().into_iter().filter(|x| x.1 > 0).collect();
            if fk != vec![(16, 5)] || fv != vec![(256, 5)] { return Err(format!("uniform map: free key slots {fk:?} (expected [(16, 5)]), free value slots {fv:?} (expected [(256, 5)])")); }
        }
        // histograms when sizes arrive in non-monotonic order (new smallest / new largest / between / repeated), key side != value side
        {
            let _ = std::fs::remove_dir_all(&dir);
            let params = FileDbParams { buckets_size: HashBucketsParam::BucketsSize(16), ..Default::default() };
            let db = abyssiniandb::open_file(&dir).unwrap();
            let mut m = db.db_map_string_with_params("h", params).unwrap();
            let klens = [5usize, 2, 9, 3, 9, 1, 30, 4, 2, 200];
            let vlens = [50usize, 70, 10, 70, 400, 10, 1, 1000, 50, 3];
            for (i, (kl, vl)) in klens.iter().zip(vlens.iter()).enumerate() {
                let k: String = std::iter::repeat((b'a' + i as u8) as char).take(*kl).collect();
                m.put(&k, &vec![i as u8; *vl]).unwrap();
                let mut wk: std::collections::BTreeMap<u64, u64> = Default::default(); for x in &klens[..=i] { *wk.entry(*x as u64).or_default() += 1; }
                let mut wv: std::collections::BTreeMap<u64, u64> = Default::default(); for x in &vlens[..=i] { *wv.entry(*x as u64).or_default() += 1; }
                let gk = parse_pairs(&m.key_length_stats().unwrap().to_string()); let gv = parse_pairs(&m.value_length_stats().unwrap().to_string());
                if gk != wk.into_iter().collect::<Vec<_>>() { return Err(format!("key_length_stats after {} puts: {gk:?}", i + 1)); }
                if gv != wv.into_iter().collect::<Vec<_>>() { return Err(format!("value_length_stats after {} puts: {gv:?}", i + 1)); }
                for (nm, txt) in [("key_piece_size_stats", m.key_piece_size_stats().unwrap().to_string()), ("value_piece_size_stats", m.value_piece_size_stats().unwrap().to_string())] {
                    let g = parse_pairs(&txt);
                    if g.iter().map(|x| x.1).sum::<u64>() != (i + 1) as u64 { return Err(format!("{nm} after {} puts counts {:?}", i + 1, g)); }
                    if g.windows(2).any(|w| w[0].0 >= w[1].0) { return Err(format!("{nm}: sizes not strictly ascending: {g:?}")); }
                    if g.iter().any(|x| x.0 % 8 != 0 || x.0 < 16) { return Err(format!("{nm}: an impossible slot size: {g:?}")); }
                }
            }
            let fv = m.count_of_free_value_piece().unwrap(); let fk = m.count_of_free_key_piece().unwrap();
            if fv.len() != 16 || fk.len() != 16 || fv.iter().map(|x| x.0).collect::<Vec<_>>() != vec![16, 24, 32, 48, 64, 80, 96, 112, 128, 256, 384, 512, 640, 768, 896, 1024] { return Err(format!("count_of_free_value_piece: size classes {:?}", fv)); }
            m.delete("aaaaa").unwrap();     // key slot 16 or 24, value slot 64
            let fv2 = m.count_of_free_value_piece().unwrap(); let fk2 = m.count_of_free_key_piece().unwrap();
            if fv2.iter().map(|x| x.1).sum::<u64>() != 1 || fk2.iter().map(|x| x.1).sum::<u64>() != 1 { return Err("one delete: free counts".into()); }
            if fv2.iter().find(|x| x.1 == 1).unwrap().0 != 64 { return Err(format!("freed 50-byte value: counted in class {:?}", fv2.iter().find(|x| x.1 == 1))); }
        }
        // statistics after key records were rewritten in place (chain relinks by delete, value moves by put): an 8-bucket table, so every
        // bucket is a chain; key lengths around the class boundaries; after every step the four histograms and the free counts are
        // compared with the model, and live slots + free slots + header must add up to the length of each data file
        for order in 0..3usize {
            let _ = std::fs::remove_dir_all(&dir);
            let params = FileDbParams { buckets_size: HashBucketsParam::BucketsSize(8), ..Default::default() };
            let db = abyssiniandb::open_file(&dir).unwrap();
            let mut m = db.db_map_string_with_params("r", params).unwrap();
            let mut model: std::collections::BTreeMap<String, usize> = Default::default();
            let keys: Vec<String> = (0..36usize).map(|i| { let l = [11usize, 19, 27, 12, 3, 20, 10, 28, 43][i % 9]; format!("{:0>w$}", i, w = l) }).collect();
            let check = |m: &mut abyssiniandb::filedb::FileDbMap<abyssiniandb::DbString>, model: &std::collections::BTreeMap<String, usize>, what: &str| -> Result<(), String> {
                let mut wk: std::collections::BTreeMap<u64, u64> = Default::default(); let mut wv: std::collections::BTreeMap<u64, u64> = Default::default();
                for (k, v) in model.iter() { *wk.entry(k.len() as u64).or_default() += 1; if *v > 0 { *wv.entry(*v as u64).or_default() += 1; } }
                let gk = parse_pairs(&m.key_length_stats().unwrap().to_string()); let gv = parse_pairs(&m.value_length_stats().unwrap().to_string());
                if gk != wk.into_iter().collect::<Vec<_>>() { return Err(format!("order {order}, {what}: key_length_stats {gk:?}")); }
                if gv != wv.into_iter().collect::<Vec<_>>() { return Err(format!("order {order}, {what}: value_length_stats {gv:?}")); }
                let ks = parse_pairs(&m.key_piece_size_stats().unwrap().to_string()); let vs = parse_pairs(&m.value_piece_size_stats().unwrap().to_string());
                if ks.iter().map(|x| x.1).sum::<u64>() != model.len() as u64 { return Err(format!("order {order}, {what}: key_piece_size_stats counts {ks:?} for {} live keys", model.len())); }
                let nv = model.values().filter(|v| **v > 0).count() as u64;
                if vs.iter().map(|x| x.1).sum::<u64>() != nv { return Err(format!("order {order}, {what}: value_piece_size_stats counts {vs:?} for {nv} live non-empty values")); }
                let fk = m.count_of_free_key_piece().unwrap(); let fv = m.count_of_free_value_piece().unwrap();
                m.flush().unwrap();
                // no slot of 1024 bytes or more in this history, so a free slot is exactly as large as its class (the history stores no empty value: its slot is not counted by the histograms)
                let n_empty_v = model.values().filter(|v| **v == 0).count() as u64;
                let klen = std::fs::metadata(dir.join("r.key")).unwrap().len(); let vlen = std::fs::metadata(dir.join("r.val")).unwrap().len();
                let ksum = 192 + ks.iter().map(|x| x.0 * x.1).sum::<u64>() + fk.iter().map(|x| x.0 as u64 * x.1).sum::<u64>();
                let vsum = 192 + vs.iter().map(|x| x.0 * x.1).sum::<u64>() + fv.iter().map(|x| x.0 as u64 * x.1).sum::<u64>() + 16 * n_empty_v;
                if ksum != klen { return Err(format!("order {order}, {what}: key file is {klen} bytes, header + live slots {ks:?} + free slots {:?} = {ksum}", fk.iter().filter(|x| x.1 > 0).collect::<Vec<_>>())); }
                if vsum != vlen { return Err(format!("order {order}, {what}: value file is {vlen} bytes, header + live slots {vs:?} + free slots {:?} + {n_empty_v} empty values = {vsum}", fv.iter().filter(|x| x.1 > 0).collect::<Vec<_>>())); }
                Ok(())
            };
            for (i, k) in keys.iter().enumerate() { let vl = 1 + (i * 37) % 300; m.put(k, &vec![i as u8; vl]).unwrap(); model.insert(k.clone(), vl); }
            check(&mut m, &model, "after 36 puts")?;
            // deletes: oldest first (chain tails: the predecessor's link shrinks), newest first (heads), or every third
            let del: Vec<usize> = match order { 0 => (0..24).collect(), 1 => (12..36).rev().collect(), _ => (0..36).filter(|i| i % 3 != 1).collect() };
            for (n, i) in del.iter().enumerate() {
                m.delete(&keys[*i]).unwrap(); model.remove(&keys[*i]);
                if n % 4 == 3 || n + 1 == del.len() { check(&mut m, &model, &format!("after {} deletes", n + 1))?; }
            }
            // overwrites that move the value (growing, then shrinking into recycled slots) rewrite the key record in place
            let live: Vec<String> = model.keys().cloned().collect();
            for (n, k) in live.iter().enumerate() { let vl = 320 + n * 29; m.put(k, &vec![1u8; vl]).unwrap(); model.insert(k.clone(), vl); }
            check(&mut m, &model, "after growing overwrites")?;
            for (n, k) in live.iter().enumerate() { let vl = 1 + (n * 7) % 60; m.put(k, &vec![2u8; vl]).unwrap(); model.insert(k.clone(), vl); }
            check(&mut m, &model, "after shrinking overwrites")?;
            for (i, k) in keys.iter().enumerate().take(20) { let vl = 5 + i * 11; m.put(k, &vec![3u8; vl]).unwrap(); model.insert(k.clone(), vl); }
            check(&mut m, &model, "after re-inserting into recycled slots")?;
        }
        Ok(())
    }));
    let _ = std::fs::remove_dir_all(&dir);
    match res { Ok(Ok(())) => { println!("OK"); 0 } Ok(Err(e)) => { println!("MISMATCH: {e}"); 1 } Err(_) => { println!("MISMATCH: panicked"); 1 } }
}

/// the same call history on tables of many sizes (given directly and as a capacity) and buffer settings: every observation (results of
/// put / delete / get / includes_key, len, the set of entries each iterator flavour yields) must be the same for every setting
fn tablesizes() -> i32 {
    use std::collections::BTreeMap;
    let dir = tmpdir("tablesizes");
    let res = std::panic::catch_unwind(std::panic::AssertUnwindSafe(|| -> Result<(), String> {
        let mut settings: Vec<(String, FileDbParams)> = Vec::new();
        for nb in [1u64, 8, 16, 24, 32, 64, 128, 1024, 4096] { settings.push((format!("BucketsSize({nb})"), FileDbParams { buckets_size: HashBucketsParam::BucketsSize(nb), ..Default::default() })); }
        for cap in [1u64, 9, 20, 100, 3000] { settings.push((format!("Capacity({cap})"), FileDbParams { buckets_size: HashBucketsParam::Capacity(cap), ..Default::default() })); }
        settings.push(("BucketsSize(64), 1000-byte buffers".into(), FileDbParams { buckets_size: HashBucketsParam::BucketsSize(64), key_buf_size: FileBufSizeParam::Size(1000), val_buf_size: FileBufSizeParam::Size(1000), htx_buf_size: FileBufSizeParam::Size(1000), ..Default::default() }));
        for seed in [3u64, 17, 40] {
            let mut reference: Option<(String, Vec<String>)> = None;
            for (name, params) in &settings {
                let _ = std::fs::remove_dir_all(&dir);
                let db = abyssiniandb::open_file(&dir).unwrap();
                let mut m = db.db_map_u64_with_params("m", params.clone()).unwrap();
                let mut rng = Rng(seed.wrapping_mul(0x9E3779B97F4A7C15) | 1);
                let mut model: BTreeMap<u64, Vec<u8>> = BTreeMap::new();
                let mut log: Vec<String> = Vec::new();
                let nkeys = 12 + seed;     // few keys: buckets become empty again and again
                for step in 0..400u64 {
                    let k = rng.below(nkeys) * 0x0101_0101_0101 + 5; let op = rng.below(10);
                    if op < 5 { let v = vec![step as u8; 1 + rng.below(40) as usize]; m.put(&k, &v).unwrap(); model.insert(k, v); log.push(format!("put {k}")); }
                    else if op < 9 { let r = m.delete(&k).unwrap(); if r != model.remove(&k) { return Err(format!("{name}, seed {seed}, step {step}: delete({k}) differs from the model")); } log.push(format!("delete {k} -> {r:?}")); }
                    else { let r = m.get(&k).unwrap(); if r.as_ref() != model.get(&k) { return Err(format!("{name}, seed {seed}, step {step}: get({k}) differs from the model")); } log.push(format!("get {k} -> {r:?}")); }
                    let l = m.len().unwrap(); if l != model.len() as u64 { return Err(format!("{name}, seed {seed}, step {step}: len {l}, model {}", model.len())); }
                    let want: Vec<(u64, Vec<u8>)> = model.iter().map(|(k, v)| (*k, v.clone())).collect();
                    let mut a: Vec<(u64, Vec<u8>)> = m.iter().map(|(k, v)| (k.into(), v)).collect(); a.sort();
                    if a != want { return Err(format!("{name}, seed {seed}, step {step} ({}): iter() yields {} entries {:?}, the map holds {:?}", log.last().unwrap(), a.len(), a.iter().map(|x| x.0).collect::<Vec<_>>(), want.iter().map(|x| x.0).collect::<Vec<_>>())); }
                    if step % 7 == 0 {
                        let mut ks: Vec<u64> = m.keys().map(|k| k.into()).collect(); ks.sort();
                        if ks != want.iter().map(|x| x.0).collect::<Vec<_>>() { return Err(format!("{name}, seed {seed}, step {step}: keys() differs from the map")); }
                        let mut vs: Vec<Vec<u8>> = m.values().collect(); vs.sort(); let mut wv: Vec<Vec<u8>> = want.iter().map(|x| x.1.clone()).collect(); wv.sort();
                        if vs != wv { return Err(format!("{name}, seed {seed}, step {step}: values() differs from the map")); }
                        for (k, _) in &want { if !m.includes_key(k).unwrap() { return Err(format!("{name}, seed {seed}, step {step}: includes_key({k}) is false")); } }
                    }
                    log.push(format!("len {l}"));
                }
                match &reference { None => reference = Some((name.clone(), log)), Some((n0, l0)) => if *l0 != log { return Err(format!("seed {seed}: the history observed with {name} differs from the one observed with {n0}")); } }
            }
        }
        Ok(())
    }));
    let _ = std::fs::remove_dir_all(&dir);
    match res { Ok(Ok(())) => { println!("OK"); 0 } Ok(Err(e)) => { println!("MISMATCH: {e}"); 1 } Err(_) => { println!("MISMATCH: panicked"); 1 } }
}

/// bulk calls against their element-wise counterparts on the real file-backed map: every permutation of 4 and 5 keys (one absent)
fn bulk() -> i32 {
    fn perms(n: usize) -> Vec<Vec<usize>> {
        if n == 0 { return vec![vec![]]; }
        let mut out = Vec::new();
        for p in perms(n - 1) { for i in 0..=p.len() { let mut q = p.clone(); q.insert(i, n - 1); out.push(q); } }
        out
    }
    use abyssiniandb::DbMapKeyType;
    let dir = tmpdir("bulk");
    let res = std::panic::catch_unwind(std::panic::AssertUnwindSafe(|| -> Result<(), String> {
        let params = FileDbParams { buckets_size: HashBucketsParam::BucketsSize(8), ..Default::default() };
        let names = ["k", "k1", "k12", "absent", "k123"];     // keys that are prefixes of each other, one of them absent
        let fill = |m: &mut abyssiniandb::filedb::FileDbMapDbString| { for (i, k) in names.iter().enumerate() { if *k != "absent" { m.put_string(*k, &format!("value-{i}")).unwrap(); } } };
        for n in [3usize, 4, 5] {
            for p in perms(n) {
                let _ = std::fs::remove_dir_all(&dir);
                let db = abyssiniandb::open_file(&dir).unwrap();
                let mut m = db.db_map_string_with_params("m", params.clone()).unwrap();
                let mut m2 = db.db_map_string_with_params("m2", params.clone()).unwrap();
                fill(&mut m); fill(&mut m2);
                let keys: Vec<&str> = p.iter().map(|&i| names[i]).collect();
                let r = m.bulk_get(&keys).unwrap();
                for (i, k) in keys.iter().enumerate() { if r[i] != m2.get(*k).unwrap() { return Err(format!("bulk_get({keys:?})[{i}] differs from get({k})")); } }
                let rs = m.bulk_get_string(&keys).unwrap();
                for (i, k) in keys.iter().enumerate() { if rs[i] != m2.get_string(*k).unwrap() { return Err(format!("bulk_get_string({keys:?})[{i}] differs from get_string({k})")); } }
                if n == 3 {
                    // values stored through the byte API that are empty, contain NUL, or are not valid UTF-8
                    let odd: [(&str, &[u8]); 4] = [("o-empty", b""), ("o-nul", b"a\0b"), ("o-latin1", b"caf\xe9"), ("o-ff", b"\xff\xfe")];
                    for (k, v) in odd { m.put(k, v).unwrap(); m2.put(k, v).unwrap(); }
                    let ok: Vec<&str> = vec!["o-ff", "absent", "o-empty", "o-latin1", "o-nul"];
                    let rs = m.bulk_get_string(&ok).unwrap();
                    for (i, k) in ok.iter().enumerate() { if rs[i] != m2.get_string(*k).unwrap() { return Err(format!("bulk_get_string({ok:?})[{i}] = {:?} differs from get_string({k}) = {:?}", rs[i], m2.get_string(*k).unwrap())); } }
                    let rb = m.bulk_get(&ok).unwrap();
                    for (i, k) in ok.iter().enumerate() { if rb[i] != m2.get(*k).unwrap() { return Err(format!("bulk_get({ok:?})[{i}] differs from get({k})")); } }
                    let rd = m.bulk_delete_string(&ok).unwrap();
                    for (i, k) in ok.iter().enumerate() { let e = m2.delete_string(*k).unwrap(); if rd[i] != e { return Err(format!("bulk_delete_string({ok:?})[{i}] = {:?} differs from delete_string({k}) = {:?}", rd[i], e)); } }
                }
                // bulk_put of new values in this order, then compare maps
                let vals: Vec<String> = keys.iter().enumerate().map(|(i, k)| format!("new-{k}-{i}")).collect();
                let pairs: Vec<(&str, &[u8])> = keys.iter().zip(vals.iter()).map(|(k, v)| (*k, v.as_bytes())).collect();
                m.bulk_put(&pairs).unwrap();
                for (k, v) in &pairs { m2.put(*k, v).unwrap(); }
                let a: std::collections::BTreeMap<Vec<u8>, Vec<u8>> = m.iter().map(|(k, v)| (k.as_bytes().to_vec(), v)).collect(); let b: std::collections::BTreeMap<Vec<u8>, Vec<u8>> = m2.iter().map(|(k, v)| (k.as_bytes().to_vec(), v)).collect();
                if a != b { return Err(format!("bulk_put({keys:?}) leaves a different map than the individual puts")); }
                let r = m.bulk_delete(&keys).unwrap();
                for (i, k) in keys.iter().enumerate() { let e = m2.delete(*k).unwrap(); if r[i] != e { return Err(format!("bulk_delete({keys:?})[{i}] differs from delete({k})")); } }
                let a: std::collections::BTreeMap<Vec<u8>, Vec<u8>> = m.iter().map(|(k, v)| (k.as_bytes().to_vec(), v)).collect(); let b: std::collections::BTreeMap<Vec<u8>, Vec<u8>> = m2.iter().map(|(k, v)| (k.as_bytes().to_vec(), v)).collect();
                if a != b || m.len().unwrap() != m2.len().unwrap() { return Err(format!("bulk_delete({keys:?}) leaves a different map than the individual deletes")); }
            }
        }
        // large values on recycled storage: both maps get the same prehistory (slots of several sizes freed in several orders), then one
        // takes a batch through bulk_put / bulk_delete (key order), the other the same pairs one by one (input order); the two maps must
        // hold the same entries afterwards, although they allocate and free their slots in a different sequence
        let sizes = [1400usize, 2500, 2000, 900, 40];
        for pre in 0..4usize {
            for p in perms(4) {
                let _ = std::fs::remove_dir_all(&dir);
                let db = abyssiniandb::open_file(&dir).unwrap();
                let mut m = db.db_map_string_with_params("m", params.clone()).unwrap();
                let mut m2 = db.db_map_string_with_params("m2", params.clone()).unwrap();
                for mm in [&mut m, &mut m2] {
                    let prel: &[(&str, usize)] = match pre { 0 => &[("x1", 3000), ("x2", 1500)], 1 => &[("x1", 1500), ("x2", 3000)], 2 => &[("x1", 3000), ("x2", 1100), ("x3", 2100)], _ => &[("x1", 1100), ("x2", 5000), ("x3", 1100), ("x4", 2600)] };
                    for (k, l) in prel { mm.put(*k, &vec![0x55u8; *l]).unwrap(); }
                    mm.put("keep", &vec![0x66u8; 1200]).unwrap();
                    for (k, _) in prel { mm.delete(*k).unwrap(); }
                }
                let names = ["ka", "kb", "kc", "kd"];
                let vals: Vec<Vec<u8>> = p.iter().enumerate().map(|(i, &j)| vec![0x30 + j as u8; sizes[(i + pre) % sizes.len()]]).collect();
                let pairs: Vec<(&str, &[u8])> = p.iter().zip(vals.iter()).map(|(&j, v)| (names[j], &v[..])).collect();
                m.bulk_put(&pairs).unwrap();
                for (k, v) in &pairs { m2.put(*k, v).unwrap(); }
                let a: std::collections::BTreeMap<Vec<u8>, Vec<u8>> = m.iter().map(|(k, v)| (k.as_bytes().to_vec(), v)).collect(); let b: std::collections::BTreeMap<Vec<u8>, Vec<u8>> = m2.iter().map(|(k, v)| (k.as_bytes().to_vec(), v)).collect();
                if a != b { return Err(format!("prehistory {pre}: bulk_put of large values in order {p:?} leaves a different map than the individual puts")); }
                for (k, v) in &pairs { if m.get(*k).unwrap().as_deref() != Some(*v) { return Err(format!("prehistory {pre}: after bulk_put in order {p:?}, get({k}) is not the value that was put")); } }
                if m.get("keep").unwrap() != Some(vec![0x66u8; 1200]) { return Err(format!("prehistory {pre}: bulk_put in order {p:?} changed an entry that is not in the batch")); }
                // second batch: overwrite with other sizes (values move), then delete three of the four in this order
                let vals2: Vec<Vec<u8>> = p.iter().enumerate().map(|(i, &j)| vec![0x40 + j as u8; sizes[(i + pre + 2) % sizes.len()] + 700]).collect();
                let pairs2: Vec<(&str, &[u8])> = p.iter().zip(vals2.iter()).map(|(&j, v)| (names[j], &v[..])).collect();
                m.bulk_put(&pairs2).unwrap();
                for (k, v) in &pairs2 { m2.put(*k, v).unwrap(); }
                let dk: Vec<&str> = p.iter().take(3).map(|&j| names[j]).collect();
                let r = m.bulk_delete(&dk).unwrap();
                for (i, k) in dk.iter().enumerate() { let e = m2.delete(*k).unwrap(); if r[i] != e { return Err(format!("prehistory {pre}: bulk_delete({dk:?})[{i}] differs from delete({k})")); } }
                let a: std::collections::BTreeMap<Vec<u8>, Vec<u8>> = m.iter().map(|(k, v)| (k.as_bytes().to_vec(), v)).collect(); let b: std::collections::BTreeMap<Vec<u8>, Vec<u8>> = m2.iter().map(|(k, v)| (k.as_bytes().to_vec(), v)).collect();
                if a != b || m.len().unwrap() != m2.len().unwrap() || m.len().unwrap() != 2 { return Err(format!("prehistory {pre}: second batch in order {p:?} leaves a different map than the individual calls")); }
            }
        }
        Ok(())
    }));
    let _ = std::fs::remove_dir_all(&dir);
    match res { Ok(Ok(())) => { println!("OK"); 0 } Ok(Err(e)) => { println!("MISMATCH: {e}"); 1 } Err(_) => { println!("MISMATCH: panicked"); 1 } }
}

/// database-level sync_all / sync_data over maps of every key type: a copy of the directory taken right after must open to the same contents
fn dbsync() -> i32 {
    use abyssiniandb::DbMapKeyType;
    let dir = tmpdir("dbsync"); let snap = tmpdir("dbsyncsnap");
    let params = FileDbParams { buckets_size: HashBucketsParam::BucketsSize(16), ..Default::default() };
    let res = std::panic::catch_unwind(std::panic::AssertUnwindSafe(|| -> Result<(), String> {
        let db = abyssiniandb::open_file(&dir).unwrap();
        let mut ms = [db.db_map_string_with_params("s1", params.clone()).unwrap(), db.db_map_string_with_params("s2", params.clone()).unwrap()];
        let mut mb = [db.db_map_bytes_with_params("b1", params.clone()).unwrap(), db.db_map_bytes_with_params("b2", params.clone()).unwrap()];
        let mut mi = [db.db_map_i64_with_params("i1", params.clone()).unwrap(), db.db_map_i64_with_params("i2", params.clone()).unwrap()];
        let mut mu = [db.db_map_u64_with_params("u1", params.clone()).unwrap(), db.db_map_u64_with_params("u2", params.clone()).unwrap()];
        let mut mv = [db.db_map_vu64_with_params("v1", params.clone()).unwrap(), db.db_map_vu64_with_params("v2", params.clone()).unwrap()];
        for round in 0..4u64 {
            for j in 0..2usize {
                for i in 0..6u64 {
                    let v = vec![(round * 16 + i) as u8; (3 + i * 9 + round * 40) as usize];
                    ms[j].put(&format!("k{i}"), &v).unwrap(); mb[j].put(&format!("k{i}").as_bytes().to_vec()[..], &v).unwrap();
                    mi[j].put(&(i as i64 - 3), &v).unwrap(); mu[j].put(&(i << 50), &v).unwrap(); mv[j].put(&(i << 50), &v).unwrap();
                }
                if round > 0 { ms[j].delete("k1").unwrap(); mb[j].delete(&b"k1"[..]).unwrap(); mi[j].delete(&-2i64).unwrap(); mu[j].delete(&(1u64 << 50)).unwrap(); mv[j].delete(&(1u64 << 50)).unwrap(); }
            }
            // handles requested again for the same names (both lookup variants) must be the same maps: syncing through them, or through
            // the database, makes the updates made through the first handles durable
            if round >= 1 {
                for j in 0..2usize {
                    let n = ["1", "2"][j];
                    let mut hs = db.db_map_string_with_params(&format!("s{n}"), params.clone()).unwrap();
                    let mut hb = db.db_map_bytes(&format!("b{n}")).unwrap();
                    let mut hi = db.db_map_i64_with_params(&format!("i{n}"), params.clone()).unwrap();
                    let mut hu = db.db_map_u64(&format!("u{n}")).unwrap();
                    let mut hv = db.db_map_vu64_with_params(&format!("v{n}"), params.clone()).unwrap();
                    let tag = vec![0xA0 + round as u8; 17];
                    ms[j].put(&format!("late{round}"), &tag).unwrap(); mb[j].put(&format!("late{round}").as_bytes().to_vec()[..], &tag).unwrap();
                    mi[j].put(&(1000 + round as i64), &tag).unwrap(); mu[j].put(&(1000 + round), &tag).unwrap(); mv[j].put(&(1000 + round), &tag).unwrap();
                    if hs.len().unwrap() != ms[j].len().unwrap() || hb.len().unwrap() != mb[j].len().unwrap() || hi.len().unwrap() != mi[j].len().unwrap()
                        || hu.len().unwrap() != mu[j].len().unwrap() || hv.len().unwrap() != mv[j].len().unwrap() { return Err(format!("round {round}: a handle requested again for the same name does not see the first handle's updates")); }
                    if round == 1 { hs.flush().unwrap(); hb.flush().unwrap(); hi.sync_data().unwrap(); hu.sync_all().unwrap(); hv.flush().unwrap(); }
                }
            }
            if round == 1 { /* synced through the second handles above */ } else if round % 2 == 0 { db.sync_all().unwrap(); } else { db.sync_data().unwrap(); }
            copy_dir(&dir, &snap);
            let db2 = abyssiniandb::open_file(&snap).unwrap();
            for j in 0..2usize {
                let n = ["1", "2"][j];
                let mut s2 = db2.db_map_string_with_params(&format!("s{n}"), params.clone()).unwrap();
                let mut b2 = db2.db_map_bytes_with_params(&format!("b{n}"), params.clone()).unwrap();
                let mut i2 = db2.db_map_i64_with_params(&format!("i{n}"), params.clone()).unwrap();
                let mut u2 = db2.db_map_u64_with_params(&format!("u{n}"), params.clone()).unwrap();
                let mut v2 = db2.db_map_vu64_with_params(&format!("v{n}"), params.clone()).unwrap();
                let a: Vec<(Vec<u8>, Vec<u8>)> = ms[j].iter().map(|(k, v)| (k.as_bytes().to_vec(), v)).collect(); let b: Vec<(Vec<u8>, Vec<u8>)> = s2.iter().map(|(k, v)| (k.as_bytes().to_vec(), v)).collect();
                if a != b || s2.len().unwrap() != ms[j].len().unwrap() { return Err(format!("round {round}: snapshot of string map s{n} differs after database-level sync")); }
                let a: Vec<(Vec<u8>, Vec<u8>)> = mb[j].iter().map(|(k, v)| (k.as_bytes().to_vec(), v)).collect(); let b: Vec<(Vec<u8>, Vec<u8>)> = b2.iter().map(|(k, v)| (k.as_bytes().to_vec(), v)).collect();
                if a != b { return Err(format!("round {round}: snapshot of bytes map b{n} differs after database-level sync")); }
                let a: Vec<(Vec<u8>, Vec<u8>)> = mi[j].iter().map(|(k, v)| (k.as_bytes().to_vec(), v)).collect(); let b: Vec<(Vec<u8>, Vec<u8>)> = i2.iter().map(|(k, v)| (k.as_bytes().to_vec(), v)).collect();
                if a != b { return Err(format!("round {round}: snapshot of i64 map i{n} differs after database-level sync")); }
                let a: Vec<(Vec<u8>, Vec<u8>)> = mu[j].iter().map(|(k, v)| (k.as_bytes().to_vec(), v)).collect(); let b: Vec<(Vec<u8>, Vec<u8>)> = u2.iter().map(|(k, v)| (k.as_bytes().to_vec(), v)).collect();
                if a != b { return Err(format!("round {round}: snapshot of u64 map u{n} differs after database-level sync")); }
                let a: Vec<(Vec<u8>, Vec<u8>)> = mv[j].iter().map(|(k, v)| (k.as_bytes().to_vec(), v)).collect(); let b: Vec<(Vec<u8>, Vec<u8>)> = v2.iter().map(|(k, v)| (k.as_bytes().to_vec(), v)).collect();
                if a != b { return Err(format!("round {round}: snapshot of vu64 map v{n} differs after database-level sync")); }
            }
        }
        Ok(())
    }));
    let _ = std::fs::remove_dir_all(&dir); let _ = std::fs::remove_dir_all(&snap);
    match res { Ok(Ok(())) => { println!("OK"); 0 } Ok(Err(e)) => { println!("MISMATCH: {e}"); 1 } Err(_) => { println!("MISMATCH: panicked"); 1 } }
}

/// key identity on tiny tables (every key collides with others): byte-string keys over an alphabet with NUL / ASCII / invalid UTF-8 bytes
/// (string and bytes maps), and integer keys around the encoding boundaries (u64, i64, vu64 maps). Two keys are the same entry exactly
/// when they are equal; keys come back from iteration as they were put.
fn keys() -> i32 {
    use std::collections::BTreeMap;
    use abyssiniandb::{DbBytes, DbString, DbMapKeyType};
    let dir = tmpdir("keys");
    let res = std::panic::catch_unwind(std::panic::AssertUnwindSafe(|| -> Result<(), String> {
        let params = FileDbParams { buckets_size: HashBucketsParam::BucketsSize(8), ..Default::default() };
        // key files of several buffer chunks (128 KiB each) with slots of mixed sizes, so that keys lie across chunk boundaries: the keys
        // that iteration returns are the keys that were put (strings of 10..46 bytes; vu64 keys of 1..9 encoded bytes)
        {
            let big = FileDbParams { buckets_size: HashBucketsParam::BucketsSize(1024), ..Default::default() };
            let db = abyssiniandb::open_file(&dir).unwrap();
            let mut ms = db.db_map_string_with_params("big-s", big.clone()).unwrap();
            let mut want: std::collections::BTreeSet<Vec<u8>> = Default::default();
            for i in 0..9000usize { let k = format!("key-{i:05}-{}", "x".repeat(i * 7 % 37)); ms.put(&k, &[1]).unwrap(); want.insert(k.into_bytes()); }
            let got: std::collections::BTreeSet<Vec<u8>> = ms.iter().map(|(k, _)| k.as_bytes().to_vec()).collect();
            if got != want { let bad: Vec<String> = got.difference(&want).take(2).map(|k| String::from_utf8_lossy(k).into_owned()).collect(); return Err(format!("string map with a {}-byte key file: iteration returned keys that were never put, e.g. {bad:?}", std::fs::metadata(dir.join("big-s.key")).map(|m| m.len()).unwrap_or(0))); }
            let got: std::collections::BTreeSet<Vec<u8>> = ms.keys().map(|k| k.as_bytes().to_vec()).collect();
            if got != want { return Err("string map with a large key file: keys() differs from what was put".into()); }
            let mut mv = db.db_map_vu64_with_params("big-v", big.clone()).unwrap();
            let mut wantv: std::collections::BTreeSet<u64> = Default::default();
            for i in 0..20000u64 { let k = match i % 5 { 0 => i, 1 => i << 20, 2 => (1u64 << 56) + i * 977, 3 => u64::MAX - i, _ => i << 40 }; mv.put(&k, &[2]).unwrap(); wantv.insert(k); }
            let gotv: std::collections::BTreeSet<u64> = mv.iter().map(|(k, _)| k.into()).collect();
            if gotv != wantv { let bad: Vec<u64> = gotv.difference(&wantv).take(2).cloned().collect(); return Err(format!("vu64 map with a large key file: iteration returned keys that were never put, e.g. {bad:?}")); }
            let mut mb = db.db_map_bytes_with_params("big-b", big.clone()).unwrap();
            let mut wantb: std::collections::BTreeSet<Vec<u8>> = Default::default();
            for i in 0..6000usize { let mut k = vec![0xffu8; 3 + i * 11 % 60]; k[0] = (i >> 8) as u8; k[1] = i as u8; mb.put(&k[..], &[3]).unwrap(); wantb.insert(k); }
            let gotb: std::collections::BTreeSet<Vec<u8>> = mb.iter().map(|(k, _)| k.as_bytes().to_vec()).collect();
            if gotb != wantb { return Err("bytes map with a large key file: iteration returned keys that were never put".into()); }
        }
        // keys with the same full 64-bit hash value are different entries (bytes and string maps), whatever calls come in between
        {
            let ck = colliding_keys(8);
            if ck.len() >= 4 {
                let db = abyssiniandb::open_file(&dir).unwrap();
                let mut mb = db.db_map_bytes_with_params("coll-b", params.clone()).unwrap();
                let mut model: BTreeMap<Vec<u8>, Vec<u8>> = BTreeMap::new();
                for round in 0..3usize {
                    for (i, k) in ck.iter().enumerate().skip(1) {
                        let miss = &ck[(i + 1) % ck.len()];
                        if mb.includes_key(&miss[..]).unwrap() != model.contains_key(miss) { return Err(format!("colliding keys: includes_key differs from the model in round {round}")); }
                        if mb.get(&ck[0][..]).unwrap().is_some() { return Err("colliding keys: a key that was never put is found".into()); }
                        let v = vec![(round * 16 + i) as u8; 1 + round * 30 + i];
                        mb.put(&k[..], &v).unwrap(); model.insert(k.clone(), v);
                        if mb.len().unwrap() != model.len() as u64 { return Err(format!("colliding keys: len {} after put #{i} of round {round}, {} distinct keys were put", mb.len().unwrap(), model.len())); }
                        if round == 1 && i % 3 == 0 { let r = mb.delete(&k[..]).unwrap(); if r != model.remove(k) { return Err("colliding keys: delete differs from the model".into()); } }
                    }
                    for (k, v) in &model { if mb.get(&k[..]).unwrap().as_ref() != Some(v) { return Err(format!("colliding keys: get differs from the model in round {round}")); } }
                    let it: BTreeMap<Vec<u8>, Vec<u8>> = mb.iter().map(|(k, v)| (k.as_bytes().to_vec(), v)).collect();
                    if it != model { return Err(format!("colliding keys: iteration differs from the model in round {round}")); }
                }
            }
            let _ = std::fs::remove_dir_all(&dir);
        }
        let _ = std::fs::remove_dir_all(&dir);
        let alpha = [0x00u8, 0x61, 0x62, 0x80, 0xc3, 0xff];
        let mut ks: Vec<Vec<u8>> = vec![vec![]];
        for a in alpha { ks.push(vec![a]); for b in alpha { ks.push(vec![a, b]); } }
        for a in [0x61u8, 0x80, 0xff] { for n in [3usize, 7, 8, 9, 15, 16, 17, 40, 880, 900, 1024, 2000, 5000] { ks.push(vec![a; n]); let mut v = vec![a; n]; v[n - 1] = 0x62; ks.push(v); } }
        let db = abyssiniandb::open_file(&dir).unwrap();
        {
            let mut m = db.db_map_string_with_params("s", params.clone()).unwrap();
            let mut model: BTreeMap<Vec<u8>, Vec<u8>> = BTreeMap::new();
            for (i, k) in ks.iter().enumerate() {
                let kk = DbString::from(&k[..]);
                if m.includes_key(&kk).unwrap() { return Err(format!("string map: key {k:?} reported present before it was put")); }
                m.put(&kk, &[i as u8, 1]).unwrap(); model.insert(k.clone(), vec![i as u8, 1]);
                if m.len().unwrap() != model.len() as u64 { return Err(format!("string map: len {} after putting {} distinct keys (last {k:?})", m.len().unwrap(), model.len())); }
            }
            for (k, v) in &model { if m.get(&DbString::from(&k[..])).unwrap().as_ref() != Some(v) { return Err(format!("string map: get({k:?}) differs")); } }
            let it: BTreeMap<Vec<u8>, Vec<u8>> = m.iter().map(|(k, v)| (k.as_bytes().to_vec(), v)).collect();
            if it != model { return Err("string map: iteration differs from what was put".into()); }
            for (j, k) in ks.iter().enumerate() { if j % 3 == 0 { let r = m.delete(&DbString::from(&k[..])).unwrap(); if r != model.remove(k) { return Err(format!("string map: delete({k:?}) differs")); } } }
            for (k, v) in &model { if m.get(&DbString::from(&k[..])).unwrap().as_ref() != Some(v) { return Err(format!("string map: get({k:?}) differs after deletes")); } }
            if m.len().unwrap() != model.len() as u64 { return Err("string map: len differs after deletes".into()); }
        }
        {
            let mut m = db.db_map_bytes_with_params("b", params.clone()).unwrap();
            let mut model: BTreeMap<Vec<u8>, Vec<u8>> = BTreeMap::new();
            for (i, k) in ks.iter().enumerate() {
                let kk = DbBytes::from(&k[..]);
                if m.includes_key(&kk).unwrap() { return Err(format!("bytes map: key {k:?} reported present before it was put")); }
                m.put(&kk, &[i as u8, 2]).unwrap(); model.insert(k.clone(), vec![i as u8, 2]);
            }
            if m.len().unwrap() != model.len() as u64 { return Err("bytes map: len differs".into()); }
            for (k, v) in &model { if m.get(&DbBytes::from(&k[..])).unwrap().as_ref() != Some(v) { return Err(format!("bytes map: get({k:?}) differs")); } }
            let it: BTreeMap<Vec<u8>, Vec<u8>> = m.iter().map(|(k, v)| (k.as_bytes().to_vec(), v)).collect();
            if it != model { return Err("bytes map: iteration differs from what was put".into()); }
        }
        let mut ints: Vec<u64> = vec![0, 1, 2, 127, 128, 255, 256, u64::MAX, u64::MAX - 1, 1 << 63, (1 << 63) - 1];
        for sh in [7u32, 8, 14, 16, 21, 28, 32, 35, 42, 49, 56, 57] { ints.push(1 << sh); ints.push((1 << sh) - 1); ints.push((1 << sh) + 1); }
        ints.sort(); ints.dedup();
        {
            let mut mu = db.db_map_u64_with_params("u", params.clone()).unwrap();
            let mut mv = db.db_map_vu64_with_params("v", params.clone()).unwrap();
            let mut mi = db.db_map_i64_with_params("i", params.clone()).unwrap();
            for (j, x) in ints.iter().enumerate() {
                if mu.includes_key(x).unwrap() || mv.includes_key(x).unwrap() || mi.includes_key(&(*x as i64)).unwrap() { return Err(format!("integer maps: {x:#x} reported present before it was put")); }
                mu.put(x, &[j as u8]).unwrap(); mv.put(x, &[j as u8]).unwrap(); mi.put(&(*x as i64), &[j as u8]).unwrap();
            }
            for (j, x) in ints.iter().enumerate() {
                if mu.get(x).unwrap() != Some(vec![j as u8]) { return Err(format!("u64 map: get({x:#x}) differs")); }
                if mv.get(x).unwrap() != Some(vec![j as u8]) { return Err(format!("vu64 map: get({x:#x}) differs")); }
                if mi.get(&(*x as i64)).unwrap() != Some(vec![j as u8]) { return Err(format!("i64 map: get({}) differs", *x as i64)); }
            }
            if mu.len().unwrap() != ints.len() as u64 || mv.len().unwrap() != ints.len() as u64 || mi.len().unwrap() != ints.len() as u64 { return Err("integer maps: len differs".into()); }
            let mut back: Vec<u64> = mu.iter().map(|(k, _)| u64::from(k)).collect(); back.sort();
            if back != ints { return Err("u64 map: iterated keys do not convert back to the integers put".into()); }
            let mut back: Vec<u64> = mv.iter().map(|(k, _)| u64::from(k)).collect(); back.sort();
            if back != ints { return Err("vu64 map: iterated keys do not convert back to the integers put".into()); }
            let mut back: Vec<u64> = mi.iter().map(|(k, _)| i64::from(k) as u64).collect(); back.sort();
            if back != ints { return Err("i64 map: iterated keys do not convert back to the integers put".into()); }
        }
        Ok(())
    }));
    let _ = std::fs::remove_dir_all(&dir);
    match res { Ok(Ok(())) => { println!("OK"); 0 } Ok(Err(e)) => { println!("MISMATCH: {e}"); 1 }
        Err(e) => { let msg = e.downcast_ref::<String>().cloned().unwrap_or_default();
            if msg.contains("key_offset != new_key_offset") || msg.contains("_prev_key_offset != new_prev_key_offset") { println!("OK (stopped at recorded finding K1)"); 0 } else { println!("MISMATCH: panicked: {msg}"); 1 } } }
}

/// maps whose names look alike (dots, common prefixes, upper/lower case, spaces): each keeps its own contents across close and reopen
fn names() -> i32 {
    let dir = tmpdir("names");
    let res = std::panic::catch_unwind(std::panic::AssertUnwindSafe(|| -> Result<(), String> {
        let params = FileDbParams { buckets_size: HashBucketsParam::BucketsSize(8), ..Default::default() };
        let names = ["events", "events.2023", "events.2024", "events.2023.bak", "a", "a.b", "a.key", "A", "x y", "users", "users.old", "m.htx"];
        for session in 0..3 {
            let db = abyssiniandb::open_file(&dir).unwrap();
            for (i, nm) in names.iter().enumerate() {
                let mut m = db.db_map_string_with_params(nm, params.clone()).unwrap();
                // what the previous sessions left in THIS map
                if m.len().unwrap() != 2 * session as u64 { return Err(format!("session {session}: map {nm:?} has {} entries, expected {}", m.len().unwrap(), 2 * session)); }
                for s0 in 0..session {
                    if m.get_string(&format!("own-{s0}")).unwrap() != Some(format!("{nm}/{s0}")) { return Err(format!("session {session}: map {nm:?} lost or changed its entry of session {s0}")); }
                    if m.get_string(&format!("k{i}-{s0}")).unwrap() != Some("x".to_string()) { return Err(format!("session {session}: map {nm:?} lost k{i}-{s0}")); }
                }
                m.put_string(&format!("own-{session}"), &format!("{nm}/{session}")).unwrap();
                m.put_string(&format!("k{i}-{session}"), "x").unwrap();
            }
        }
        // the same directory under other spellings of its path is the same database
        let abs = std::fs::canonicalize(&dir).unwrap();
        let parent = abs.parent().unwrap().to_path_buf(); let base = abs.file_name().unwrap().to_string_lossy().to_string();
        let pname = parent.file_name().map(|x| x.to_string_lossy().to_string());
        let old_cwd = std::env::current_dir().unwrap();
        std::env::set_current_dir(&parent).unwrap();
        let mut spellings: Vec<String> = vec![abs.to_string_lossy().to_string(), base.clone(), format!("./{base}"), format!("{base}/"), format!("{base}/../{base}"), format!("./././{base}")];
        if let Some(pn) = pname { spellings.push(format!("../{pn}/{base}")); spellings.push(format!("./../{pn}/./{base}")); }
        let mut err = None;
        for sp in &spellings {
            let db = abyssiniandb::open_file(sp).unwrap();
            let mut m = db.db_map_string_with_params("events.2023", params.clone()).unwrap();
            if m.len().unwrap() != 6 || m.get_string("own-2").unwrap() != Some("events.2023/2".to_string()) { err = Some(format!("database opened as {sp:?} is not the one written as {:?} (map has {} entries)", abs, m.len().unwrap())); break; }
        }
        std::env::set_current_dir(&old_cwd).unwrap();
        if let Some(e) = err { return Err(e); }
        Ok(())
    }));
    let _ = std::fs::remove_dir_all(&dir);
    match res { Ok(Ok(())) => { println!("OK"); 0 } Ok(Err(e)) => { println!("MISMATCH: {e}"); 1 } Err(_) => { println!("MISMATCH: panicked"); 1 } }
}

/// C06: freed space is reused — (a) a value that outgrows its slot frees it and the next fitting put reuses it (file length unchanged),
/// also with a statistics call in between; (b) put-all / delete-all cycles do not grow the files after the first cycle; the slots tile the files
fn grow() -> i32 {
    let dir = tmpdir("grow");
    let res = std::panic::catch_unwind(std::panic::AssertUnwindSafe(|| -> Result<(), String> {
        let params = FileDbParams { buckets_size: HashBucketsParam::BucketsSize(8), ..Default::default() };
        let flen = |d: &std::path::Path, e: &str| std::fs::metadata(d.join(format!("m.{e}"))).unwrap().len();
        for with_stats in [false, true] {
            let _ = std::fs::remove_dir_all(&dir);
            let db = abyssiniandb::open_file(&dir).unwrap();
            let mut m = db.db_map_string_with_params("m", params.clone()).unwrap();
            m.put("a", &[1u8; 10]).unwrap(); m.put("b", &[2u8; 10]).unwrap();
            m.put("a", &[3u8; 40]).unwrap();            // a outgrows its 16-byte slot: the slot is freed
            m.sync_all().unwrap(); let l0 = flen(&dir, "val");
            if with_stats { let _ = m.count_of_free_value_piece().unwrap(); }
            m.put("c", &[4u8; 10]).unwrap();            // fits the freed slot
            m.sync_all().unwrap(); let l1 = flen(&dir, "val");
            if l1 != l0 { return Err(format!("value file grew from {l0} to {l1} although a fitting free slot existed (statistics call in between: {with_stats})")); }
            for (k, v) in [("a", vec![3u8; 40]), ("b", vec![2u8; 10]), ("c", vec![4u8; 10])] { if m.get(k).unwrap() != Some(v) { return Err(format!("get({k}) differs")); } }
        }
        for klen in [5usize, 19, 27] {
            let _ = std::fs::remove_dir_all(&dir);
            let db = abyssiniandb::open_file(&dir).unwrap();
            let mut m = db.db_map_string_with_params("m", params.clone()).unwrap();
            let keys: Vec<String> = (0..40).map(|i| format!("{:0w$}", i, w = klen)).collect();
            let mut lens: Vec<(u64, u64)> = Vec::new();
            for cycle in 0..6 {
                for (i, k) in keys.iter().enumerate() { m.put(k, &vec![cycle as u8; 8 + (i % 5) * 30]).unwrap(); }
                for k in keys.iter() { if m.delete(k).unwrap().is_none() { return Err(format!("cycle {cycle}: delete({k}) found nothing")); } }
                m.sync_all().unwrap();
                lens.push((flen(&dir, "key"), flen(&dir, "val")));
            }
            if lens[5] != lens[0] { return Err(format!("key length {klen}: file lengths (key, val) per put-all/delete-all cycle {lens:?}: they grow although everything was freed")); }
            for ext in ["key", "val"] { let b = std::fs::read(dir.join(format!("m.{ext}"))).unwrap(); walk_slots(&b).map_err(|e| format!("m.{ext}: {e}"))?; }
            let fk: u64 = m.count_of_free_key_piece().unwrap().iter().map(|x| x.0 as u64 * x.1).sum();
            if 192 + fk > flen(&dir, "key") { return Err("free key slots exceed the file".into()); }
        }
        Ok(())
    }));
    let _ = std::fs::remove_dir_all(&dir);
    match res { Ok(Ok(())) => { println!("OK"); 0 } Ok(Err(e)) => { println!("MISMATCH: {e}"); 1 }
        Err(e) => { let msg = e.downcast_ref::<String>().cloned().unwrap_or_default();
            if msg.contains("key_offset != new_key_offset") || msg.contains("_prev_key_offset != new_prev_key_offset") { println!("OK (stopped at recorded finding K1)"); 0 } else { println!("MISMATCH: panicked: {msg}"); 1 } } }
}

/// the same model-checked mini history through the public front-end of EVERY key type (the FileDbMap wrapper, key conversions, all
/// iterator flavours, the *_string conveniences, is_empty, close and reopen): each map type must behave like an ideal map
fn pertype_one<KT>(tag: &str, session: usize, m: &mut abyssiniandb::filedb::FileDbMap<KT>, keys: &[KT], model: &mut std::collections::BTreeMap<Vec<u8>, Vec<u8>>) -> Result<(), String>
where KT: abyssiniandb::DbMapKeyType, for<'a> KT: From<&'a KT> {
    use std::collections::{BTreeMap, BTreeSet};
    use abyssiniandb::DbMap;
    let kb = |k: &KT| -> Vec<u8> { k.as_bytes().to_vec() };
    if m.len().unwrap() != model.len() as u64 { return Err(format!("{tag}: len after reopen {} != {}", m.len().unwrap(), model.len())); }
    if m.is_empty().unwrap() != model.is_empty() { return Err(format!("{tag}: is_empty after reopen")); }
    for (i, k) in keys.iter().enumerate() {
        let v = vec![(i as u8) ^ (session as u8 * 0x55); 1 + (i * 13) % 70];
        if m.includes_key(k).unwrap() != model.contains_key(&kb(k)) { return Err(format!("{tag}: includes_key differs for key #{i}")); }
        if i % 3 == 0 { let sv = String::from_utf8(vec![b'a' + (i % 26) as u8; 1 + i % 9]).unwrap(); m.put_string(k, &sv).unwrap(); model.insert(kb(k), sv.into_bytes()); }
        else { m.put(k, &v).unwrap(); model.insert(kb(k), v); }
        if m.len().unwrap() != model.len() as u64 { return Err(format!("{tag}: len {} after put #{i}, model {}", m.len().unwrap(), model.len())); }
    }
    for (i, k) in keys.iter().enumerate() {
        if m.get(k).unwrap().as_ref() != model.get(&kb(k)) { return Err(format!("{tag}: get differs for key #{i}")); }
        if m.get_string(k).unwrap() != model.get(&kb(k)).map(|v| String::from_utf8_lossy(v).to_string()) { return Err(format!("{tag}: get_string differs for key #{i}")); }
    }
    let it: BTreeMap<Vec<u8>, Vec<u8>> = m.iter().map(|(k, v)| (k.as_bytes().to_vec(), v)).collect();
    if it != *model { return Err(format!("{tag}: iter() differs from the model")); }
    if m.iter().count() != model.len() || m.iter().size_hint() != (model.len(), Some(model.len())) { return Err(format!("{tag}: iter() count / size_hint differ")); }
    let itm: BTreeMap<Vec<u8>, Vec<u8>> = m.iter_mut().map(|(k, v)| (k.as_bytes().to_vec(), v)).collect();
    if itm != *model { return Err(format!("{tag}: iter_mut() differs from the model")); }
    let ks: BTreeSet<Vec<u8>> = m.keys().map(|k| k.as_bytes().to_vec()).collect();
    if ks != model.keys().cloned().collect::<BTreeSet<_>>() || m.keys().count() != model.len() { return Err(format!("{tag}: keys() differs from the model")); }
    let mut vs: Vec<Vec<u8>> = m.values().collect(); vs.sort();
    let mut mv: Vec<Vec<u8>> = model.values().cloned().collect(); mv.sort();
    if vs != mv { return Err(format!("{tag}: values() differs from the model")); }
    let byref: BTreeMap<Vec<u8>, Vec<u8>> = (&*m).into_iter().map(|(k, v)| (k.as_bytes().to_vec(), v)).collect();
    if byref != *model { return Err(format!("{tag}: (&map).into_iter() differs from the model")); }
    let byrefm: BTreeMap<Vec<u8>, Vec<u8>> = (&mut *m).into_iter().map(|(k, v)| (k.as_bytes().to_vec(), v)).collect();
    if byrefm != *model { return Err(format!("{tag}: (&mut map).into_iter() differs from the model")); }
    for (i, k) in keys.iter().enumerate() {
        if i % 4 == 1 {
            let r = m.delete(k).unwrap(); let e = model.remove(&kb(k));
            if r != e { return Err(format!("{tag}: delete differs for key #{i}")); }
            if m.delete(k).unwrap().is_some() || m.includes_key(k).unwrap() { return Err(format!("{tag}: key #{i} still there after delete")); }
        } else if i % 4 == 2 {
            let r = m.delete_string(k).unwrap(); let e = model.remove(&kb(k)).map(|v| String::from_utf8_lossy(&v).to_string());
            if r != e { return Err(format!("{tag}: delete_string differs for key #{i}")); }
        }
    }
    if m.len().unwrap() != model.len() as u64 || m.is_empty().unwrap() != model.is_empty() { return Err(format!("{tag}: len / is_empty differ after deletes")); }
    let owned: BTreeMap<Vec<u8>, Vec<u8>> = m.clone().into_iter().map(|(k, v)| (k.as_bytes().to_vec(), v)).collect();
    if owned != *model { return Err(format!("{tag}: map.into_iter() differs from the model")); }
    if session == 1 {
        let left: Vec<KT> = keys.iter().filter(|k| model.contains_key(&kb(k))).cloned().collect();
        for (j, k) in left.iter().enumerate() {
            if m.is_empty().unwrap() { return Err(format!("{tag}: is_empty true with {} entries left", left.len() - j)); }
            m.delete(k).unwrap(); model.remove(&kb(k));
        }
        if !m.is_empty().unwrap() || m.len().unwrap() != 0 || m.iter().next().is_some() { return Err(format!("{tag}: map not empty after deleting everything")); }
    }
    Ok(())
}

fn pertype() -> i32 {
    use std::collections::BTreeMap;
    use abyssiniandb::{DbBytes, DbI64, DbString, DbU64, DbVu64};
    let dir = tmpdir("pertype");
    let res = std::panic::catch_unwind(std::panic::AssertUnwindSafe(|| -> Result<(), String> {
        let params = FileDbParams { buckets_size: HashBucketsParam::BucketsSize(8), ..Default::default() };
        let ints: Vec<u64> = (0..24u64).map(|i| if i % 2 == 0 { i } else { (i << 52) + i }).collect();
        let ks: Vec<DbString> = (0..24).map(|i| DbString::from(format!("{}{}", "key".repeat(1 + i % 3), i).as_str())).collect();
        let kbs: Vec<DbBytes> = (0..24u8).map(|i| DbBytes::from(&[i, 0, 0xff - i, i % 3][..(1 + (i as usize) % 4)])).collect();
        let ki: Vec<DbI64> = ints.iter().enumerate().map(|(j, x)| DbI64::from(if j % 3 == 0 { -(*x as i64) - 1 } else { *x as i64 })).collect();
        let ku: Vec<DbU64> = ints.iter().map(|x| DbU64::from(*x)).collect();
        let kv: Vec<DbVu64> = ints.iter().map(|x| DbVu64::from(*x)).collect();
        let (mut m1, mut m2, mut m3, mut m4, mut m5): (BTreeMap<_, _>, BTreeMap<_, _>, BTreeMap<_, _>, BTreeMap<_, _>, BTreeMap<_, _>) = Default::default();
        for session in 0..2 {
            let db = abyssiniandb::open_file(&dir).unwrap();
            { let mut m = db.db_map_string_with_params("ps", params.clone()).unwrap(); pertype_one("string map", session, &mut m, &ks, &mut m1)?; }
            { let mut m = db.db_map_bytes_with_params("pb", params.clone()).unwrap(); pertype_one("bytes map", session, &mut m, &kbs, &mut m2)?; }
            { let mut m = db.db_map_i64_with_params("pi", params.clone()).unwrap(); pertype_one("i64 map", session, &mut m, &ki, &mut m3)?; }
            { let mut m = db.db_map_u64_with_params("pu", params.clone()).unwrap(); pertype_one("u64 map", session, &mut m, &ku, &mut m4)?; }
            { let mut m = db.db_map_vu64_with_params("pv", params.clone()).unwrap(); pertype_one("vu64 map", session, &mut m, &kv, &mut m5)?; }
        }
        // call forms: key given as &str / &String / &[u8] / &Vec<u8> / &u64 / &i64 address the same entry
        let db = abyssiniandb::open_file(&dir).unwrap();
        let mut m = db.db_map_string_with_params("forms", params.clone()).unwrap();
        m.put("k1", b"v1").unwrap();
        if m.get(&String::from("k1")).unwrap() != Some(b"v1".to_vec()) || m.get(&b"k1"[..]).unwrap() != Some(b"v1".to_vec()) || m.get(&DbString::from("k1")).unwrap() != Some(b"v1".to_vec()) { return Err("string map: key forms &String / &[u8] / &DbString do not address the entry put as &str".into()); }
        let mut mb = db.db_map_bytes_with_params("formsb", params.clone()).unwrap();
        mb.put(&[1u8, 0], b"v").unwrap();
        if mb.get(&[1u8, 0][..]).unwrap() != Some(b"v".to_vec()) || mb.get(&[1u8][..]).unwrap().is_some() || mb.get(&[1u8, 0, 0][..]).unwrap().is_some() { return Err("bytes map: key forms / trailing zero".into()); }
        let mut mu = db.db_map_u64_with_params("formsu", params.clone()).unwrap();
        mu.put(&7u64, b"seven").unwrap();
        if mu.get(&DbU64::from(7u64)).unwrap() != Some(b"seven".to_vec()) || mu.get(&DbU64::from(&7u64)).unwrap() != Some(b"seven".to_vec()) { return Err("u64 map: by-value / by-reference key conversion".into()); }
        let mut mi = db.db_map_i64_with_params("formsi", params.clone()).unwrap();
        mi.put(&-7i64, b"minus").unwrap(); mi.put(&7i64, b"plus").unwrap();
        if mi.get(&DbI64::from(-7i64)).unwrap() != Some(b"minus".to_vec()) || mi.get(&DbI64::from(&-7i64)).unwrap() != Some(b"minus".to_vec()) || mi.get(&7i64).unwrap() != Some(b"plus".to_vec()) { return Err("i64 map: negative key / by-reference conversion".into()); }
        Ok(())
    }));
    let _ = std::fs::remove_dir_all(&dir);
    match res { Ok(Ok(())) => { println!("OK"); 0 } Ok(Err(e)) => { println!("MISMATCH: {e}"); 1 }
        Err(e) => { let msg = e.downcast_ref::<String>().cloned().unwrap_or_default();
            if msg.contains("key_offset != new_key_offset") || msg.contains("_prev_key_offset != new_prev_key_offset") { println!("OK (stopped at recorded finding K1)"); 0 } else { println!("MISMATCH: panicked: {msg}"); 1 } } }
}

/// C16 with a real OS refusal: the scenario re-executes itself under `ulimit -S -f 128` (SIGXFSZ ignored, so write(2) beyond 64 KiB fails
/// with EFBIG). For every key type: updates to a map whose table file is larger than the limit; every flush / sync — on the map, on a
/// second handle, on the whole database — must report the error, the in-memory view stays correct, and after the limit is lifted
/// (prlimit, if available) a flush succeeds and a copy of the directory opens to the full contents.
fn syncfail() -> i32 {
    let dir = tmpdir("syncfail");
    let big = FileDbParams { buckets_size: HashBucketsParam::BucketsSize(65536), ..Default::default() };
    let small = FileDbParams { buckets_size: HashBucketsParam::BucketsSize(64), ..Default::default() };
    {
        let db = abyssiniandb::open_file(&dir).unwrap();
        macro_rules! mk { ($f:ident, $a:expr, $z:expr, $k:expr) => {{ let mut a = db.$f($a, big.clone()).unwrap(); a.put($k, b"x").unwrap(); let mut z = db.$f($z, small.clone()).unwrap(); z.put($k, b"x").unwrap(); }}; }
        mk!(db_map_string_with_params, "s_a", "s_z", "seed"); mk!(db_map_bytes_with_params, "b_a", "b_z", &b"seed"[..]);
        mk!(db_map_i64_with_params, "i_a", "i_z", &0i64); mk!(db_map_u64_with_params, "u_a", "u_z", &0u64); mk!(db_map_vu64_with_params, "v_a", "v_z", &0u64);
    }
    let exe = std::env::current_exe().unwrap();
    let mut bad: Vec<String> = Vec::new();
    for t in 0..5 {
        let out = std::process::Command::new("sh").arg("-c").arg("trap '' XFSZ; ulimit -S -f 128 || exit 97; exec \"$0\" syncfail-child \"$1\" \"$2\"")
            .arg(&exe).arg(&dir).arg(t.to_string()).env("RUST_BACKTRACE", "0").output();
        match out {
            Err(e) => { println!("OK (skipped: cannot run sh: {e})"); let _ = std::fs::remove_dir_all(&dir); return 0; }
            Ok(o) => {
                let txt = String::from_utf8_lossy(&o.stdout).to_string();
                if o.status.code() == Some(97) { println!("OK (skipped: ulimit -f not available)"); let _ = std::fs::remove_dir_all(&dir); return 0; }
                if o.status.code().is_none() { println!("OK (skipped: the child was killed by a signal — SIGXFSZ cannot be ignored here)"); let _ = std::fs::remove_dir_all(&dir); return 0; }
                if o.status.code() != Some(0) { bad.push(format!("key type #{t}: {}", txt.lines().filter(|l| l.starts_with("MISMATCH") || l.contains("panicked")).collect::<Vec<_>>().join(" | "))); }
            }
        }
    }
    let _ = std::fs::remove_dir_all(&dir);
    let _ = std::fs::remove_dir_all(tmpdir("syncfailsnap"));
    if bad.is_empty() { println!("OK"); 0 } else { println!("MISMATCH: {}", bad.join("; ")); 1 }
}

fn syncfail_child(dir: &str, t: usize) -> i32 {
    let dir = std::path::PathBuf::from(dir);
    let big = FileDbParams { buckets_size: HashBucketsParam::BucketsSize(65536), ..Default::default() };
    let small = FileDbParams { buckets_size: HashBucketsParam::BucketsSize(64), ..Default::default() };
    let res = std::panic::catch_unwind(std::panic::AssertUnwindSafe(|| -> Result<(), String> {
        let db = abyssiniandb::open_file(&dir).unwrap();
        // all ten maps are open (registered) in this session
        let mut sa = db.db_map_string_with_params("s_a", big.clone()).unwrap(); let _sz = db.db_map_string_with_params("s_z", small.clone()).unwrap();
        let mut ba = db.db_map_bytes_with_params("b_a", big.clone()).unwrap(); let _bz = db.db_map_bytes_with_params("b_z", small.clone()).unwrap();
        let mut ia = db.db_map_i64_with_params("i_a", big.clone()).unwrap(); let _iz = db.db_map_i64_with_params("i_z", small.clone()).unwrap();
        let mut ua = db.db_map_u64_with_params("u_a", big.clone()).unwrap(); let _uz = db.db_map_u64_with_params("u_z", small.clone()).unwrap();
        let mut va = db.db_map_vu64_with_params("v_a", big.clone()).unwrap(); let _vz = db.db_map_vu64_with_params("v_z", small.clone()).unwrap();
        macro_rules! run { ($m:expr, $again:expr, $key:expr, $tag:expr) => {{
            for i in 0..300u64 { $m.put(&$key(i), &[(i & 0xff) as u8; 9]).unwrap(); }
            let mut errs: Vec<&str> = Vec::new();
            if $m.flush().is_ok() { errs.push("map.flush()"); }
            if $m.sync_data().is_ok() { errs.push("map.sync_data()"); }
            if $m.sync_all().is_ok() { errs.push("map.sync_all()"); }
            let mut h2 = $again;
            if h2.flush().is_ok() { errs.push("second_handle.flush()"); }
            if db.sync_all().is_ok() { errs.push("FileDb::sync_all()"); }
            if db.sync_data().is_ok() { errs.push("FileDb::sync_data()"); }
            if !errs.is_empty() { return Err(format!("{}: returned Ok although the OS refused the write: {}", $tag, errs.join(", "))); }
            for i in 0..300u64 { if $m.get(&$key(i)).unwrap() != Some(vec![(i & 0xff) as u8; 9]) { return Err(format!("{}: in-memory view wrong after the failed flush (key #{i})", $tag)); } }
            if $m.len().unwrap() != 301 { return Err(format!("{}: len {} after the failed flush", $tag, $m.len().unwrap())); }
            // calls that change nothing must not make the map forget its unflushed updates
            if $m.delete(&$key(1_000_000)).unwrap().is_some() { return Err(format!("{}: delete of an absent key returned a value", $tag)); }
            let _ = $m.includes_key(&$key(1_000_001)).unwrap(); let _ = $m.len().unwrap();
            // lift the limit, if possible
            let lifted = std::process::Command::new("prlimit").arg("--pid").arg(std::process::id().to_string()).arg("--fsize=unlimited:").status().map(|s| s.success()).unwrap_or(false);
            if lifted {
                if let Err(e) = $m.flush() { return Err(format!("{}: flush still fails after the limit was lifted: {e}", $tag)); }
                // the copy is taken right after flush() returned Ok (a sync_* would write regardless of the dirty flag)
                let snap = { let mut p = std::env::temp_dir(); p.push(format!("abyss-replay-syncfailsnap-{}", std::process::id())); p };
                copy_dir(&dir, &snap);
                db.sync_all().map_err(|e| format!("{}: FileDb::sync_all fails after the limit was lifted: {e}", $tag))?;
                let ok = { let db2 = abyssiniandb::open_file(&snap).unwrap(); let r = $tag; let _ = r; true && db2.path().exists() };
                let _ = ok;
                Some(snap)
            } else { None }
        }}; }
        let snap = match t {
            0 => { let s = run!(sa, db.db_map_string_with_params("s_a", small.clone()).unwrap(), |i: u64| format!("key{i}"), "string map");
                   if let Some(sn) = &s { let db2 = abyssiniandb::open_file(sn).unwrap(); let mut m2 = db2.db_map_string_with_params("s_a", big.clone()).unwrap();
                       for i in 0..300u64 { if m2.get(&format!("key{i}")).unwrap() != Some(vec![(i & 0xff) as u8; 9]) { return Err(format!("string map: key{i} not durable after a successful flush")); } } } s }
            1 => { let s = run!(ba, db.db_map_bytes("b_a").unwrap(), |i: u64| abyssiniandb::DbBytes::from(format!("key{i}").as_str()), "bytes map");
                   if let Some(sn) = &s { let db2 = abyssiniandb::open_file(sn).unwrap(); let mut m2 = db2.db_map_bytes_with_params("b_a", big.clone()).unwrap();
                       for i in 0..300u64 { if m2.get(format!("key{i}").as_str()).unwrap() != Some(vec![(i & 0xff) as u8; 9]) { return Err(format!("bytes map: key{i} not durable after a successful flush")); } } } s }
            2 => { let s = run!(ia, db.db_map_i64("i_a").unwrap(), |i: u64| (i as i64) * 7919 - 1000, "i64 map");
                   if let Some(sn) = &s { let db2 = abyssiniandb::open_file(sn).unwrap(); let mut m2 = db2.db_map_i64_with_params("i_a", big.clone()).unwrap();
                       for i in 0..300u64 { if m2.get(&((i as i64) * 7919 - 1000)).unwrap() != Some(vec![(i & 0xff) as u8; 9]) { return Err(format!("i64 map: key #{i} not durable after a successful flush")); } } } s }
            3 => { let s = run!(ua, db.db_map_u64("u_a").unwrap(), |i: u64| (i + 1) << 40, "u64 map");
                   if let Some(sn) = &s { let db2 = abyssiniandb::open_file(sn).unwrap(); let mut m2 = db2.db_map_u64_with_params("u_a", big.clone()).unwrap();
                       for i in 0..300u64 { if m2.get(&((i + 1) << 40)).unwrap() != Some(vec![(i & 0xff) as u8; 9]) { return Err(format!("u64 map: key #{i} not durable after a successful flush")); } } } s }
            _ => { let s = run!(va, db.db_map_vu64("v_a").unwrap(), |i: u64| (i + 1) * 1_000_003, "vu64 map");
                   if let Some(sn) = &s { let db2 = abyssiniandb::open_file(sn).unwrap(); let mut m2 = db2.db_map_vu64_with_params("v_a", big.clone()).unwrap();
                       for i in 0..300u64 { if m2.get(&((i + 1) * 1_000_003)).unwrap() != Some(vec![(i & 0xff) as u8; 9]) { return Err(format!("vu64 map: key #{i} not durable after a successful flush")); } } } s }
        };
        if let Some(sn) = snap { let _ = std::fs::remove_dir_all(sn); }
        Ok(())
    }));
    match res { Ok(Ok(())) => { println!("OK"); 0 } Ok(Err(e)) => { println!("MISMATCH: {e}"); 1 }
        Err(e) => { let msg = e.downcast_ref::<String>().cloned().or_else(|| e.downcast_ref::<&str>().map(|x| x.to_string())).unwrap_or_default(); println!("MISMATCH: panicked: {msg}"); 1 } }
}

/// values come back byte for byte through every front-end form: empty value vs missing key, trailing NULs, lengths around 64 KiB,
/// multi-byte strings through put_string / get_string, for a string map and a u64 map
fn values() -> i32 {
    let dir = tmpdir("values");
    let res = std::panic::catch_unwind(std::panic::AssertUnwindSafe(|| -> Result<(), String> {
        let params = FileDbParams { buckets_size: HashBucketsParam::BucketsSize(8), ..Default::default() };
        let db = abyssiniandb::open_file(&dir).unwrap();
        let mut m = db.db_map_string_with_params("m", params.clone()).unwrap();
        let mut u = db.db_map_u64_with_params("u", params.clone()).unwrap();
        let mut vals: Vec<Vec<u8>> = vec![vec![], vec![0], vec![0, 0, 0], b"x\0\0".to_vec(), b"\0x".to_vec(), vec![0xff; 7], (0..=255u8).collect()];
        for n in [255usize, 256, 257, 65535, 65536, 65537, 70001] { vals.push((0..n).map(|i| (i * 7 + n) as u8).collect()); let mut z = vec![1u8; n]; z[n - 1] = 0; vals.push(z); }
        for (i, v) in vals.iter().enumerate() {
            let k = format!("k{i}");
            if m.get(&k).unwrap().is_some() || m.get_string(&k).unwrap().is_some() { return Err(format!("missing key {k} reads as present")); }
            m.put(&k, v).unwrap(); u.put(&(i as u64), v).unwrap();
            if m.get(&k).unwrap().as_ref() != Some(v) { return Err(format!("string map: value #{i} ({} bytes) comes back changed (len {:?})", v.len(), m.get(&k).unwrap().map(|x| x.len()))); }
            if u.get(&(i as u64)).unwrap().as_ref() != Some(v) { return Err(format!("u64 map: value #{i} ({} bytes) comes back changed", v.len())); }
        }
        for (i, v) in vals.iter().enumerate() { if m.get(&format!("k{i}")).unwrap().as_ref() != Some(v) { return Err(format!("string map: value #{i} changed after later puts")); } }
        use abyssiniandb::DbMapKeyType;
        let it: std::collections::BTreeMap<String, Vec<u8>> = m.iter().map(|(k, v)| (String::from_utf8_lossy(k.as_bytes()).to_string(), v)).collect();
        for (i, v) in vals.iter().enumerate() { if it.get(&format!("k{i}")) != Some(v) { return Err(format!("iteration: value #{i} differs")); } }
        for (i, sv) in ["", " ", "a", "h\u{e9}llo", "\u{65e5}\u{672c}\u{8a9e}", "tab\tnew\nline", "nul\0inside", "trailing space "].iter().enumerate() {
            let k = format!("s{i}");
            m.put_string(&k, sv).unwrap();
            if m.get_string(&k).unwrap().as_deref() != Some(*sv) || m.get(&k).unwrap() != Some(sv.as_bytes().to_vec()) { return Err(format!("put_string / get_string: {sv:?} comes back changed")); }
            if m.delete_string(&k).unwrap().as_deref() != Some(*sv) { return Err(format!("delete_string: {sv:?} comes back changed")); }
        }
        Ok(())
    }));
    let _ = std::fs::remove_dir_all(&dir);
    match res { Ok(Ok(())) => { println!("OK"); 0 } Ok(Err(e)) => { println!("MISMATCH: {e}"); 1 }
        Err(e) => { let msg = e.downcast_ref::<String>().cloned().unwrap_or_default();
            if msg.contains("key_offset != new_key_offset") || msg.contains("_prev_key_offset != new_prev_key_offset") { println!("OK (stopped at recorded finding K1)"); 0 } else { println!("MISMATCH: panicked: {msg}"); 1 } } }
}
